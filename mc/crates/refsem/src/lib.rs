//! Reference semantics for Cedar, written from the language definition.
//! This crate must never depend on any cedar crate.
pub mod expr;
pub mod ext;
pub mod policy;
pub mod print;
pub mod val;
pub use expr::*;
pub use policy::*;
pub use val::*;
