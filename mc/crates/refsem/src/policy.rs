//! Reference policies, their printers (Cedar text / JSON policy format) and the reference authorizer.
use crate::expr::*;
use crate::print::{self, Style};
use crate::val::*;
use serde_json::{json, Value as J};
use std::collections::BTreeSet;

#[derive(Clone, Copy, Debug, PartialEq, Eq, PartialOrd, Ord, Hash, serde::Serialize, serde::Deserialize)]
pub enum Effect {
    Permit,
    Forbid,
}

#[derive(Clone, Debug, PartialEq, Eq, PartialOrd, Ord, Hash, serde::Serialize, serde::Deserialize)]
pub enum Ref {
    Uid(Uid),
    Slot,
}

/// principal / resource scope constraint
#[derive(Clone, Debug, PartialEq, Eq, PartialOrd, Ord, Hash, serde::Serialize, serde::Deserialize)]
pub enum PR {
    Any,
    Eq(Ref),
    In(Ref),
    Is(String),
    IsIn(String, Ref),
}

#[derive(Clone, Debug, PartialEq, Eq, PartialOrd, Ord, Hash, serde::Serialize, serde::Deserialize)]
pub enum AS {
    Any,
    Eq(Uid),
    In(Uid),
    InList(Vec<Uid>),
}

#[derive(Clone, Debug, PartialEq, Eq, PartialOrd, Ord, Hash, serde::Serialize, serde::Deserialize)]
pub struct Pol {
    pub id: String,
    pub effect: Effect,
    pub annotations: Vec<(String, Option<String>)>,
    pub principal: PR,
    pub action: AS,
    pub resource: PR,
    /// (is_when, body)
    pub conds: Vec<(bool, E)>,
}

impl Pol {
    pub fn simple(id: &str, effect: Effect, when: Option<E>) -> Pol {
        Pol {
            id: id.to_string(),
            effect,
            annotations: vec![],
            principal: PR::Any,
            action: AS::Any,
            resource: PR::Any,
            conds: when.into_iter().map(|e| (true, e)).collect(),
        }
    }
    pub fn has_slots(&self) -> bool {
        let s = |p: &PR| matches!(p, PR::Eq(Ref::Slot) | PR::In(Ref::Slot) | PR::IsIn(_, Ref::Slot));
        s(&self.principal) || s(&self.resource)
    }
    pub fn principal_slot(&self) -> bool {
        matches!(&self.principal, PR::Eq(Ref::Slot) | PR::In(Ref::Slot) | PR::IsIn(_, Ref::Slot))
    }
    pub fn resource_slot(&self) -> bool {
        matches!(&self.resource, PR::Eq(Ref::Slot) | PR::In(Ref::Slot) | PR::IsIn(_, Ref::Slot))
    }

    fn pr_expr(var: Var, slot: SlotId, c: &PR) -> E {
        let r = |r: &Ref| match r {
            Ref::Uid(u) => E::Ent(u.clone()),
            Ref::Slot => E::Slot(slot),
        };
        match c {
            PR::Any => E::Bool(true),
            PR::Eq(x) => E::bin(BinOp::Eq, E::Var(var), r(x)),
            PR::In(x) => E::bin(BinOp::In, E::Var(var), r(x)),
            PR::Is(t) => E::Is(b(E::Var(var)), t.clone()),
            PR::IsIn(t, x) => E::IsIn(b(E::Var(var)), t.clone(), b(r(x))),
        }
    }

    /// the conjuncts of the policy condition in evaluation order
    pub fn conjuncts(&self) -> Vec<E> {
        let mut v = vec![
            Self::pr_expr(Var::Principal, SlotId::Principal, &self.principal),
            match &self.action {
                AS::Any => E::Bool(true),
                AS::Eq(u) => E::bin(BinOp::Eq, E::Var(Var::Action), E::Ent(u.clone())),
                AS::In(u) => E::bin(BinOp::In, E::Var(Var::Action), E::Ent(u.clone())),
                AS::InList(us) => E::bin(BinOp::In, E::Var(Var::Action), E::Set(us.iter().map(|u| E::Ent(u.clone())).collect())),
            },
            Self::pr_expr(Var::Resource, SlotId::Resource, &self.resource),
        ];
        for (w, e) in &self.conds {
            v.push(if *w { e.clone() } else { E::not(e.clone()) });
        }
        v
    }

    /// Ok(true) satisfied, Ok(false) not, Err = evaluation error
    pub fn eval(&self, env: &Env) -> Result<bool, ErrClass> {
        for c in self.conjuncts() {
            match eval(&c, env)? {
                Val::Bool(true) => {}
                Val::Bool(false) => return Ok(false),
                _ => return Err(ErrClass::Type),
            }
        }
        Ok(true)
    }

    /// the static policy obtained by writing the linked entity in place of each slot
    pub fn substitute(&self, new_id: &str, p: Option<&Uid>, r: Option<&Uid>) -> Pol {
        let sub = |c: &PR, u: Option<&Uid>| -> PR {
            let f = |x: &Ref| match (x, u) {
                (Ref::Slot, Some(u)) => Ref::Uid(u.clone()),
                _ => x.clone(),
            };
            match c {
                PR::Eq(x) => PR::Eq(f(x)),
                PR::In(x) => PR::In(f(x)),
                PR::IsIn(t, x) => PR::IsIn(t.clone(), f(x)),
                o => o.clone(),
            }
        };
        Pol { id: new_id.to_string(), principal: sub(&self.principal, p), resource: sub(&self.resource, r), ..self.clone() }
    }

    pub fn text(&self, st: &Style) -> String {
        let mut s = String::new();
        for (k, v) in &self.annotations {
            match v {
                Some(v) => s.push_str(&format!("@{}({})\n", k, print::str_lit(v, st.escape_all))),
                None => s.push_str(&format!("@{}\n", k)),
            }
        }
        s.push_str(match self.effect {
            Effect::Permit => "permit(",
            Effect::Forbid => "forbid(",
        });
        let pr = |var: &str, c: &PR| -> String {
            let r = |r: &Ref| match r {
                Ref::Uid(u) => print::uid_text(u, st.escape_all),
                Ref::Slot => format!("?{}", var),
            };
            match c {
                PR::Any => var.to_string(),
                PR::Eq(x) => format!("{} == {}", var, r(x)),
                PR::In(x) => format!("{} in {}", var, r(x)),
                PR::Is(t) => format!("{} is {}", var, t),
                PR::IsIn(t, x) => format!("{} is {} in {}", var, t, r(x)),
            }
        };
        s.push_str(&pr("principal", &self.principal));
        s.push_str(", ");
        s.push_str(&match &self.action {
            AS::Any => "action".to_string(),
            AS::Eq(u) => format!("action == {}", print::uid_text(u, st.escape_all)),
            AS::In(u) => format!("action in {}", print::uid_text(u, st.escape_all)),
            AS::InList(us) => format!("action in [{}]", us.iter().map(|u| print::uid_text(u, st.escape_all)).collect::<Vec<_>>().join(", ")),
        });
        s.push_str(", ");
        s.push_str(&pr("resource", &self.resource));
        s.push(')');
        for (w, e) in &self.conds {
            s.push_str(if *w { " when { " } else { " unless { " });
            s.push_str(&print::text(e, st));
            s.push_str(" }");
        }
        s.push(';');
        s
    }

    /// JSON policy format
    pub fn est(&self) -> J {
        let pr = |var: &str, c: &PR| -> J {
            let r = |r: &Ref, m: &mut serde_json::Map<String, J>| match r {
                Ref::Uid(u) => {
                    m.insert("entity".into(), print::uid_json(u));
                }
                Ref::Slot => {
                    m.insert("slot".into(), json!(format!("?{}", var)));
                }
            };
            let mut m = serde_json::Map::new();
            match c {
                PR::Any => {
                    m.insert("op".into(), json!("All"));
                }
                PR::Eq(x) => {
                    m.insert("op".into(), json!("=="));
                    r(x, &mut m);
                }
                PR::In(x) => {
                    m.insert("op".into(), json!("in"));
                    r(x, &mut m);
                }
                PR::Is(t) => {
                    m.insert("op".into(), json!("is"));
                    m.insert("entity_type".into(), json!(t));
                }
                PR::IsIn(t, x) => {
                    m.insert("op".into(), json!("is"));
                    m.insert("entity_type".into(), json!(t));
                    let mut inner = serde_json::Map::new();
                    r(x, &mut inner);
                    m.insert("in".into(), J::Object(inner));
                }
            }
            J::Object(m)
        };
        let action = match &self.action {
            AS::Any => json!({"op": "All"}),
            AS::Eq(u) => json!({"op": "==", "entity": print::uid_json(u)}),
            AS::In(u) => json!({"op": "in", "entity": print::uid_json(u)}),
            AS::InList(us) => json!({"op": "in", "entities": us.iter().map(print::uid_json).collect::<Vec<_>>()}),
        };
        let mut ann = serde_json::Map::new();
        for (k, v) in &self.annotations {
            ann.insert(k.clone(), match v {
                Some(v) => json!(v),
                None => J::Null,
            });
        }
        let mut o = json!({
            "effect": match self.effect { Effect::Permit => "permit", Effect::Forbid => "forbid" },
            "principal": pr("principal", &self.principal),
            "action": action,
            "resource": pr("resource", &self.resource),
            "conditions": self.conds.iter().map(|(w, e)| json!({"kind": if *w {"when"} else {"unless"}, "body": print::est(e)})).collect::<Vec<_>>(),
        });
        if !ann.is_empty() {
            o.as_object_mut().unwrap().insert("annotations".into(), J::Object(ann));
        }
        o
    }
}

#[derive(Clone, Copy, Debug, PartialEq, Eq, PartialOrd, Ord, Hash, serde::Serialize, serde::Deserialize)]
pub enum Decision {
    Allow,
    Deny,
}

#[derive(Clone, Debug, PartialEq, Eq, PartialOrd, Ord, Hash, serde::Serialize, serde::Deserialize)]
pub struct Resp {
    pub decision: Decision,
    pub reasons: BTreeSet<String>,
    pub errors: BTreeSet<String>,
}

/// a policy of the set, with its slot bindings (None for static policies)
#[derive(Clone, Debug, PartialEq, Eq, PartialOrd, Ord, Hash, serde::Serialize, serde::Deserialize)]
pub struct Inst {
    pub id: String,
    pub pol: Pol,
    pub slot_principal: Option<Uid>,
    pub slot_resource: Option<Uid>,
}

impl Inst {
    pub fn stat(p: Pol) -> Inst {
        Inst { id: p.id.clone(), pol: p, slot_principal: None, slot_resource: None }
    }
    pub fn eval(&self, req: &Req, store: &Store) -> Result<bool, ErrClass> {
        let env = Env { req, store, slot_principal: self.slot_principal.clone(), slot_resource: self.slot_resource.clone() };
        self.pol.eval(&env)
    }
}

pub fn authorize(pols: &[Inst], req: &Req, store: &Store) -> Resp {
    let mut sat_permit = BTreeSet::new();
    let mut sat_forbid = BTreeSet::new();
    let mut errors = BTreeSet::new();
    for p in pols {
        match p.eval(req, store) {
            Ok(true) => {
                match p.pol.effect {
                    Effect::Permit => sat_permit.insert(p.id.clone()),
                    Effect::Forbid => sat_forbid.insert(p.id.clone()),
                };
            }
            Ok(false) => {}
            Err(_) => {
                errors.insert(p.id.clone());
            }
        }
    }
    if !sat_forbid.is_empty() {
        Resp { decision: Decision::Deny, reasons: sat_forbid, errors }
    } else if !sat_permit.is_empty() {
        Resp { decision: Decision::Allow, reasons: sat_permit, errors }
    } else {
        Resp { decision: Decision::Deny, reasons: BTreeSet::new(), errors }
    }
}
