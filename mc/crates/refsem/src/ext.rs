//! Reference implementation of the extension types, from the documented formats:
//! decimal  `-?d+.d{1,4}` within i64 * 10^-4
//! ip       std textual IPv4 (no leading zeros) / IPv6 (no embedded v4, no zone), optional /prefix
//! datetime `YYYY-MM-DD` | `YYYY-MM-DDThh:mm:ss(.SSS)?(Z|(+|-)hhmm)`
//! duration `-?(Nd)?(Nh)?(Nm)?(Ns)?(Nms)?` non-empty, in that order
use crate::expr::E;
use crate::val::*;

pub const EXT_FUNCS: &[(&str, usize)] = &[
    ("decimal", 1),
    ("lessThan", 2),
    ("lessThanOrEqual", 2),
    ("greaterThan", 2),
    ("greaterThanOrEqual", 2),
    ("ip", 1),
    ("isIpv4", 1),
    ("isIpv6", 1),
    ("isLoopback", 1),
    ("isMulticast", 1),
    ("isInRange", 2),
    ("datetime", 1),
    ("duration", 1),
    ("offset", 2),
    ("durationSince", 2),
    ("toDate", 1),
    ("toTime", 1),
    ("toMilliseconds", 1),
    ("toSeconds", 1),
    ("toMinutes", 1),
    ("toHours", 1),
    ("toDays", 1),
];

/// constructors are written function-style, everything else method-style
pub fn is_constructor(name: &str) -> bool {
    matches!(name, "decimal" | "ip" | "datetime" | "duration")
}

fn all_digits(s: &str) -> bool {
    !s.is_empty() && s.bytes().all(|c| c.is_ascii_digit())
}

pub fn parse_decimal(s: &str) -> Option<i64> {
    let (neg, body) = match s.strip_prefix('-') {
        Some(r) => (true, r),
        None => (false, s),
    };
    let (l, r) = body.split_once('.')?;
    if !all_digits(l) || !all_digits(r) || r.len() > 4 {
        return None;
    }
    // exact value * 10^4 in i128 (integer part may be arbitrarily long: cap by length)
    let l = l.trim_start_matches('0');
    if l.len() > 20 {
        return None;
    }
    let li: i128 = if l.is_empty() { 0 } else { l.parse().ok()? };
    let mut ri: i128 = r.parse().ok()?;
    for _ in r.len()..4 {
        ri *= 10;
    }
    let mut v = li * 10_000 + ri;
    if neg {
        v = -v;
    }
    i64::try_from(v).ok()
}

fn parse_v4(s: &str) -> Option<u32> {
    let parts: Vec<&str> = s.split('.').collect();
    if parts.len() != 4 {
        return None;
    }
    let mut out: u32 = 0;
    for p in parts {
        if !all_digits(p) || p.len() > 3 {
            return None;
        }
        if p.len() > 1 && p.starts_with('0') {
            return None;
        }
        let n: u32 = p.parse().ok()?;
        if n > 255 {
            return None;
        }
        out = (out << 8) | n;
    }
    Some(out)
}

fn parse_groups(s: &str) -> Option<Vec<u16>> {
    if s.is_empty() {
        return Some(vec![]);
    }
    let mut v = Vec::new();
    for g in s.split(':') {
        if g.is_empty() || g.len() > 4 || !g.bytes().all(|c| c.is_ascii_hexdigit()) {
            return None;
        }
        v.push(u16::from_str_radix(g, 16).ok()?);
    }
    Some(v)
}

fn parse_v6(s: &str) -> Option<u128> {
    let groups: Vec<u16> = if let Some(i) = s.find("::") {
        let (h, t) = (&s[..i], &s[i + 2..]);
        if t.contains("::") {
            return None;
        }
        let h = parse_groups(h)?;
        let t = parse_groups(t)?;
        if h.len() + t.len() > 7 {
            return None;
        }
        let mut g = h.clone();
        g.extend(std::iter::repeat(0).take(8 - h.len() - t.len()));
        g.extend(t);
        g
    } else {
        let g = parse_groups(s)?;
        if g.len() != 8 {
            return None;
        }
        g
    };
    let mut out: u128 = 0;
    for g in groups {
        out = (out << 16) | g as u128;
    }
    Some(out)
}

fn parse_prefix(s: &str, max: u8) -> Option<u8> {
    if !all_digits(s) || s.len() > 3 {
        return None;
    }
    if s.len() > 1 && s.starts_with('0') {
        return None;
    }
    let n: u32 = s.parse().ok()?;
    if n > max as u32 {
        return None;
    }
    Some(n as u8)
}

pub fn parse_ip(s: &str) -> Option<IpVal> {
    if s.len() > 43 {
        return None;
    }
    let (a, p) = match s.split_once('/') {
        Some((a, p)) => (a, Some(p)),
        None => (s, None),
    };
    if let Some(v4) = parse_v4(a) {
        let prefix = match p {
            None => 32,
            Some(p) => parse_prefix(p, 32)?,
        };
        return Some(IpVal { v6: false, addr: v4 as u128, prefix });
    }
    if let Some(v6) = parse_v6(a) {
        let prefix = match p {
            None => 128,
            Some(p) => parse_prefix(p, 128)?,
        };
        return Some(IpVal { v6: true, addr: v6, prefix });
    }
    None
}

fn ip_range(x: &IpVal) -> (u128, u128) {
    let bits: u32 = if x.v6 { 128 } else { 32 };
    let host_bits = bits - x.prefix as u32;
    let full: u128 = if x.v6 { u128::MAX } else { u32::MAX as u128 };
    let hostmask: u128 = if host_bits >= 128 { u128::MAX } else { (1u128 << host_bits) - 1 } & full;
    let lo = x.addr & !hostmask & full;
    let hi = x.addr | hostmask;
    (lo, hi)
}

pub fn ip_in_range(x: &IpVal, y: &IpVal) -> bool {
    if x.v6 != y.v6 {
        return false;
    }
    let (xl, xh) = ip_range(x);
    let (yl, yh) = ip_range(y);
    yl <= xl && xh <= yh
}

/// days since 1970-01-01 of a proleptic Gregorian civil date
pub fn days_from_civil(y: i64, m: i64, d: i64) -> i64 {
    // count days by summing years and months (boring on purpose)
    fn leap(y: i64) -> bool {
        (y % 4 == 0 && y % 100 != 0) || y % 400 == 0
    }
    let mut days: i64 = 0;
    if y >= 1970 {
        for yy in 1970..y {
            days += if leap(yy) { 366 } else { 365 };
        }
    } else {
        for yy in y..1970 {
            days -= if leap(yy) { 366 } else { 365 };
        }
    }
    let ml = [31, if leap(y) { 29 } else { 28 }, 31, 30, 31, 30, 31, 31, 30, 31, 30, 31];
    for mm in 1..m {
        days += ml[(mm - 1) as usize];
    }
    days + (d - 1)
}

pub fn days_in_month(y: i64, m: i64) -> i64 {
    let leap = (y % 4 == 0 && y % 100 != 0) || y % 400 == 0;
    match m {
        1 | 3 | 5 | 7 | 8 | 10 | 12 => 31,
        4 | 6 | 9 | 11 => 30,
        2 => {
            if leap {
                29
            } else {
                28
            }
        }
        _ => 0,
    }
}

fn num(s: &str, len: usize) -> Option<i64> {
    if s.len() != len || !all_digits(s) {
        return None;
    }
    s.parse().ok()
}

pub fn parse_datetime(s: &str) -> Option<i64> {
    if !s.is_ascii() {
        return None;
    }
    if s.len() < 10 {
        return None;
    }
    let date = &s[..10];
    let rest = &s[10..];
    let b = date.as_bytes();
    if b[4] != b'-' || b[7] != b'-' {
        return None;
    }
    let y = num(&date[0..4], 4)?;
    let m = num(&date[5..7], 2)?;
    let d = num(&date[8..10], 2)?;
    if !(1..=12).contains(&m) || d < 1 || d > days_in_month(y, m) {
        return None;
    }
    let day_ms: i64 = days_from_civil(y, m, d) * 86_400_000;
    if rest.is_empty() {
        return Some(day_ms);
    }
    // Thh:mm:ss
    if rest.len() < 9 {
        return None;
    }
    let t = &rest[..9];
    let tb = t.as_bytes();
    if tb[0] != b'T' || tb[3] != b':' || tb[6] != b':' {
        return None;
    }
    let hh = num(&t[1..3], 2)?;
    let mi = num(&t[4..6], 2)?;
    let ss = num(&t[7..9], 2)?;
    if hh > 23 || mi > 59 || ss > 59 {
        return None;
    }
    let mut rest = &rest[9..];
    let mut ms = 0;
    if let Some(r) = rest.strip_prefix('.') {
        if r.len() < 3 {
            return None;
        }
        ms = num(&r[..3], 3)?;
        rest = &r[3..];
    }
    let off_ms: i64 = if rest == "Z" {
        0
    } else {
        if rest.len() != 5 {
            return None;
        }
        let sign = match rest.as_bytes()[0] {
            b'+' => 1,
            b'-' => -1,
            _ => return None,
        };
        let oh = num(&rest[1..3], 2)?;
        let om = num(&rest[3..5], 2)?;
        if oh > 23 || om > 59 {
            return None;
        }
        sign * (oh * 3_600_000 + om * 60_000)
    };
    // local time = UTC + offset  =>  UTC = local - offset
    Some(day_ms + hh * 3_600_000 + mi * 60_000 + ss * 1000 + ms - off_ms)
}

pub fn parse_duration(s: &str) -> Option<i64> {
    let (neg, mut rest) = match s.strip_prefix('-') {
        Some(r) => (true, r),
        None => (false, s),
    };
    if rest.is_empty() {
        return None;
    }
    let units: [(&str, i128); 5] = [("d", 86_400_000), ("h", 3_600_000), ("m", 60_000), ("s", 1000), ("ms", 1)];
    let mut total: i128 = 0;
    let mut any = false;
    let mut next_unit = 0usize;
    while !rest.is_empty() {
        let nd = rest.bytes().take_while(|c| c.is_ascii_digit()).count();
        if nd == 0 {
            return None;
        }
        let (digits, after) = rest.split_at(nd);
        // unit: longest of "ms" / single letter
        let (unit, after2) = if let Some(a) = after.strip_prefix("ms") {
            ("ms", a)
        } else if let Some(c) = after.chars().next() {
            let l = c.len_utf8();
            (&after[..l], &after[l..])
        } else {
            return None;
        };
        let idx = units.iter().position(|(u, _)| *u == unit)?;
        if idx < next_unit {
            return None;
        }
        next_unit = idx + 1;
        let digits = digits.trim_start_matches('0');
        if digits.len() > 25 {
            return None;
        }
        let n: i128 = if digits.is_empty() { 0 } else { digits.parse().ok()? };
        total += n * units[idx].1;
        if total > (i64::MAX as i128) + 1 {
            // cannot come back in range (all terms are non-negative)
            return None;
        }
        any = true;
        rest = after2;
    }
    if !any {
        return None;
    }
    if neg {
        total = -total;
    }
    i64::try_from(total).ok()
}

fn s1(args: &[Val]) -> Result<&str, ErrClass> {
    match args {
        [Val::Str(s)] => Ok(s),
        [_] => Err(ErrClass::Type),
        _ => Err(ErrClass::Other),
    }
}

fn dec(v: &Val) -> Result<i64, ErrClass> {
    match v {
        Val::Ext(ExtVal::Decimal(x)) => Ok(*x),
        _ => Err(ErrClass::Type),
    }
}
fn ipv(v: &Val) -> Result<&IpVal, ErrClass> {
    match v {
        Val::Ext(ExtVal::Ip(x)) => Ok(x),
        _ => Err(ErrClass::Type),
    }
}
fn dt(v: &Val) -> Result<i64, ErrClass> {
    match v {
        Val::Ext(ExtVal::Datetime(x)) => Ok(*x),
        _ => Err(ErrClass::Type),
    }
}
fn dur(v: &Val) -> Result<i64, ErrClass> {
    match v {
        Val::Ext(ExtVal::Duration(x)) => Ok(*x),
        _ => Err(ErrClass::Type),
    }
}

pub fn call(name: &str, args: &[Val]) -> R {
    let arity = match EXT_FUNCS.iter().find(|(n, _)| *n == name) {
        Some((_, a)) => *a,
        None => return Err(ErrClass::Other),
    };
    if args.len() != arity {
        return Err(ErrClass::Other);
    }
    let bool_ = |x: bool| Ok(Val::Bool(x));
    match name {
        "decimal" => parse_decimal(s1(args)?).map(|x| Val::Ext(ExtVal::Decimal(x))).ok_or(ErrClass::Extension),
        "ip" => parse_ip(s1(args)?).map(|x| Val::Ext(ExtVal::Ip(x))).ok_or(ErrClass::Extension),
        "datetime" => parse_datetime(s1(args)?).map(|x| Val::Ext(ExtVal::Datetime(x))).ok_or(ErrClass::Extension),
        "duration" => parse_duration(s1(args)?).map(|x| Val::Ext(ExtVal::Duration(x))).ok_or(ErrClass::Extension),
        "lessThan" | "lessThanOrEqual" | "greaterThan" | "greaterThanOrEqual" => {
            let a = dec(&args[0])?;
            let b = dec(&args[1])?;
            bool_(match name {
                "lessThan" => a < b,
                "lessThanOrEqual" => a <= b,
                "greaterThan" => a > b,
                _ => a >= b,
            })
        }
        "isIpv4" => bool_(!ipv(&args[0])?.v6),
        "isIpv6" => bool_(ipv(&args[0])?.v6),
        "isLoopback" => {
            let x = ipv(&args[0])?;
            let range = if x.v6 { IpVal { v6: true, addr: 1, prefix: 128 } } else { IpVal { v6: false, addr: 0x7f00_0000, prefix: 8 } };
            bool_(ip_in_range(x, &range))
        }
        "isMulticast" => {
            let x = ipv(&args[0])?;
            let range = if x.v6 { IpVal { v6: true, addr: 0xffu128 << 120, prefix: 8 } } else { IpVal { v6: false, addr: 0xe000_0000, prefix: 4 } };
            bool_(ip_in_range(x, &range))
        }
        "isInRange" => {
            let x = ipv(&args[0])?;
            let y = ipv(&args[1])?;
            bool_(ip_in_range(x, y))
        }
        "offset" => {
            let a = dt(&args[0])?;
            let d = dur(&args[1])?;
            i64::try_from(a as i128 + d as i128).map(|x| Val::Ext(ExtVal::Datetime(x))).map_err(|_| ErrClass::Extension)
        }
        "durationSince" => {
            let a = dt(&args[0])?;
            let c = dt(&args[1])?;
            i64::try_from(a as i128 - c as i128).map(|x| Val::Ext(ExtVal::Duration(x))).map_err(|_| ErrClass::Extension)
        }
        "toDate" => {
            let a = dt(&args[0])? as i128;
            let day = 86_400_000i128;
            let fl = a.div_euclid(day) * day;
            i64::try_from(fl).map(|x| Val::Ext(ExtVal::Datetime(x))).map_err(|_| ErrClass::Extension)
        }
        "toTime" => {
            let a = dt(&args[0])? as i128;
            Ok(Val::Ext(ExtVal::Duration(a.rem_euclid(86_400_000) as i64)))
        }
        "toMilliseconds" | "toSeconds" | "toMinutes" | "toHours" | "toDays" => {
            let d = dur(&args[0])? as i128;
            let div: i128 = match name {
                "toMilliseconds" => 1,
                "toSeconds" => 1000,
                "toMinutes" => 60_000,
                "toHours" => 3_600_000,
                _ => 86_400_000,
            };
            // truncation toward zero
            Ok(Val::Long((d / div) as i64))
        }
        _ => Err(ErrClass::Other),
    }
}

/// An expression that evaluates to the given extension value.
pub fn to_expr(x: &ExtVal) -> E {
    match x {
        ExtVal::Decimal(v) => {
            let a = (*v as i128).abs();
            let s = format!("{}{}.{:04}", if *v < 0 { "-" } else { "" }, a / 10_000, a % 10_000);
            E::ext("decimal", vec![E::Str(s)])
        }
        ExtVal::Ip(ip) => {
            let s = if ip.v6 {
                let mut gs = Vec::new();
                for i in 0..8 {
                    gs.push(format!("{:x}", (ip.addr >> (112 - 16 * i)) & 0xffff));
                }
                format!("{}/{}", gs.join(":"), ip.prefix)
            } else {
                let a = ip.addr as u32;
                format!("{}.{}.{}.{}/{}", a >> 24, (a >> 16) & 255, (a >> 8) & 255, a & 255, ip.prefix)
            };
            E::ext("ip", vec![E::Str(s)])
        }
        ExtVal::Datetime(ms) => E::ext(
            "offset",
            vec![E::ext("datetime", vec![E::str("1970-01-01")]), E::ext("duration", vec![E::Str(format!("{}ms", ms))])],
        ),
        ExtVal::Duration(ms) => E::ext("duration", vec![E::Str(format!("{}ms", ms))]),
    }
}
