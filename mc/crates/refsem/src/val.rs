//! Reference values. Written from the Cedar language definition, independent of cedar's code.
use std::collections::{BTreeMap, BTreeSet};

#[derive(Clone, Debug, PartialEq, Eq, PartialOrd, Ord, Hash, serde::Serialize, serde::Deserialize)]
pub struct Uid {
    /// fully qualified type name, e.g. `NS::Thing`
    pub ty: String,
    pub id: String,
}

impl Uid {
    pub fn new(ty: &str, id: &str) -> Self {
        Uid { ty: ty.to_string(), id: id.to_string() }
    }
}

#[derive(Clone, Debug, PartialEq, Eq, PartialOrd, Ord, Hash, serde::Serialize, serde::Deserialize)]
pub struct IpVal {
    pub v6: bool,
    /// address bits (v4 in the low 32 bits)
    pub addr: u128,
    pub prefix: u8,
}

#[derive(Clone, Debug, PartialEq, Eq, PartialOrd, Ord, Hash, serde::Serialize, serde::Deserialize)]
pub enum ExtVal {
    /// value * 10^4
    Decimal(i64),
    Ip(IpVal),
    /// ms since epoch
    Datetime(i64),
    /// ms
    Duration(i64),
}

#[derive(Clone, Debug, PartialEq, Eq, PartialOrd, Ord, Hash, serde::Serialize, serde::Deserialize)]
pub enum Val {
    Bool(bool),
    Long(i64),
    Str(String),
    Uid(Uid),
    Set(BTreeSet<Val>),
    Rec(BTreeMap<String, Val>),
    Ext(ExtVal),
}

impl Val {
    pub fn set<I: IntoIterator<Item = Val>>(it: I) -> Val {
        Val::Set(it.into_iter().collect())
    }
    pub fn rec<I: IntoIterator<Item = (String, Val)>>(it: I) -> Val {
        Val::Rec(it.into_iter().collect())
    }
    pub fn kind(&self) -> &'static str {
        match self {
            Val::Bool(_) => "bool",
            Val::Long(_) => "long",
            Val::Str(_) => "string",
            Val::Uid(_) => "entity",
            Val::Set(_) => "set",
            Val::Rec(_) => "record",
            Val::Ext(ExtVal::Decimal(_)) => "decimal",
            Val::Ext(ExtVal::Ip(_)) => "ipaddr",
            Val::Ext(ExtVal::Datetime(_)) => "datetime",
            Val::Ext(ExtVal::Duration(_)) => "duration",
        }
    }
}

/// The error classes the properties distinguish.
#[derive(Clone, Copy, Debug, PartialEq, Eq, PartialOrd, Ord, Hash, serde::Serialize, serde::Deserialize)]
pub enum ErrClass {
    Type,
    EntityMissing,
    AttrMissing,
    Overflow,
    Extension,
    /// wrong number of arguments / unknown function / unlinked slot etc. (not among the
    /// classes of the language definition proper; kept separate so it never merges)
    Other,
}

pub type R = Result<Val, ErrClass>;

/// Entity record of the reference store.
#[derive(Clone, Debug, PartialEq, Eq, PartialOrd, Ord, Hash, Default, serde::Serialize, serde::Deserialize)]
pub struct Ent {
    pub attrs: BTreeMap<String, Val>,
    pub tags: BTreeMap<String, Val>,
    /// direct parents only
    pub parents: BTreeSet<Uid>,
}

#[derive(Clone, Debug, PartialEq, Eq, PartialOrd, Ord, Hash, Default, serde::Serialize, serde::Deserialize)]
pub struct Store {
    #[serde(with = "as_pairs")]
    pub ents: BTreeMap<Uid, Ent>,
}

/// JSON maps need string keys: (de)serialise the store as a list of pairs
mod as_pairs {
    use super::{Ent, Uid};
    use serde::{Deserialize, Deserializer, Serialize, Serializer};
    use std::collections::BTreeMap;
    pub fn serialize<S: Serializer>(m: &BTreeMap<Uid, Ent>, s: S) -> Result<S::Ok, S::Error> {
        m.iter().collect::<Vec<_>>().serialize(s)
    }
    pub fn deserialize<'de, D: Deserializer<'de>>(d: D) -> Result<BTreeMap<Uid, Ent>, D::Error> {
        Ok(Vec::<(Uid, Ent)>::deserialize(d)?.into_iter().collect())
    }
}

impl Store {
    /// reflexive-transitive reachability over direct-parent edges, by BFS. Parents without a
    /// record are leaves.
    pub fn reach(&self, from: &Uid) -> BTreeSet<Uid> {
        let mut seen = BTreeSet::new();
        seen.insert(from.clone());
        let mut todo = vec![from.clone()];
        while let Some(u) = todo.pop() {
            if let Some(e) = self.ents.get(&u) {
                for p in &e.parents {
                    if seen.insert(p.clone()) {
                        todo.push(p.clone());
                    }
                }
            }
        }
        seen
    }
    /// strict ancestors (reachable in >= 1 step; includes `from` itself only on a cycle)
    pub fn ancestors(&self, from: &Uid) -> BTreeSet<Uid> {
        let mut seen = BTreeSet::new();
        let mut todo = vec![from.clone()];
        while let Some(u) = todo.pop() {
            if let Some(e) = self.ents.get(&u) {
                for p in &e.parents {
                    if seen.insert(p.clone()) {
                        todo.push(p.clone());
                    }
                }
            }
        }
        seen
    }
    pub fn has_cycle(&self) -> bool {
        self.ents.keys().any(|u| self.ancestors(u).contains(u))
    }
}

#[derive(Clone, Debug, PartialEq, Eq, PartialOrd, Ord, Hash, serde::Serialize, serde::Deserialize)]
pub struct Req {
    pub principal: Uid,
    pub action: Uid,
    pub resource: Uid,
    pub context: BTreeMap<String, Val>,
}
