//! Reference expression language (surface + core forms) and its evaluator.
//! Written from the Cedar language definition; shares no code with cedar.
use crate::ext;
use crate::val::*;
use std::collections::{BTreeMap, BTreeSet};

#[derive(Clone, Copy, Debug, PartialEq, Eq, PartialOrd, Ord, Hash, serde::Serialize, serde::Deserialize)]
pub enum Var {
    Principal,
    Action,
    Resource,
    Context,
}

#[derive(Clone, Copy, Debug, PartialEq, Eq, PartialOrd, Ord, Hash, serde::Serialize, serde::Deserialize)]
pub enum SlotId {
    Principal,
    Resource,
}

#[derive(Clone, Copy, Debug, PartialEq, Eq, PartialOrd, Ord, Hash, serde::Serialize, serde::Deserialize)]
pub enum BinOp {
    Eq,
    Neq,
    Lt,
    Le,
    Gt,
    Ge,
    Add,
    Sub,
    Mul,
    In,
    Contains,
    ContainsAll,
    ContainsAny,
    GetTag,
    HasTag,
}

#[derive(Clone, Debug, PartialEq, Eq, PartialOrd, Ord, Hash, serde::Serialize, serde::Deserialize)]
pub enum Pat {
    Char(char),
    Star,
}

#[derive(Clone, Debug, PartialEq, Eq, PartialOrd, Ord, Hash, serde::Serialize, serde::Deserialize)]
pub enum E {
    Bool(bool),
    Long(i64),
    Str(String),
    Ent(Uid),
    Var(Var),
    Slot(SlotId),
    Not(Box<E>),
    Neg(Box<E>),
    IsEmpty(Box<E>),
    And(Box<E>, Box<E>),
    Or(Box<E>, Box<E>),
    If(Box<E>, Box<E>, Box<E>),
    Bin(BinOp, Box<E>, Box<E>),
    Like(Box<E>, Vec<Pat>),
    Is(Box<E>, String),
    /// surface form `e is T in f`
    IsIn(Box<E>, String, Box<E>),
    GetAttr(Box<E>, String),
    /// `e has a.b.c` (path non-empty; a single element is the core form)
    Has(Box<E>, Vec<String>),
    Set(Vec<E>),
    Rec(Vec<(String, E)>),
    /// extension function call, by name
    Ext(String, Vec<E>),
}

pub fn b(e: E) -> Box<E> {
    Box::new(e)
}

impl E {
    pub fn not(e: E) -> E {
        E::Not(b(e))
    }
    pub fn and(x: E, y: E) -> E {
        E::And(b(x), b(y))
    }
    pub fn or(x: E, y: E) -> E {
        E::Or(b(x), b(y))
    }
    pub fn ite(c: E, t: E, e: E) -> E {
        E::If(b(c), b(t), b(e))
    }
    pub fn bin(op: BinOp, x: E, y: E) -> E {
        E::Bin(op, b(x), b(y))
    }
    pub fn attr(e: E, a: &str) -> E {
        E::GetAttr(b(e), a.to_string())
    }
    pub fn has(e: E, a: &str) -> E {
        E::Has(b(e), vec![a.to_string()])
    }
    pub fn ext(name: &str, args: Vec<E>) -> E {
        E::Ext(name.to_string(), args)
    }
    pub fn str(s: &str) -> E {
        E::Str(s.to_string())
    }
    pub fn ent(ty: &str, id: &str) -> E {
        E::Ent(Uid::new(ty, id))
    }
    pub fn size(&self) -> usize {
        let mut n = 1;
        self.for_children(&mut |c| n += c.size());
        n
    }
    pub fn for_children(&self, f: &mut dyn FnMut(&E)) {
        match self {
            E::Bool(_) | E::Long(_) | E::Str(_) | E::Ent(_) | E::Var(_) | E::Slot(_) => {}
            E::Not(a) | E::Neg(a) | E::IsEmpty(a) | E::Like(a, _) | E::Is(a, _) | E::GetAttr(a, _) | E::Has(a, _) => f(a),
            E::And(a, c) | E::Or(a, c) | E::Bin(_, a, c) | E::IsIn(a, _, c) => {
                f(a);
                f(c)
            }
            E::If(a, c, d) => {
                f(a);
                f(c);
                f(d)
            }
            E::Set(v) | E::Ext(_, v) => v.iter().for_each(|x| f(x)),
            E::Rec(v) => v.iter().for_each(|(_, x)| f(x)),
        }
    }
    /// value -> literal-ish expression that evaluates to it (used for substitution oracles)
    pub fn from_val(v: &Val) -> E {
        match v {
            Val::Bool(x) => E::Bool(*x),
            Val::Long(x) => E::Long(*x),
            Val::Str(s) => E::Str(s.clone()),
            Val::Uid(u) => E::Ent(u.clone()),
            Val::Set(s) => E::Set(s.iter().map(E::from_val).collect()),
            Val::Rec(r) => E::Rec(r.iter().map(|(k, v)| (k.clone(), E::from_val(v))).collect()),
            Val::Ext(x) => ext::to_expr(x),
        }
    }
}

#[derive(Clone, Debug)]
pub struct Env<'a> {
    pub req: &'a Req,
    pub store: &'a Store,
    pub slot_principal: Option<Uid>,
    pub slot_resource: Option<Uid>,
}

impl<'a> Env<'a> {
    pub fn new(req: &'a Req, store: &'a Store) -> Self {
        Env { req, store, slot_principal: None, slot_resource: None }
    }
}

fn as_bool(v: Val) -> Result<bool, ErrClass> {
    match v {
        Val::Bool(x) => Ok(x),
        _ => Err(ErrClass::Type),
    }
}
fn as_long(v: &Val) -> Result<i64, ErrClass> {
    match v {
        Val::Long(x) => Ok(*x),
        _ => Err(ErrClass::Type),
    }
}
fn as_set(v: &Val) -> Result<&BTreeSet<Val>, ErrClass> {
    match v {
        Val::Set(x) => Ok(x),
        _ => Err(ErrClass::Type),
    }
}
fn as_uid(v: &Val) -> Result<&Uid, ErrClass> {
    match v {
        Val::Uid(x) => Ok(x),
        _ => Err(ErrClass::Type),
    }
}

/// naive recursive wildcard match over Unicode scalar values
pub fn like(text: &[char], pat: &[Pat]) -> bool {
    match pat.split_first() {
        None => text.is_empty(),
        Some((Pat::Char(c), rest)) => match text.split_first() {
            Some((t, trest)) if t == c => like(trest, rest),
            _ => false,
        },
        Some((Pat::Star, rest)) => (0..=text.len()).any(|k| like(&text[k..], rest)),
    }
}

pub fn eval(e: &E, env: &Env) -> R {
    match e {
        E::Bool(x) => Ok(Val::Bool(*x)),
        E::Long(x) => Ok(Val::Long(*x)),
        E::Str(s) => Ok(Val::Str(s.clone())),
        E::Ent(u) => Ok(Val::Uid(u.clone())),
        E::Var(Var::Principal) => Ok(Val::Uid(env.req.principal.clone())),
        E::Var(Var::Action) => Ok(Val::Uid(env.req.action.clone())),
        E::Var(Var::Resource) => Ok(Val::Uid(env.req.resource.clone())),
        E::Var(Var::Context) => Ok(Val::Rec(env.req.context.clone())),
        E::Slot(SlotId::Principal) => env.slot_principal.clone().map(Val::Uid).ok_or(ErrClass::Other),
        E::Slot(SlotId::Resource) => env.slot_resource.clone().map(Val::Uid).ok_or(ErrClass::Other),
        E::Not(a) => Ok(Val::Bool(!as_bool(eval(a, env)?)?)),
        E::Neg(a) => {
            let v = eval(a, env)?;
            as_long(&v)?.checked_neg().map(Val::Long).ok_or(ErrClass::Overflow)
        }
        E::IsEmpty(a) => {
            let v = eval(a, env)?;
            Ok(Val::Bool(as_set(&v)?.is_empty()))
        }
        E::And(x, y) => {
            if !as_bool(eval(x, env)?)? {
                return Ok(Val::Bool(false));
            }
            Ok(Val::Bool(as_bool(eval(y, env)?)?))
        }
        E::Or(x, y) => {
            if as_bool(eval(x, env)?)? {
                return Ok(Val::Bool(true));
            }
            Ok(Val::Bool(as_bool(eval(y, env)?)?))
        }
        E::If(c, t, f) => {
            if as_bool(eval(c, env)?)? {
                eval(t, env)
            } else {
                eval(f, env)
            }
        }
        E::Bin(op, x, y) => {
            let l = eval(x, env)?;
            let r = eval(y, env)?;
            bin(*op, l, r, env)
        }
        E::Like(a, p) => match eval(a, env)? {
            Val::Str(s) => {
                let cs: Vec<char> = s.chars().collect();
                Ok(Val::Bool(like(&cs, p)))
            }
            _ => Err(ErrClass::Type),
        },
        E::Is(a, ty) => {
            let v = eval(a, env)?;
            Ok(Val::Bool(&as_uid(&v)?.ty == ty))
        }
        E::IsIn(a, ty, f) => {
            // e is T in f  ==  (e is T) && (e in f)
            let v = eval(a, env)?;
            if &as_uid(&v)?.ty != ty {
                return Ok(Val::Bool(false));
            }
            let r = eval(f, env)?;
            let res = bin(BinOp::In, v, r, env)?;
            Ok(Val::Bool(as_bool(res)?))
        }
        E::GetAttr(a, k) => {
            let v = eval(a, env)?;
            get_attr(&v, k, env)
        }
        E::Has(a, path) => {
            let mut cur = eval(a, env)?;
            for (i, k) in path.iter().enumerate() {
                if !has_attr(&cur, k, env)? {
                    return Ok(Val::Bool(false));
                }
                if i + 1 < path.len() {
                    cur = get_attr(&cur, k, env)?;
                }
            }
            Ok(Val::Bool(true))
        }
        E::Set(v) => {
            let mut s = BTreeSet::new();
            for x in v {
                s.insert(eval(x, env)?);
            }
            Ok(Val::Set(s))
        }
        E::Rec(v) => {
            let mut m = BTreeMap::new();
            for (k, x) in v {
                m.insert(k.clone(), eval(x, env)?);
            }
            Ok(Val::Rec(m))
        }
        E::Ext(name, args) => {
            let mut vs = Vec::new();
            for a in args {
                vs.push(eval(a, env)?);
            }
            ext::call(name, &vs)
        }
    }
}

fn has_attr(v: &Val, k: &str, env: &Env) -> Result<bool, ErrClass> {
    match v {
        Val::Rec(m) => Ok(m.contains_key(k)),
        Val::Uid(u) => Ok(env.store.ents.get(u).map(|e| e.attrs.contains_key(k)).unwrap_or(false)),
        _ => Err(ErrClass::Type),
    }
}

fn get_attr(v: &Val, k: &str, env: &Env) -> R {
    match v {
        Val::Rec(m) => m.get(k).cloned().ok_or(ErrClass::AttrMissing),
        Val::Uid(u) => match env.store.ents.get(u) {
            None => Err(ErrClass::EntityMissing),
            Some(e) => e.attrs.get(k).cloned().ok_or(ErrClass::AttrMissing),
        },
        _ => Err(ErrClass::Type),
    }
}

fn uid_in(store: &Store, x: &Uid, y: &Uid) -> bool {
    x == y || store.reach(x).contains(y)
}

pub fn bin(op: BinOp, l: Val, r: Val, env: &Env) -> R {
    use BinOp::*;
    match op {
        Eq => Ok(Val::Bool(l == r)),
        Neq => Ok(Val::Bool(l != r)),
        Lt | Le | Gt | Ge => {
            let ord = match (&l, &r) {
                (Val::Long(a), Val::Long(b)) => a.cmp(b),
                (Val::Ext(ExtVal::Datetime(a)), Val::Ext(ExtVal::Datetime(b))) => a.cmp(b),
                (Val::Ext(ExtVal::Duration(a)), Val::Ext(ExtVal::Duration(b))) => a.cmp(b),
                _ => return Err(ErrClass::Type),
            };
            use std::cmp::Ordering::*;
            Ok(Val::Bool(match op {
                Lt => ord == Less,
                Le => ord != Greater,
                Gt => ord == Greater,
                Ge => ord != Less,
                _ => unreachable!(),
            }))
        }
        Add | Sub | Mul => {
            let a = as_long(&l)?;
            let b = as_long(&r)?;
            let x = match op {
                Add => (a as i128) + (b as i128),
                Sub => (a as i128) - (b as i128),
                _ => (a as i128) * (b as i128),
            };
            i64::try_from(x).map(Val::Long).map_err(|_| ErrClass::Overflow)
        }
        In => {
            let x = as_uid(&l)?;
            match &r {
                Val::Uid(y) => Ok(Val::Bool(uid_in(env.store, x, y))),
                Val::Set(s) => {
                    // every element must be an entity
                    let mut ys = Vec::new();
                    for v in s {
                        ys.push(as_uid(v)?);
                    }
                    Ok(Val::Bool(ys.iter().any(|y| uid_in(env.store, x, y))))
                }
                _ => Err(ErrClass::Type),
            }
        }
        Contains => Ok(Val::Bool(as_set(&l)?.contains(&r))),
        ContainsAll => {
            let a = as_set(&l)?;
            let b = as_set(&r)?;
            Ok(Val::Bool(b.iter().all(|x| a.contains(x))))
        }
        ContainsAny => {
            let a = as_set(&l)?;
            let b = as_set(&r)?;
            Ok(Val::Bool(b.iter().any(|x| a.contains(x))))
        }
        GetTag | HasTag => {
            let u = as_uid(&l)?;
            let k = match &r {
                Val::Str(s) => s,
                _ => return Err(ErrClass::Type),
            };
            match env.store.ents.get(u) {
                None => {
                    if op == HasTag {
                        Ok(Val::Bool(false))
                    } else {
                        Err(ErrClass::EntityMissing)
                    }
                }
                Some(e) => {
                    if op == HasTag {
                        Ok(Val::Bool(e.tags.contains_key(k)))
                    } else {
                        e.tags.get(k).cloned().ok_or(ErrClass::AttrMissing)
                    }
                }
            }
        }
    }
}
