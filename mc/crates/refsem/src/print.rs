//! Printers for the reference expression type: Cedar text (three parenthesisation modes)
//! and the JSON policy format (EST), both written from the documented grammars.
use crate::expr::*;
use crate::ext;
use crate::val::*;
use serde_json::{json, Value as J};

#[derive(Clone, Copy, Debug, PartialEq, Eq, serde::Serialize, serde::Deserialize)]
pub enum Paren {
    Minimal,
    Full,
    Redundant,
}

#[derive(Clone, Copy, Debug, serde::Serialize, serde::Deserialize)]
pub struct Style {
    pub paren: Paren,
    /// print attribute access on plain identifiers as `e["a"]` instead of `e.a`
    pub index_attrs: bool,
    /// print every string char as \u{..}
    pub escape_all: bool,
    /// print `.kw` for attribute names that are reserved words (the grammar admits any identifier after `.`)
    #[serde(default)]
    pub dot_reserved: bool,
}

impl Default for Style {
    fn default() -> Self {
        Style { paren: Paren::Minimal, index_attrs: false, escape_all: false, dot_reserved: false }
    }
}

const RESERVED: &[&str] = &[
    "true", "false", "if", "then", "else", "in", "is", "like", "has", "principal", "action", "resource", "context", "__cedar",
];

pub fn is_plain_ident(s: &str) -> bool {
    let mut cs = s.chars();
    match cs.next() {
        Some(c) if c.is_ascii_alphabetic() || c == '_' => {}
        _ => return false,
    }
    cs.all(|c| c.is_ascii_alphanumeric() || c == '_') && !RESERVED.contains(&s)
}

/// identifier by the lexer's rules (may be a reserved word)
pub fn is_any_ident(s: &str) -> bool {
    let mut cs = s.chars();
    match cs.next() {
        Some(c) if c.is_ascii_alphabetic() || c == '_' => {}
        _ => return false,
    }
    cs.all(|c| c.is_ascii_alphanumeric() || c == '_')
}

pub fn esc_char(c: char, out: &mut String, in_pattern: bool, all: bool) {
    if all {
        out.push_str(&format!("\\u{{{:x}}}", c as u32));
        return;
    }
    match c {
        '"' => out.push_str("\\\""),
        '\\' => out.push_str("\\\\"),
        '\n' => out.push_str("\\n"),
        '\r' => out.push_str("\\r"),
        '\t' => out.push_str("\\t"),
        '\0' => out.push_str("\\0"),
        '*' if in_pattern => out.push_str("\\*"),
        c if (c as u32) < 0x20 || c as u32 == 0x7f => out.push_str(&format!("\\u{{{:x}}}", c as u32)),
        c => out.push(c),
    }
}

pub fn str_lit(s: &str, all: bool) -> String {
    let mut out = String::from("\"");
    for c in s.chars() {
        esc_char(c, &mut out, false, all);
    }
    out.push('"');
    out
}

pub fn pat_lit(p: &[Pat], all: bool) -> String {
    let mut out = String::from("\"");
    for e in p {
        match e {
            Pat::Star => out.push('*'),
            Pat::Char('*') => out.push_str("\\*"),
            Pat::Char(c) => esc_char(*c, &mut out, true, all),
        }
    }
    out.push('"');
    out
}

pub fn uid_text(u: &Uid, all: bool) -> String {
    format!("{}::{}", u.ty, str_lit(&u.id, all))
}

// precedence levels
const P_IF: u8 = 0;
const P_OR: u8 = 1;
const P_AND: u8 = 2;
const P_REL: u8 = 3;
const P_ADD: u8 = 4;
const P_MUL: u8 = 5;
const P_UNARY: u8 = 6;
const P_MEMBER: u8 = 7;

fn prec(e: &E) -> u8 {
    match e {
        E::If(..) => P_IF,
        E::Or(..) => P_OR,
        E::And(..) => P_AND,
        E::Bin(op, ..) => match op {
            BinOp::Eq | BinOp::Neq | BinOp::Lt | BinOp::Le | BinOp::Gt | BinOp::Ge | BinOp::In => P_REL,
            BinOp::Add | BinOp::Sub => P_ADD,
            BinOp::Mul => P_MUL,
            BinOp::Contains | BinOp::ContainsAll | BinOp::ContainsAny | BinOp::GetTag | BinOp::HasTag => P_MEMBER,
        },
        E::Like(..) | E::Is(..) | E::IsIn(..) | E::Has(..) => P_REL,
        E::Not(_) | E::Neg(_) => P_UNARY,
        E::Long(n) if *n < 0 => P_UNARY,
        E::IsEmpty(_) | E::GetAttr(..) => P_MEMBER,
        E::Ext(n, _) => {
            if ext::is_constructor(n) {
                8
            } else {
                P_MEMBER
            }
        }
        _ => 8,
    }
}

pub fn text(e: &E, st: &Style) -> String {
    let mut s = String::new();
    go(e, st, &mut s);
    s
}

/// print child `c` in a position that requires precedence >= `need`
fn child(c: &E, need: u8, st: &Style, out: &mut String) {
    let p = prec(c);
    let paren = match st.paren {
        Paren::Minimal => p < need,
        Paren::Full => p < 8 || p < need,
        Paren::Redundant => true,
    };
    if paren {
        out.push('(');
        go(c, st, out);
        out.push(')');
    } else {
        go(c, st, out);
    }
}

fn unary_depth(e: &E, neg: bool) -> usize {
    match (e, neg) {
        (E::Not(a), false) => 1 + unary_depth(a, false),
        (E::Neg(a), true) => 1 + unary_depth(a, true),
        _ => 0,
    }
}

fn go(e: &E, st: &Style, out: &mut String) {
    match e {
        E::Bool(x) => out.push_str(if *x { "true" } else { "false" }),
        E::Long(n) => out.push_str(&n.to_string()),
        E::Str(s) => out.push_str(&str_lit(s, st.escape_all)),
        E::Ent(u) => out.push_str(&uid_text(u, st.escape_all)),
        E::Var(v) => out.push_str(match v {
            Var::Principal => "principal",
            Var::Action => "action",
            Var::Resource => "resource",
            Var::Context => "context",
        }),
        E::Slot(SlotId::Principal) => out.push_str("?principal"),
        E::Slot(SlotId::Resource) => out.push_str("?resource"),
        E::Not(a) | E::Neg(a) => {
            let neg = matches!(e, E::Neg(_));
            out.push(if neg { '-' } else { '!' });
            // same operator may be stacked (at most 4 in total); a different unary operator,
            // or a negative literal under `-`, needs parentheses
            let same = matches!((&**a, neg), (E::Not(_), false) | (E::Neg(_), true));
            let stack_ok = same && unary_depth(e, neg) <= 4 && st.paren == Paren::Minimal;
            let neg_lit = matches!(&**a, E::Long(n) if *n < 0);
            if stack_ok {
                go(a, st, out);
            } else if matches!(&**a, E::Not(_) | E::Neg(_)) || neg_lit {
                out.push('(');
                go(a, st, out);
                out.push(')');
            } else {
                child(a, P_MEMBER, st, out);
            }
        }
        E::IsEmpty(a) => {
            child(a, P_MEMBER, st, out);
            out.push_str(".isEmpty()");
        }
        E::And(x, y) => {
            child(x, P_AND, st, out);
            out.push_str(" && ");
            child(y, P_REL, st, out);
        }
        E::Or(x, y) => {
            child(x, P_OR, st, out);
            out.push_str(" || ");
            child(y, P_AND, st, out);
        }
        E::If(c, t, f) => {
            out.push_str("if ");
            child(c, P_IF, st, out);
            out.push_str(" then ");
            child(t, P_IF, st, out);
            out.push_str(" else ");
            child(f, P_IF, st, out);
        }
        E::Bin(op, x, y) => {
            use BinOp::*;
            match op {
                Eq | Neq | Lt | Le | Gt | Ge | In => {
                    child(x, P_ADD, st, out);
                    out.push_str(match op {
                        Eq => " == ",
                        Neq => " != ",
                        Lt => " < ",
                        Le => " <= ",
                        Gt => " > ",
                        Ge => " >= ",
                        _ => " in ",
                    });
                    child(y, P_ADD, st, out);
                }
                Add | Sub => {
                    child(x, P_ADD, st, out);
                    out.push_str(if *op == Add { " + " } else { " - " });
                    child(y, P_MUL, st, out);
                }
                Mul => {
                    child(x, P_MUL, st, out);
                    out.push_str(" * ");
                    child(y, P_UNARY, st, out);
                }
                Contains | ContainsAll | ContainsAny | GetTag | HasTag => {
                    child(x, P_MEMBER, st, out);
                    out.push_str(match op {
                        Contains => ".contains(",
                        ContainsAll => ".containsAll(",
                        ContainsAny => ".containsAny(",
                        GetTag => ".getTag(",
                        _ => ".hasTag(",
                    });
                    child(y, P_IF, st, out);
                    out.push(')');
                }
            }
        }
        E::Like(a, p) => {
            child(a, P_ADD, st, out);
            out.push_str(" like ");
            out.push_str(&pat_lit(p, st.escape_all));
        }
        E::Is(a, ty) => {
            child(a, P_ADD, st, out);
            out.push_str(" is ");
            out.push_str(ty);
        }
        E::IsIn(a, ty, f) => {
            child(a, P_ADD, st, out);
            out.push_str(" is ");
            out.push_str(ty);
            out.push_str(" in ");
            child(f, P_ADD, st, out);
        }
        E::GetAttr(a, k) => {
            child(a, P_MEMBER, st, out);
            if (is_plain_ident(k) || (st.dot_reserved && is_any_ident(k))) && !st.index_attrs {
                out.push('.');
                out.push_str(k);
            } else {
                out.push('[');
                out.push_str(&str_lit(k, st.escape_all));
                out.push(']');
            }
        }
        E::Has(a, path) => {
            child(a, P_ADD, st, out);
            out.push_str(" has ");
            if path.len() == 1 && !(is_plain_ident(&path[0]) && !st.index_attrs) {
                out.push_str(&str_lit(&path[0], st.escape_all));
            } else {
                // paths are only expressible over identifiers
                out.push_str(&path.join("."));
            }
        }
        E::Set(v) => {
            out.push('[');
            for (i, x) in v.iter().enumerate() {
                if i > 0 {
                    out.push_str(", ");
                }
                child(x, P_IF, st, out);
            }
            out.push(']');
        }
        E::Rec(v) => {
            out.push('{');
            for (i, (k, x)) in v.iter().enumerate() {
                if i > 0 {
                    out.push_str(", ");
                }
                if is_plain_ident(k) && !st.index_attrs {
                    out.push_str(k);
                } else {
                    out.push_str(&str_lit(k, st.escape_all));
                }
                out.push_str(": ");
                child(x, P_IF, st, out);
            }
            out.push('}');
        }
        E::Ext(name, args) => {
            if ext::is_constructor(name) || args.is_empty() {
                out.push_str(name);
                out.push('(');
                for (i, x) in args.iter().enumerate() {
                    if i > 0 {
                        out.push_str(", ");
                    }
                    child(x, P_IF, st, out);
                }
                out.push(')');
            } else {
                child(&args[0], P_MEMBER, st, out);
                out.push('.');
                out.push_str(name);
                out.push('(');
                for (i, x) in args[1..].iter().enumerate() {
                    if i > 0 {
                        out.push_str(", ");
                    }
                    child(x, P_IF, st, out);
                }
                out.push(')');
            }
        }
    }
}

pub fn uid_json(u: &Uid) -> J {
    json!({"type": u.ty, "id": u.id})
}

/// JSON policy format (EST) of an expression
pub fn est(e: &E) -> J {
    let lr = |k: &str, x: &E, y: &E| json!({k: {"left": est(x), "right": est(y)}});
    match e {
        E::Bool(x) => json!({"Value": x}),
        E::Long(x) => json!({"Value": x}),
        E::Str(x) => json!({"Value": x}),
        E::Ent(u) => json!({"Value": {"__entity": uid_json(u)}}),
        E::Var(v) => json!({"Var": match v {
            Var::Principal => "principal",
            Var::Action => "action",
            Var::Resource => "resource",
            Var::Context => "context",
        }}),
        E::Slot(SlotId::Principal) => json!({"Slot": "?principal"}),
        E::Slot(SlotId::Resource) => json!({"Slot": "?resource"}),
        E::Not(a) => json!({"!": {"arg": est(a)}}),
        E::Neg(a) => json!({"neg": {"arg": est(a)}}),
        E::IsEmpty(a) => json!({"isEmpty": {"arg": est(a)}}),
        E::And(x, y) => lr("&&", x, y),
        E::Or(x, y) => lr("||", x, y),
        E::If(c, t, f) => json!({"if-then-else": {"if": est(c), "then": est(t), "else": est(f)}}),
        E::Bin(op, x, y) => {
            use BinOp::*;
            lr(
                match op {
                    Eq => "==",
                    Neq => "!=",
                    Lt => "<",
                    Le => "<=",
                    Gt => ">",
                    Ge => ">=",
                    Add => "+",
                    Sub => "-",
                    Mul => "*",
                    In => "in",
                    Contains => "contains",
                    ContainsAll => "containsAll",
                    ContainsAny => "containsAny",
                    GetTag => "getTag",
                    HasTag => "hasTag",
                },
                x,
                y,
            )
        }
        E::Like(a, p) => {
            let mut elems: Vec<J> = Vec::new();
            let mut cur = String::new();
            for x in p {
                match x {
                    Pat::Star => {
                        if !cur.is_empty() {
                            elems.push(json!({"Literal": cur}));
                            cur = String::new();
                        }
                        elems.push(json!("Wildcard"));
                    }
                    Pat::Char(c) => cur.push(*c),
                }
            }
            if !cur.is_empty() {
                elems.push(json!({"Literal": cur}));
            }
            json!({"like": {"left": est(a), "pattern": elems}})
        }
        E::Is(a, ty) => json!({"is": {"left": est(a), "entity_type": ty}}),
        E::IsIn(a, ty, f) => json!({"is": {"left": est(a), "entity_type": ty, "in": est(f)}}),
        E::GetAttr(a, k) => json!({".": {"left": est(a), "attr": k}}),
        E::Has(a, path) => {
            // e has a.b.c  ==  e has a && (e.a has b && e.a.b has c): written out
            let mut cur: E = (**a).clone();
            let mut conj: Vec<J> = Vec::new();
            for k in path {
                conj.push(json!({"has": {"left": est(&cur), "attr": k}}));
                cur = E::GetAttr(Box::new(cur), k.clone());
            }
            let mut it = conj.into_iter().rev();
            let mut acc = it.next().unwrap();
            for c in it {
                acc = json!({"&&": {"left": c, "right": acc}});
            }
            acc
        }
        E::Set(v) => json!({"Set": v.iter().map(est).collect::<Vec<_>>()}),
        E::Rec(v) => {
            let mut m = serde_json::Map::new();
            for (k, x) in v {
                m.insert(k.clone(), est(x));
            }
            json!({"Record": J::Object(m)})
        }
        E::Ext(name, args) => json!({name.as_str(): args.iter().map(est).collect::<Vec<_>>()}),
    }
}

/// Cedar entity/context JSON of a value, fully explicit escapes
pub fn val_json(v: &Val) -> J {
    match v {
        Val::Bool(x) => json!(x),
        Val::Long(x) => json!(x),
        Val::Str(x) => json!(x),
        Val::Uid(u) => json!({"__entity": uid_json(u)}),
        Val::Set(s) => J::Array(s.iter().map(val_json).collect()),
        Val::Rec(r) => {
            let mut m = serde_json::Map::new();
            for (k, x) in r {
                m.insert(k.clone(), val_json(x));
            }
            J::Object(m)
        }
        Val::Ext(x) => ext_json(x),
    }
}

pub fn ext_json(x: &ExtVal) -> J {
    fn conv(e: &E) -> J {
        match e {
            E::Str(s) => json!(s),
            E::Ext(name, args) => {
                if args.len() == 1 {
                    json!({"__extn": {"fn": name, "arg": conv(&args[0])}})
                } else {
                    json!({"__extn": {"fn": name, "args": args.iter().map(conv).collect::<Vec<_>>()}})
                }
            }
            _ => unreachable!(),
        }
    }
    conv(&ext::to_expr(x))
}
