//! C20 generators: bounded-exhaustive input families (no dependency on cedar).
//! Every family is an indexed, deterministic map `i -> input bytes` so that a child process can
//! be given a range and an abort can be attributed to one index.
use serde_json::Value as J;

// ---------------------------------------------------------------------------------------------
// routes: which entry-point groups an input is fed to (bit mask)
// ---------------------------------------------------------------------------------------------
pub const R_POLICY: u64 = 1 << 0; // Cedar policy text: PolicySet::from_str (+ formatter when it parses), Policy::parse, Template::parse
pub const R_EXPR: u64 = 1 << 1; // Expression / RestrictedExpression text
pub const R_NAME: u64 = 1 << 2; // EntityUid / type name / namespace / extension constructor strings
pub const R_CSCHEMA: u64 = 1 << 3; // Cedar schema text: Schema / SchemaFragment ::from_cedarschema_str, schema_str_to_json_with_resolved_types
pub const R_J_POLICY: u64 = 1 << 4; // JSON (EST) policy / template
pub const R_J_PSET: u64 = 1 << 5; // JSON policy set (API format and FFI format)
pub const R_J_SCHEMA: u64 = 1 << 6; // JSON schema
pub const R_J_ENTITIES: u64 = 1 << 7;
pub const R_J_ENTITY: u64 = 1 << 8;
pub const R_J_CONTEXT: u64 = 1 << 9;
pub const R_J_EUID: u64 = 1 << 10;
pub const R_J_AUTH: u64 = 1 << 11; // FFI is_authorized / partial / stateful
pub const R_J_VALIDATE: u64 = 1 << 12;
pub const R_J_FORMAT: u64 = 1 << 13;
pub const R_J_CHECK: u64 = 1 << 14; // FFI check_parse_{entities,context,scope_variables}
pub const R_PROTO: u64 = 1 << 15; // protobuf decode of all 9 Protobuf types
pub const R_FILE: u64 = 1 << 16; // reader-based (`*_file`) entry points: take raw bytes
pub const R_POLICY_FFI: u64 = 1 << 17; // the remaining policy-text entry points (FromStr variants, unconditional formatter, FFI wrappers)
pub const R_CSCHEMA_FFI: u64 = 1 << 18; // the remaining Cedar-schema-text entry points (FromStr variants, FFI wrappers)
pub const R_EXT: u64 = 1 << 19; // extension-type constructors (ip, decimal, datetime, duration) from a string
pub const R_TEXT: u64 = R_EXT | R_POLICY | R_POLICY_FFI | R_EXPR | R_NAME | R_CSCHEMA | R_CSCHEMA_FFI;
pub const R_JSON: u64 = R_J_POLICY | R_J_PSET | R_J_SCHEMA | R_J_ENTITIES | R_J_ENTITY | R_J_CONTEXT | R_J_EUID | R_J_AUTH | R_J_VALIDATE | R_J_FORMAT | R_J_CHECK;
pub const R_ALL: u64 = R_TEXT | R_JSON | R_PROTO | R_FILE;

pub struct Input {
    pub bytes: Vec<u8>,
    pub route: u64,
}

pub trait Family: Send + Sync {
    fn name(&self) -> String;
    fn count(&self) -> u64;
    fn get(&self, i: u64) -> Input;
    /// cases per child process
    fn shard(&self) -> u64 {
        4000
    }
}

// ---------------------------------------------------------------------------------------------
// token / character sequences spliced into a template
// ---------------------------------------------------------------------------------------------
pub struct SeqFam {
    pub name: String,
    pub alphabet: Vec<&'static str>,
    pub min_len: u32,
    pub max_len: u32,
    pub sep: &'static str,
    pub prefix: &'static str,
    pub suffix: &'static str,
    pub route: u64,
    pub shard: u64,
}

impl SeqFam {
    fn pow(&self, k: u32) -> u64 {
        (self.alphabet.len() as u64).pow(k)
    }
}

impl Family for SeqFam {
    fn name(&self) -> String {
        self.name.clone()
    }
    fn count(&self) -> u64 {
        (self.min_len..=self.max_len).map(|k| self.pow(k)).sum()
    }
    fn get(&self, mut i: u64) -> Input {
        let mut k = self.min_len;
        while i >= self.pow(k) {
            i -= self.pow(k);
            k += 1;
        }
        let n = self.alphabet.len() as u64;
        let mut digits = vec![0usize; k as usize];
        for d in digits.iter_mut().rev() {
            *d = (i % n) as usize;
            i /= n;
        }
        let mut s = String::with_capacity(self.prefix.len() + self.suffix.len() + 8 * k as usize);
        s.push_str(self.prefix);
        for (j, d) in digits.iter().enumerate() {
            if j > 0 {
                s.push_str(self.sep);
            }
            s.push_str(self.alphabet[*d]);
        }
        s.push_str(self.suffix);
        Input { bytes: s.into_bytes(), route: self.route }
    }
    fn shard(&self) -> u64 {
        self.shard
    }
}

/// 24 Cedar policy tokens (the narrow alphabet, swept to length 3 | 4)
pub const POLICY_TOKENS: &[&str] = &[
    "principal", "a", "\"s\"", "1", "9223372036854775808", "(", ")", "[", "]", "{", "}", ",", "::", ".", "-", "!", "==", "&&", "in", "is", "has", "if", "?principal", "// c\n",
];

/// every Cedar policy token / keyword (the wide alphabet, swept to length 2 | 3)
pub const POLICY_TOKENS_WIDE: &[&str] = &[
    "principal", "action", "resource", "context", "permit", "forbid", "when", "unless", "true", "false", "if", "then", "else", "in", "is", "has", "like", "a", "A", "User", "ip", "decimal", "contains", "isEmpty", "getTag", "hasTag", "__cedar", "\"s\"", "\"\\*\"", "\"\\u{0}\"", "\"\"", "0", "1", "9223372036854775807", "9223372036854775808", "(", ")", "[", "]", "{", "}", ",", ";", ":", "::", ".", "-", "!", "==", "!=", "<", "<=", ">", ">=", "&&", "||", "+", "*", "/", "%", "=", "@",
];
pub const POLICY_TOKENS_WIDE_EXTRA: &[&str] = &["?principal", "?resource", "?other", "|", "&", "// c\n"];

/// 24 Cedar schema tokens
pub const SCHEMA_TOKENS: &[&str] = &[
    "entity", "action", "type", "namespace", "A", "\"a\"", "in", "appliesTo", "principal", "{", "}", "[", "]", ",", ";", ":", "::", "?", "=", "<", ">", "Set", "tags", "enum",
];
pub const SCHEMA_TOKENS_WIDE: &[&str] = &[
    "entity", "action", "type", "namespace", "A", "B", "N", "\"a\"", "\"\"", "in", "appliesTo", "principal", "resource", "context", "{", "}", "[", "]", "(", ")", ",", ";", ":", "::", "?", "=", "<", ">", "Set", "Long", "String", "Bool", "Record", "Entity", "Extension", "ipaddr", "__cedar", "tags", "enum", "@", "attributes", "1", ".", "// c\n",
];

/// characters of the extension-value sweep (decimal / ip / datetime / duration syntax)
pub const EXT_CHARS: &[&str] = &["0", "1", "9", ".", "-", ":", "/", "T", "Z", "+", "h", "m", "s", "d", "a", "f"];

/// valid extension-value strings; every single-character substitution (over EXT_CHARS), deletion
/// and prefix of each is swept
pub const EXT_VALID: &[&str] = &[
    "1.5", "-0.0001", "922337203685477.5807", "10.0.0.1/8", "::1", "ff00::/8", "1:2:3:4:5:6:7:8/128", "2024-01-01", "2024-02-29T23:59:59Z", "2024-01-01T00:00:00.123+0530", "1d2h3m4s5ms", "-1ms", "9223372036854775807ms",
];

pub fn ext_mutations() -> Vec<Vec<u8>> {
    let mut v: Vec<Vec<u8>> = vec![];
    for s in EXT_VALID {
        let b = s.as_bytes();
        v.push(b.to_vec());
        for i in 0..b.len() {
            for c in EXT_CHARS {
                let mut m = b.to_vec();
                m[i] = c.as_bytes()[0];
                v.push(m);
            }
            let mut d = b.to_vec();
            d.remove(i);
            v.push(d);
            v.push(b[..i].to_vec());
            // insertion of every character before position i
            for c in EXT_CHARS {
                let mut m = b.to_vec();
                m.insert(i, c.as_bytes()[0]);
                v.push(m);
            }
        }
    }
    v
}

/// characters for the string-escape sweep (inside a string literal / pattern / annotation)
pub const ESCAPE_CHARS: &[&str] = &["\\", "*", "u", "{", "}", "0", "x", "n", "\"", "'", "d", "é"];

pub const POLICY_HEAD: &str = "permit(principal, action, resource)";

/// splice positions of the narrow policy alphabet: when-body, scope, annotation, top level
pub fn policy_positions() -> Vec<(&'static str, &'static str, &'static str, u64)> {
    vec![
        ("when", "permit(principal, action, resource) when { ", " };", R_POLICY),
        ("scope-principal", "permit(principal ", ", action, resource);", R_POLICY),
        ("annotation-value", "@a(", ") permit(principal, action, resource);", R_POLICY),
        ("top", "", "", R_POLICY | R_EXPR | R_NAME),
    ]
}

/// splice positions of the wide policy alphabet
pub fn policy_positions_wide() -> Vec<(&'static str, &'static str, &'static str, u64)> {
    vec![
        ("when", "permit(principal, action, resource) when { ", " };", R_POLICY),
        ("scope-all", "permit(", ");", R_POLICY),
        ("scope-action", "permit(principal, action ", ", resource);", R_POLICY),
        ("annotation-key", "@", " permit(principal, action, resource);", R_POLICY),
        ("top", "", "", R_POLICY | R_EXPR | R_NAME),
    ]
}

pub fn schema_positions() -> Vec<(&'static str, &'static str, &'static str, u64)> {
    vec![
        ("top", "", "", R_CSCHEMA),
        ("namespace-body", "namespace N { ", " }", R_CSCHEMA),
        ("entity-body", "entity A { ", " };", R_CSCHEMA),
        ("attr-type", "entity A { x: ", " };", R_CSCHEMA),
    ]
}

pub fn schema_positions_wide() -> Vec<(&'static str, &'static str, &'static str, u64)> {
    vec![
        ("top", "", "", R_CSCHEMA),
        ("entity-after-name", "entity A ", ";", R_CSCHEMA),
        ("type-body", "type T = ", "; entity A;", R_CSCHEMA),
        ("applies-to", "entity A; action \"a\" appliesTo { ", " };", R_CSCHEMA),
        ("action-after-name", "entity A; action a ", ";", R_CSCHEMA),
    ]
}

pub fn escape_positions() -> Vec<(&'static str, &'static str, &'static str, u64)> {
    vec![
        ("string", "permit(principal, action, resource) when { \"", "\" == \"a\" };", R_POLICY),
        ("pattern", "permit(principal, action, resource) when { \"*dd\" like \"", "\" };", R_POLICY),
        ("annotation", "@a(\"", "\") permit(principal, action, resource);", R_POLICY),
        ("eid", "User::\"", "\"", R_EXPR | R_NAME),
        ("schema-attr", "entity A { \"", "\": Long };", R_CSCHEMA),
    ]
}

// ---------------------------------------------------------------------------------------------
// explicit lists
// ---------------------------------------------------------------------------------------------
pub struct ListFam {
    pub name: String,
    pub items: Vec<(Vec<u8>, u64)>,
    pub shard: u64,
}

impl Family for ListFam {
    fn name(&self) -> String {
        self.name.clone()
    }
    fn count(&self) -> u64 {
        self.items.len() as u64
    }
    fn get(&self, i: u64) -> Input {
        let (b, r) = &self.items[i as usize];
        Input { bytes: b.clone(), route: *r }
    }
    fn shard(&self) -> u64 {
        self.shard
    }
}

/// 40 bytes that matter to the lexers, to JSON and to the protobuf wire format
pub const BYTE_ALPHABET_40: &[u8] = &[
    0x00, 0x01, 0x08, 0x0a, 0x12, 0x1a, 0x7f, 0x80, 0xff, 0xc3, 0xa9, 0xef, b' ', b'"', b'\\', b'/', b'*', b'(', b')', b'[', b']', b'{', b'}', b',', b':', b';', b'.', b'-', b'!', b'=', b'<', b'&', b'|', b'@', b'?', b'0', b'9', b'a', b'e', b'_',
];

/// quick-tier substitution alphabet for text seeds
pub const BYTE_ALPHABET_TEXT_Q: &[u8] = &[0x00, 0xff, b'"', b'\\', b'(', b'{', b'}', b',', b';', b'.', b'*', b'?'];
/// substitution alphabet for large JSON seeds
pub const BYTE_ALPHABET_JSON_S: &[u8] = &[0x00, 0xff, b'"', b'\\', b'{', b']', b',', b':', b'0', b'_'];
/// quick-tier substitution alphabet for protobuf seeds: every tag byte of fields 0..5, small
/// lengths / varints, and the varint continuation boundary
pub fn byte_alphabet_proto_q() -> Vec<u8> {
    let mut v: Vec<u8> = (0..=0x2f).collect();
    v.extend_from_slice(&[0x7f, 0x80, 0x81, 0xc3, 0xfe, 0xff]);
    v
}

pub fn short_bytes(full: bool) -> Vec<Vec<u8>> {
    let mut v: Vec<Vec<u8>> = vec![vec![]];
    for a in 0..=255u8 {
        v.push(vec![a]);
    }
    if full {
        for a in 0..=255u8 {
            for b in 0..=255u8 {
                v.push(vec![a, b]);
            }
        }
    } else {
        for a in BYTE_ALPHABET_40 {
            for b in BYTE_ALPHABET_40 {
                v.push(vec![*a, *b]);
            }
        }
    }
    v
}

// ---------------------------------------------------------------------------------------------
// single-byte substitution / deletion / truncation of a valid document
// ---------------------------------------------------------------------------------------------
pub struct SubstFam {
    pub name: String,
    pub doc: Vec<u8>,
    pub alphabet: Vec<u8>,
    pub route: u64,
    pub shard: u64,
}

impl Family for SubstFam {
    fn name(&self) -> String {
        self.name.clone()
    }
    fn count(&self) -> u64 {
        let l = self.doc.len() as u64;
        // substitutions + deletions + proper prefixes
        l * self.alphabet.len() as u64 + l + l
    }
    fn get(&self, i: u64) -> Input {
        let l = self.doc.len() as u64;
        let a = self.alphabet.len() as u64;
        let mut d = self.doc.clone();
        if i < l * a {
            d[(i / a) as usize] = self.alphabet[(i % a) as usize];
        } else if i < l * a + l {
            d.remove((i - l * a) as usize);
        } else {
            d.truncate((i - l * a - l) as usize);
        }
        Input { bytes: d, route: self.route }
    }
    fn shard(&self) -> u64 {
        self.shard
    }
}

// ---------------------------------------------------------------------------------------------
// JSON tree that can hold duplicate keys, and structural mutations of it
// ---------------------------------------------------------------------------------------------
#[derive(Clone, Debug, PartialEq)]
pub enum JV {
    Null,
    Bool(bool),
    Num(String),
    Str(String),
    Arr(Vec<JV>),
    Obj(Vec<(String, JV)>),
}

impl JV {
    pub fn from_serde(v: &J) -> JV {
        match v {
            J::Null => JV::Null,
            J::Bool(b) => JV::Bool(*b),
            J::Number(n) => JV::Num(n.to_string()),
            J::String(s) => JV::Str(s.clone()),
            J::Array(a) => JV::Arr(a.iter().map(JV::from_serde).collect()),
            J::Object(o) => JV::Obj(o.iter().map(|(k, v)| (k.clone(), JV::from_serde(v))).collect()),
        }
    }
    pub fn write(&self, out: &mut String) {
        match self {
            JV::Null => out.push_str("null"),
            JV::Bool(b) => out.push_str(if *b { "true" } else { "false" }),
            JV::Num(n) => out.push_str(n),
            JV::Str(s) => out.push_str(&serde_json::to_string(s).unwrap_or_default()),
            JV::Arr(a) => {
                out.push('[');
                for (i, x) in a.iter().enumerate() {
                    if i > 0 {
                        out.push(',');
                    }
                    x.write(out);
                }
                out.push(']');
            }
            JV::Obj(o) => {
                out.push('{');
                for (i, (k, x)) in o.iter().enumerate() {
                    if i > 0 {
                        out.push(',');
                    }
                    out.push_str(&serde_json::to_string(k).unwrap_or_default());
                    out.push(':');
                    x.write(out);
                }
                out.push('}');
            }
        }
    }
    pub fn text(&self) -> String {
        let mut s = String::new();
        self.write(&mut s);
        s
    }
    fn children(&self) -> usize {
        match self {
            JV::Arr(a) => a.len(),
            JV::Obj(o) => o.len(),
            _ => 0,
        }
    }
    fn child(&self, i: usize) -> &JV {
        match self {
            JV::Arr(a) => &a[i],
            JV::Obj(o) => &o[i].1,
            _ => self,
        }
    }
    fn child_mut(&mut self, i: usize) -> &mut JV {
        match self {
            JV::Arr(a) => &mut a[i],
            JV::Obj(o) => &mut o[i].1,
            _ => self,
        }
    }
    fn at(&self, path: &[usize]) -> &JV {
        let mut n = self;
        for i in path {
            n = n.child(*i);
        }
        n
    }
    fn at_mut(&mut self, path: &[usize]) -> &mut JV {
        let mut n = self;
        for i in path {
            n = n.child_mut(*i);
        }
        n
    }
    fn paths(&self, cur: &mut Vec<usize>, out: &mut Vec<Vec<usize>>) {
        out.push(cur.clone());
        for i in 0..self.children() {
            cur.push(i);
            self.child(i).paths(cur, out);
            cur.pop();
        }
    }
    pub fn all_paths(&self) -> Vec<Vec<usize>> {
        let mut out = vec![];
        self.paths(&mut vec![], &mut out);
        out
    }
    fn collect(&self, keys: &mut Vec<String>, strs: &mut Vec<String>) {
        match self {
            JV::Str(s) => {
                if !strs.contains(s) {
                    strs.push(s.clone())
                }
            }
            JV::Arr(a) => a.iter().for_each(|x| x.collect(keys, strs)),
            JV::Obj(o) => {
                for (k, x) in o {
                    if !keys.contains(k) {
                        keys.push(k.clone());
                    }
                    x.collect(keys, strs);
                }
            }
            _ => {}
        }
    }
}

pub fn wrap_arr(v: JV, depth: usize) -> JV {
    let mut v = v;
    for _ in 0..depth {
        v = JV::Arr(vec![v]);
    }
    v
}

pub fn wrap_obj(v: JV, key: &str, depth: usize) -> JV {
    let mut v = v;
    for _ in 0..depth {
        v = JV::Obj(vec![(key.to_string(), v)]);
    }
    v
}

#[derive(Clone, Debug)]
pub enum Op {
    Delete,
    Replace(JV),
    WrapArr(usize),
    WrapObj(usize),
    RenameKey(String),
    DupKey(bool),
}

#[derive(Clone, Debug)]
pub struct Mut {
    pub path: Vec<usize>,
    pub op: Op,
}

pub const ESCAPE_KEYS: &[&str] = &["__entity", "__extn", "__expr"];

/// strings that mean something to some parser downstream of JSON
pub const STRING_POOL: &[&str] = &[
    "", "a", "A::B", "::", "A::", "User::\"a\"", "Action::\"view\"", "ip(\"10.0.0.1\")", "10.0.0.1/33", "1.23456", "2024-13-01", "9223372036854775808ms", "?principal", "principal", "Set", "Record", "Entity", "EntityOrCommon", "__cedar::Long", "if", "\u{0}", "a*\\*é\u{1F600}",
];

/// keys of the JSON policy (EST) format
pub const EST_KEYS: &[&str] = &[
    "Value", "Var", "Slot", "Unknown", "!", "neg", "==", "!=", "in", "<", "<=", ">", ">=", "&&", "||", "+", "-", "*", "contains", "containsAll", "containsAny", "isEmpty", "getTag", "hasTag", ".", "has", "like", "is", "if-then-else", "Set", "Record", "ip", "decimal", "isInRange", "left", "right", "arg", "unknown",
];

fn replacements_full() -> Vec<JV> {
    vec![
        JV::Null,
        JV::Bool(true),
        JV::Num("0".into()),
        JV::Num("-1".into()),
        JV::Num("9223372036854775808".into()),
        JV::Num("-9223372036854775809".into()),
        JV::Num("1.5".into()),
        JV::Num("1e400".into()),
        JV::Str("".into()),
        JV::Str("x".into()),
        JV::Arr(vec![]),
        JV::Obj(vec![]),
    ]
}

/// all single mutations of `doc`. `full` = the whole operator set; otherwise the reduced set
/// used for pairs (delete, null, one retype, duplicate key).
pub fn mutations(doc: &JV, full: bool, extra_keys: &[&str], pool_cap: usize) -> Vec<Mut> {
    let mut out = vec![];
    let mut keys: Vec<String> = vec![];
    let mut strs: Vec<String> = vec![];
    doc.collect(&mut keys, &mut strs);
    // `pool_cap` bounds how many of the document's own keys / strings are used as replacements
    keys.truncate(pool_cap);
    strs.truncate(pool_cap);
    for k in ESCAPE_KEYS.iter().chain(extra_keys.iter()) {
        if !keys.iter().any(|x| x == k) {
            keys.push(k.to_string());
        }
    }
    for s in STRING_POOL {
        if !strs.iter().any(|x| x == s) {
            strs.push(s.to_string());
        }
    }
    let repl = replacements_full();
    for path in doc.all_paths() {
        let node = doc.at(&path);
        if !path.is_empty() {
            out.push(Mut { path: path.clone(), op: Op::Delete });
        }
        if full {
            for r in &repl {
                if r != node {
                    out.push(Mut { path: path.clone(), op: Op::Replace(r.clone()) });
                }
            }
            out.push(Mut { path: path.clone(), op: Op::WrapArr(1) });
            out.push(Mut { path: path.clone(), op: Op::WrapObj(1) });
            out.push(Mut { path: path.clone(), op: Op::WrapArr(48) });
            out.push(Mut { path: path.clone(), op: Op::WrapObj(48) });
            if let JV::Str(s) = node {
                for t in &strs {
                    if t != s {
                        out.push(Mut { path: path.clone(), op: Op::Replace(JV::Str(t.clone())) });
                    }
                }
            }
        } else {
            if *node != JV::Null {
                out.push(Mut { path: path.clone(), op: Op::Replace(JV::Null) });
            }
            let retype = if matches!(node, JV::Str(_)) { JV::Num("0".into()) } else { JV::Str("x".into()) };
            out.push(Mut { path: path.clone(), op: Op::Replace(retype) });
        }
        // key operations: addressed by the path of the member's value
        if let Some((last, parent_path)) = path.split_last() {
            if let JV::Obj(o) = doc.at(parent_path) {
                let key = &o[*last].0;
                out.push(Mut { path: path.clone(), op: Op::DupKey(false) });
                if full {
                    out.push(Mut { path: path.clone(), op: Op::DupKey(true) });
                    for k in &keys {
                        if k != key {
                            out.push(Mut { path: path.clone(), op: Op::RenameKey(k.clone()) });
                        }
                    }
                }
            }
        }
    }
    out
}

pub fn apply(doc: &JV, m: &Mut) -> JV {
    let mut d = doc.clone();
    match &m.op {
        Op::Replace(r) => *d.at_mut(&m.path) = r.clone(),
        Op::WrapArr(n) => {
            let v = d.at(&m.path).clone();
            *d.at_mut(&m.path) = wrap_arr(v, *n);
        }
        Op::WrapObj(n) => {
            let v = d.at(&m.path).clone();
            *d.at_mut(&m.path) = wrap_obj(v, "a", *n);
        }
        Op::Delete | Op::RenameKey(_) | Op::DupKey(_) => {
            if let Some((last, parent_path)) = m.path.split_last() {
                let parent = d.at_mut(parent_path);
                match (parent, &m.op) {
                    (JV::Arr(a), Op::Delete) => {
                        a.remove(*last);
                    }
                    (JV::Obj(o), Op::Delete) => {
                        o.remove(*last);
                    }
                    (JV::Obj(o), Op::RenameKey(k)) => o[*last].0 = k.clone(),
                    (JV::Obj(o), Op::DupKey(null)) => {
                        let (k, v) = o[*last].clone();
                        o.insert(*last + 1, (k, if *null { JV::Null } else { v }));
                    }
                    _ => {}
                }
            }
        }
    }
    d
}

/// every ordered pair of reduced mutations (second mutation enumerated on the mutated document)
pub struct JsonPairFam {
    pub name: String,
    pub doc: JV,
    pub firsts: Vec<Mut>,
    pub prefix: Vec<u64>, // prefix[i] = number of cases before first-mutation i
    pub total: u64,
    pub route: u64,
}

impl JsonPairFam {
    pub fn new(name: &str, doc: &J, route: u64) -> JsonPairFam {
        let d = JV::from_serde(doc);
        let firsts = mutations(&d, false, &[], 0);
        let mut prefix = Vec::with_capacity(firsts.len());
        let mut total = 0u64;
        for m in &firsts {
            prefix.push(total);
            total += mutations(&apply(&d, m), false, &[], 0).len() as u64;
        }
        JsonPairFam { name: format!("json-mut2:{name}"), doc: d, firsts, prefix, total, route }
    }
}

impl Family for JsonPairFam {
    fn name(&self) -> String {
        self.name.clone()
    }
    fn count(&self) -> u64 {
        self.total
    }
    fn get(&self, i: u64) -> Input {
        let fi = match self.prefix.binary_search(&i) {
            Ok(mut x) => {
                // several first-mutations may have zero second mutations; take the last with prefix == i
                while x + 1 < self.prefix.len() && self.prefix[x + 1] == i {
                    x += 1;
                }
                x
            }
            Err(x) => x - 1,
        };
        let d1 = apply(&self.doc, &self.firsts[fi]);
        let seconds = mutations(&d1, false, &[], 0);
        let j = (i - self.prefix[fi]) as usize;
        let d2 = apply(&d1, &seconds[j]);
        Input { bytes: d2.text().into_bytes(), route: self.route }
    }
    fn shard(&self) -> u64 {
        3000
    }
}

// ---------------------------------------------------------------------------------------------
// nesting generators (depth 1..=48)
// ---------------------------------------------------------------------------------------------
pub const MAX_DEPTH: usize = 48;

fn rep(s: &str, n: usize) -> String {
    s.repeat(n)
}

/// Cedar expression shapes nested to depth d
pub fn nested_exprs(d: usize) -> Vec<(&'static str, String)> {
    let mut v: Vec<(&'static str, String)> = vec![];
    v.push(("parens", format!("{}1{}", rep("(", d), rep(")", d))));
    v.push(("not", format!("{}true", rep("!", d))));
    v.push(("not-paren", format!("{}true{}", rep("!(", d), rep(")", d))));
    v.push(("neg", format!("{}1", rep("-", d))));
    v.push(("neg-paren", format!("{}1{}", rep("-(", d), rep(")", d))));
    v.push(("neg-not-mix", format!("{}1", rep("-!", d))));
    v.push(("set", format!("{}1{}", rep("[", d), rep("]", d))));
    v.push(("record", format!("{}1{}", rep("{a: ", d), rep("}", d))));
    v.push(("record-str-key", format!("{}1{}", rep("{\"k y\": ", d), rep("}", d))));
    v.push(("if-cond", format!("{}true{}", rep("if ", d), rep(" then true else false", d))));
    v.push(("if-then", format!("{}1{}", rep("if true then ", d), rep(" else 0", d))));
    v.push(("if-else", format!("{}1", rep("if false then 0 else ", d))));
    v.push(("attr-chain", format!("principal{}", rep(".a", d))));
    v.push(("index-chain", format!("context{}", rep("[\"a\"]", d))));
    v.push(("record-attr-chain", format!("{}1{}{}", rep("{a: ", d), rep("}", d), rep(".a", d))));
    v.push(("has-chain", format!("principal has a{}", rep(".a", d))));
    v.push(("method-chain", format!("[1]{}", rep(".contains(1)", d))));
    v.push(("method-arg", format!("{}1{}", rep("[1].contains(", d), rep(")", d))));
    v.push(("call-nest", format!("{}\"1.1.1.1\"{}", rep("ip(", d), rep(")", d))));
    v.push(("and-chain", format!("true{}", rep(" && true", d))));
    v.push(("or-chain", format!("false{}", rep(" || false", d))));
    v.push(("add-chain", format!("1{}", rep(" + 1", d))));
    v.push(("mul-chain", format!("1{}", rep(" * 1", d))));
    v.push(("add-right", format!("{}1{}", rep("1 + (", d), rep(")", d))));
    v.push(("eq-paren", format!("{}1{}", rep("(1 == ", d), rep(")", d))));
    v.push(("rel-chain", format!("1{}", rep(" < 1", d))));
    v.push(("in-chain", format!("principal{}", rep(" in principal", d))));
    v.push(("is-chain", format!("principal{}", rep(" is User", d))));
    v.push(("like-chain", format!("\"a\"{}", rep(" like \"*\"", d))));
    v.push(("name-path", format!("{}\"x\"", rep("A::", d))));
    v.push(("name-path-call", format!("{}f(1)", rep("A::", d))));
    v.push(("tag-chain", format!("principal{}", rep(".getTag(\"a\")", d))));
    v.push(("open-only", rep("(", d)));
    v.push(("open-set-only", rep("[", d)));
    v.push(("open-rec-only", rep("{a:", d)));
    v.push(("close-only", rep(")", d)));
    v
}

pub fn nested_policies(d: usize) -> Vec<(&'static str, String)> {
    let mut v: Vec<(&'static str, String)> = vec![];
    v.push(("when-chain", format!("{POLICY_HEAD}{};", rep(" when { true }", d))));
    v.push(("unless-chain", format!("{POLICY_HEAD}{};", rep(" unless { false }", d))));
    v.push(("annotation-chain", format!("{}{POLICY_HEAD};", (0..d).map(|i| format!("@a{i}(\"v\") ")).collect::<String>())));
    v.push(("policy-chain", rep(&format!("{POLICY_HEAD};\n"), d)));
    v.push(("action-list", format!("permit(principal, action in [{}], resource);", (0..d).map(|i| format!("Action::\"a{i}\"")).collect::<Vec<_>>().join(", "))));
    v.push(("action-list-nested", format!("permit(principal, action in {}Action::\"a\"{}, resource);", rep("[", d), rep("]", d))));
    v.push(("scope-name-path", format!("permit(principal is {}A, action, resource);", rep("A::", d))));
    v.push(("comment-chain", format!("{}{POLICY_HEAD};", rep("// c\n", d))));
    v
}

pub fn nested_schemas(d: usize) -> Vec<(&'static str, String)> {
    let mut v: Vec<(&'static str, String)> = vec![];
    v.push(("set-type", format!("entity A {{ x: {}Long{} }};", rep("Set<", d), rep(">", d))));
    v.push(("record-type", format!("entity A {{ x: {}Long{} }};", rep("{ a: ", d), rep(" }", d))));
    v.push(("common-chain", format!("{} type T{d} = Long; entity A {{ x: T0 }};", (0..d).map(|i| format!("type T{i} = T{};", i + 1)).collect::<String>())));
    v.push(("ns-path", format!("namespace {}A {{ entity E; }}", rep("A::", d))));
    v.push(("member-chain", format!("entity E0; {}", (1..=d).map(|i| format!("entity E{i} in [E{}];", i - 1)).collect::<String>())));
    v.push(("action-chain", format!("entity E; action a0; {}", (1..=d).map(|i| format!("action a{i} in [a{}];", i - 1)).collect::<String>())));
    v.push(("annotation-chain", format!("{}entity A;", (0..d).map(|i| format!("@a{i}(\"v\") ")).collect::<String>())));
    v.push(("open-only", rep("{", d)));
    v.push(("set-open-only", format!("entity A {{ x: {}", rep("Set<", d))));
    v
}

fn jnest(d: usize, open: &str, close: &str, core: &str) -> String {
    format!("{}{core}{}", rep(open, d), rep(close, d))
}

/// JSON shapes nested to depth d: (name, text, route)
pub fn nested_json(d: usize) -> Vec<(&'static str, String, u64)> {
    let mut v: Vec<(&'static str, String, u64)> = vec![];
    v.push(("array", jnest(d, "[", "]", "1"), R_JSON));
    v.push(("object", jnest(d, "{\"a\":", "}", "1"), R_JSON));
    v.push(("array-open-only", rep("[", d), R_JSON));
    let est = |body: String| format!("{{\"effect\":\"permit\",\"principal\":{{\"op\":\"All\"}},\"action\":{{\"op\":\"All\"}},\"resource\":{{\"op\":\"All\"}},\"conditions\":[{{\"kind\":\"when\",\"body\":{body}}}]}}");
    v.push(("est-not", est(jnest(d, "{\"!\":{\"arg\":", "}}", "{\"Value\":true}")), R_J_POLICY));
    v.push(("est-neg", est(jnest(d, "{\"neg\":{\"arg\":", "}}", "{\"Value\":1}")), R_J_POLICY));
    v.push(("est-set", est(jnest(d, "{\"Set\":[", "]}", "{\"Value\":1}")), R_J_POLICY));
    v.push(("est-record", est(jnest(d, "{\"Record\":{\"a\":", "}}", "{\"Value\":1}")), R_J_POLICY));
    v.push(("est-attr", est(jnest(d, "{\".\":{\"left\":", ",\"attr\":\"a\"}}", "{\"Var\":\"principal\"}")), R_J_POLICY));
    v.push(("est-if", est(jnest(d, "{\"if-then-else\":{\"if\":{\"Value\":true},\"then\":", ",\"else\":{\"Value\":0}}}", "{\"Value\":1}")), R_J_POLICY));
    v.push(("est-and", est(jnest(d, "{\"&&\":{\"left\":{\"Value\":true},\"right\":", "}}", "{\"Value\":true}")), R_J_POLICY));
    v.push(("est-add-left", est(jnest(d, "{\"+\":{\"left\":", ",\"right\":{\"Value\":1}}}", "{\"Value\":1}")), R_J_POLICY));
    v.push(("est-call", est(jnest(d, "{\"ip\":[", "]}", "{\"Value\":\"1.1.1.1\"}")), R_J_POLICY));
    v.push(("est-value-set", est(format!("{{\"Value\":{}}}", jnest(d, "[", "]", "1"))), R_J_POLICY));
    v.push(("est-value-record", est(format!("{{\"Value\":{}}}", jnest(d, "{\"a\":", "}", "1"))), R_J_POLICY));
    v.push(("est-conditions", format!("{{\"effect\":\"permit\",\"principal\":{{\"op\":\"All\"}},\"action\":{{\"op\":\"All\"}},\"resource\":{{\"op\":\"All\"}},\"conditions\":[{}]}}", vec!["{\"kind\":\"when\",\"body\":{\"Value\":true}}"; d].join(",")), R_J_POLICY));
    let ent = |attr: String| format!("[{{\"uid\":{{\"type\":\"User\",\"id\":\"a\"}},\"attrs\":{{\"x\":{attr}}},\"parents\":[]}}]");
    v.push(("entity-attr-set", ent(jnest(d, "[", "]", "1")), R_J_ENTITIES));
    v.push(("entity-attr-record", ent(jnest(d, "{\"a\":", "}", "1")), R_J_ENTITIES));
    v.push(("entity-attr-extn", ent(jnest(d, "{\"__extn\":{\"fn\":\"ip\",\"arg\":", "}}", "\"1.1.1.1\"")), R_J_ENTITIES));
    v.push(("entity-attr-entity", ent(jnest(d, "{\"__entity\":", "}", "{\"type\":\"User\",\"id\":\"a\"}")), R_J_ENTITIES));
    v.push((
        "entity-parent-chain",
        format!(
            "[{}]",
            (0..=d).map(|i| format!("{{\"uid\":{{\"type\":\"G\",\"id\":\"{i}\"}},\"attrs\":{{}},\"parents\":[{}]}}", if i < d { format!("{{\"type\":\"G\",\"id\":\"{}\"}}", i + 1) } else { String::new() })).collect::<Vec<_>>().join(",")
        ),
        R_J_ENTITIES,
    ));
    v.push((
        "entity-parent-cycle",
        format!("[{}]", (0..=d).map(|i| format!("{{\"uid\":{{\"type\":\"G\",\"id\":\"{i}\"}},\"attrs\":{{}},\"parents\":[{{\"type\":\"G\",\"id\":\"{}\"}}]}}", (i + 1) % (d + 1))).collect::<Vec<_>>().join(",")),
        R_J_ENTITIES,
    ));
    v.push(("context-set", format!("{{\"x\":{}}}", jnest(d, "[", "]", "1")), R_J_CONTEXT));
    v.push(("context-record", format!("{{\"x\":{}}}", jnest(d, "{\"a\":", "}", "1")), R_J_CONTEXT));
    let sch = |ty: String| format!("{{\"\":{{\"entityTypes\":{{\"A\":{{\"shape\":{{\"type\":\"Record\",\"attributes\":{{\"x\":{ty}}}}}}}}},\"actions\":{{}}}}}}");
    v.push(("schema-set", sch(jnest(d, "{\"type\":\"Set\",\"element\":", "}", "{\"type\":\"Long\"}")), R_J_SCHEMA));
    v.push(("schema-record", sch(jnest(d, "{\"type\":\"Record\",\"attributes\":{\"a\":", "}}", "{\"type\":\"Long\"}")), R_J_SCHEMA));
    v.push((
        "schema-common-chain",
        format!(
            "{{\"\":{{\"commonTypes\":{{{},\"T{d}\":{{\"type\":\"Long\"}}}},\"entityTypes\":{{\"A\":{{\"shape\":{{\"type\":\"Record\",\"attributes\":{{\"x\":{{\"type\":\"T0\"}}}}}}}}}},\"actions\":{{}}}}}}",
            (0..d).map(|i| format!("\"T{i}\":{{\"type\":\"T{}\"}}", i + 1)).collect::<Vec<_>>().join(",")
        ),
        R_J_SCHEMA,
    ));
    v.push((
        "schema-common-cycle",
        format!("{{\"\":{{\"commonTypes\":{{{}}},\"entityTypes\":{{}},\"actions\":{{}}}}}}", (0..d).map(|i| format!("\"T{i}\":{{\"type\":\"T{}\"}}", (i + 1) % d)).collect::<Vec<_>>().join(",")),
        R_J_SCHEMA,
    ));
    v.push((
        "schema-member-chain",
        format!("{{\"\":{{\"entityTypes\":{{\"E0\":{{}},{}}},\"actions\":{{}}}}}}", (1..=d).map(|i| format!("\"E{i}\":{{\"memberOfTypes\":[\"E{}\"]}}", i - 1)).collect::<Vec<_>>().join(",")),
        R_J_SCHEMA,
    ));
    v.push((
        "schema-action-cycle",
        format!("{{\"\":{{\"entityTypes\":{{}},\"actions\":{{{}}}}}}}", (0..d).map(|i| format!("\"a{i}\":{{\"memberOf\":[{{\"id\":\"a{}\"}}]}}", (i + 1) % d)).collect::<Vec<_>>().join(",")),
        R_J_SCHEMA,
    ));
    v
}

/// Extension calls in every JSON spelling x every extension function x 0..3 arguments
/// (after finding F8 / seed C20-a1: the JSON formats do not check arity, the printers must cope):
/// EST call form `{"<fn>": [args]}`, EST literal forms `{"Value": {"__extn": {"fn", "arg"}}}` /
/// `{"Value": {"__extn": {"fn", "args": [..]}}}`, and the same escapes as entity attribute /
/// context values.
pub fn ext_call_grid() -> Vec<(Vec<u8>, u64)> {
    const FNS: &[&str] = &[
        "ip", "decimal", "datetime", "duration", "isIpv4", "isIpv6", "isLoopback", "isMulticast", "isInRange", "lessThan", "lessThanOrEqual", "greaterThan", "greaterThanOrEqual", "offset", "durationSince", "toDate", "toTime", "toMilliseconds", "toSeconds",
        "toMinutes", "toHours", "toDays", "unknown", "nosuchfn", "",
    ];
    // argument spellings: (as EST expression, as value JSON)
    let args_est = ["{\"Value\":\"10.0.0.1\"}", "{\"Value\":1}", "{\"ip\":[{\"Value\":\"10.0.0.1\"}]}", "{\"Var\":\"principal\"}"];
    let args_val = ["\"10.0.0.1\"", "1", "{\"__extn\":{\"fn\":\"ip\",\"arg\":\"10.0.0.1\"}}", "{\"__entity\":{\"type\":\"User\",\"id\":\"a\"}}"];
    let policy = |body: &str| format!("{{\"effect\":\"permit\",\"principal\":{{\"op\":\"All\"}},\"action\":{{\"op\":\"All\"}},\"resource\":{{\"op\":\"All\"}},\"conditions\":[{{\"kind\":\"when\",\"body\":{body}}}]}}");
    let mut out: Vec<(Vec<u8>, u64)> = vec![];
    for f in FNS {
        for n in 0..=3usize {
            for k in 0..args_est.len() {
                // the k-th spelling first, then the others in rotation
                let est: Vec<&str> = (0..n).map(|i| args_est[(k + i) % args_est.len()]).collect();
                let val: Vec<&str> = (0..n).map(|i| args_val[(k + i) % args_val.len()]).collect();
                let call = format!("{{\"{f}\":[{}]}}", est.join(","));
                let multi = format!("{{\"__extn\":{{\"fn\":\"{f}\",\"args\":[{}]}}}}", val.join(","));
                out.push((policy(&call).into_bytes(), R_J_POLICY));
                out.push((policy(&format!("{{\"==\":{{\"left\":{call},\"right\":{{\"Value\":1}}}}}}")).into_bytes(), R_J_POLICY));
                out.push((policy(&format!("{{\"Value\":{multi}}}")).into_bytes(), R_J_POLICY));
                out.push((policy(&format!("{{\"==\":{{\"left\":{{\"Value\":{multi}}},\"right\":{{\"Value\":{{\"a\":[{multi}]}}}}}}}}")).into_bytes(), R_J_POLICY));
                out.push((format!("{{\"x\":{multi}}}").into_bytes(), R_J_CONTEXT));
                out.push((format!("[{{\"uid\":{{\"type\":\"User\",\"id\":\"a\"}},\"attrs\":{{\"x\":{multi}}},\"parents\":[]}}]").into_bytes(), R_J_ENTITIES));
                out.push((format!("{{\"uid\":{{\"type\":\"User\",\"id\":\"a\"}},\"attrs\":{{\"x\":[{multi}]}},\"parents\":[],\"tags\":{{\"t\":{multi}}}}}").into_bytes(), R_J_ENTITY));
                if n == 1 {
                    let single = format!("{{\"__extn\":{{\"fn\":\"{f}\",\"arg\":{}}}}}", val[0]);
                    out.push((policy(&format!("{{\"Value\":{single}}}")).into_bytes(), R_J_POLICY));
                    out.push((format!("{{\"x\":{single}}}").into_bytes(), R_J_CONTEXT));
                    out.push((format!("[{{\"uid\":{{\"type\":\"User\",\"id\":\"a\"}},\"attrs\":{{\"x\":{single}}},\"parents\":[]}}]").into_bytes(), R_J_ENTITIES));
                }
                if n == 0 {
                    break; // no argument spelling to rotate
                }
            }
        }
    }
    out.sort();
    out.dedup();
    out
}
