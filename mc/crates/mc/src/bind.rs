//! Abstraction functions cedar -> refsem and concretisation refsem -> cedar inputs.
use cedar_policy_core::ast;
use cedar_policy_core::evaluator::EvaluationError;
use refsem::*;
use std::collections::{BTreeMap, BTreeSet, HashMap, HashSet};
use std::str::FromStr;

pub fn abs_uid(u: &ast::EntityUID) -> Uid {
    let id: &str = u.eid().as_ref();
    Uid { ty: u.entity_type().to_string(), id: id.to_string() }
}

pub fn abs_lit(l: &ast::Literal) -> Val {
    match l {
        ast::Literal::Bool(b) => Val::Bool(*b),
        ast::Literal::Long(i) => Val::Long(*i),
        ast::Literal::String(s) => Val::Str(s.to_string()),
        ast::Literal::EntityUID(u) => Val::Uid(abs_uid(u)),
    }
}

/// Read an extension value's *internal* representation through its Debug output, so that the
/// abstraction does not reuse the constructor-string parser under test.
pub fn abs_ext(ev: &ast::RepresentableExtensionValue) -> Result<ExtVal, String> {
    let dbg = format!("{:?}", ev.value());
    let field = |name: &str| -> Option<&str> {
        let i = dbg.find(&format!("{name}: "))? + name.len() + 2;
        let rest = &dbg[i..];
        let end = rest.find(|c| c == ',' || c == ' ' || c == '}').unwrap_or(rest.len());
        Some(&rest[..end])
    };
    let bad = || format!("unrecognised extension value debug form: {dbg}");
    if dbg.starts_with("Decimal") {
        Ok(ExtVal::Decimal(field("value").and_then(|s| s.parse().ok()).ok_or_else(bad)?))
    } else if dbg.starts_with("DateTime") {
        Ok(ExtVal::Datetime(field("epoch").and_then(|s| s.parse().ok()).ok_or_else(bad)?))
    } else if dbg.starts_with("Duration") {
        Ok(ExtVal::Duration(field("ms").and_then(|s| s.parse().ok()).ok_or_else(bad)?))
    } else if dbg.starts_with("IPAddr") {
        let prefix: u8 = field("prefix").and_then(|s| s.parse().ok()).ok_or_else(bad)?;
        let a = field("addr").ok_or_else(bad)?;
        let addr: std::net::IpAddr = a.parse().map_err(|_| bad())?;
        Ok(ExtVal::Ip(match addr {
            std::net::IpAddr::V4(v) => IpVal { v6: false, addr: u32::from(v) as u128, prefix },
            std::net::IpAddr::V6(v) => IpVal { v6: true, addr: u128::from(v), prefix },
        }))
    } else {
        Err(bad())
    }
}

/// Abstract a cedar value. Also checks the documented `Set` representation invariant
/// (fast.is_some() <=> all elements literal, and fast ~ authoritative); a broken invariant is
/// returned as Err.
pub fn abs_value(v: &ast::Value) -> Result<Val, String> {
    match &v.value {
        ast::ValueKind::Lit(l) => Ok(abs_lit(l)),
        ast::ValueKind::Set(s) => {
            let mut out = BTreeSet::new();
            let mut all_lit = true;
            let mut lits: HashSet<ast::Literal> = HashSet::new();
            for x in s.authoritative.iter() {
                match &x.value {
                    ast::ValueKind::Lit(l) => {
                        lits.insert(l.clone());
                    }
                    _ => all_lit = false,
                }
                if !out.insert(abs_value(x)?) {
                    return Err(format!("set holds two structurally equal elements: {v}"));
                }
            }
            match &s.fast {
                Some(f) => {
                    if !all_lit {
                        return Err(format!("Set.fast is Some but not all elements are literals: {v}"));
                    }
                    if **f != lits {
                        return Err(format!("Set.fast disagrees with Set.authoritative: {v}"));
                    }
                }
                None => {
                    if all_lit {
                        return Err(format!("Set.fast is None although all elements are literals: {v}"));
                    }
                }
            }
            Ok(Val::Set(out))
        }
        ast::ValueKind::Record(r) => {
            let mut m = BTreeMap::new();
            for (k, x) in r.iter() {
                m.insert(k.to_string(), abs_value(x)?);
            }
            Ok(Val::Rec(m))
        }
        ast::ValueKind::ExtensionValue(ev) => Ok(Val::Ext(abs_ext(ev)?)),
    }
}

pub fn class_of(e: &EvaluationError) -> ErrClass {
    match e {
        EvaluationError::EntityDoesNotExist(_) => ErrClass::EntityMissing,
        EvaluationError::EntityAttrDoesNotExist(_) => ErrClass::AttrMissing,
        EvaluationError::RecordAttrDoesNotExist(_) => ErrClass::AttrMissing,
        EvaluationError::TypeError(_) => ErrClass::Type,
        EvaluationError::IntegerOverflow(_) => ErrClass::Overflow,
        EvaluationError::FailedExtensionFunctionExecution(_) => ErrClass::Extension,
        _ => ErrClass::Other,
    }
}

fn abs_pattern(p: &ast::Pattern) -> Vec<Pat> {
    p.iter()
        .map(|e| match e {
            ast::PatternElem::Char(c) => Pat::Char(*c),
            ast::PatternElem::Wildcard => Pat::Star,
        })
        .collect()
}

/// loc-free structural abstraction of a cedar expression into core forms of `E`
pub fn abs_expr<T>(e: &ast::Expr<T>) -> Result<E, String> {
    use ast::ExprKind as K;
    let bx = |e: &ast::Expr<T>| -> Result<Box<E>, String> { Ok(Box::new(abs_expr(e)?)) };
    Ok(match e.expr_kind() {
        K::Lit(ast::Literal::Bool(x)) => E::Bool(*x),
        K::Lit(ast::Literal::Long(x)) => E::Long(*x),
        K::Lit(ast::Literal::String(s)) => E::Str(s.to_string()),
        K::Lit(ast::Literal::EntityUID(u)) => E::Ent(abs_uid(u)),
        K::Var(v) => E::Var(match v {
            ast::Var::Principal => Var::Principal,
            ast::Var::Action => Var::Action,
            ast::Var::Resource => Var::Resource,
            ast::Var::Context => Var::Context,
        }),
        K::Slot(s) => {
            if s.is_principal() {
                E::Slot(SlotId::Principal)
            } else if s.is_resource() {
                E::Slot(SlotId::Resource)
            } else {
                return Err(format!("unexpected slot {s}"));
            }
        }
        K::Unknown(u) => return Err(format!("unknown in expression: {u:?}")),
        K::If { test_expr, then_expr, else_expr } => E::If(bx(test_expr)?, bx(then_expr)?, bx(else_expr)?),
        K::And { left, right } => E::And(bx(left)?, bx(right)?),
        K::Or { left, right } => E::Or(bx(left)?, bx(right)?),
        K::UnaryApp { op, arg } => match op {
            ast::UnaryOp::Not => E::Not(bx(arg)?),
            ast::UnaryOp::Neg => E::Neg(bx(arg)?),
            ast::UnaryOp::IsEmpty => E::IsEmpty(bx(arg)?),
        },
        K::BinaryApp { op, arg1, arg2 } => {
            use ast::BinaryOp as B;
            let o = match op {
                B::Eq => BinOp::Eq,
                B::Less => BinOp::Lt,
                B::LessEq => BinOp::Le,
                B::Add => BinOp::Add,
                B::Sub => BinOp::Sub,
                B::Mul => BinOp::Mul,
                B::In => BinOp::In,
                B::Contains => BinOp::Contains,
                B::ContainsAll => BinOp::ContainsAll,
                B::ContainsAny => BinOp::ContainsAny,
                B::GetTag => BinOp::GetTag,
                B::HasTag => BinOp::HasTag,
            };
            E::Bin(o, bx(arg1)?, bx(arg2)?)
        }
        K::ExtensionFunctionApp { fn_name, args } => {
            let mut v = Vec::new();
            for a in args.iter() {
                v.push(abs_expr(a)?);
            }
            E::Ext(fn_name.to_string(), v)
        }
        K::GetAttr { expr, attr } => E::GetAttr(bx(expr)?, attr.to_string()),
        K::HasAttr { expr, attr } => E::Has(bx(expr)?, vec![attr.to_string()]),
        K::Like { expr, pattern } => E::Like(bx(expr)?, abs_pattern(pattern)),
        K::Is { expr, entity_type } => E::Is(bx(expr)?, entity_type.to_string()),
        K::Set(v) => {
            let mut out = Vec::new();
            for a in v.iter() {
                out.push(abs_expr(a)?);
            }
            E::Set(out)
        }
        K::Record(m) => {
            let mut out = Vec::new();
            for (k, a) in m.iter() {
                out.push((k.to_string(), abs_expr(a)?));
            }
            E::Rec(out)
        }
    })
}

// ---------- concretisation ----------

pub fn c_uid(u: &Uid) -> cedar_policy::EntityUid {
    cedar_policy::EntityUid::from_type_name_and_id(
        cedar_policy::EntityTypeName::from_str(&u.ty).expect("type name"),
        cedar_policy::EntityId::new(&u.id),
    )
}

pub fn core_uid(u: &Uid) -> ast::EntityUID {
    ast::EntityUID::from_components(ast::EntityType::from_str(&u.ty).expect("type name"), ast::Eid::new(u.id.as_str()), None)
}

/// value -> API restricted expression (through constructors, not text)
pub fn c_rexpr(v: &Val) -> cedar_policy::RestrictedExpression {
    use cedar_policy::RestrictedExpression as R;
    match v {
        Val::Bool(b) => R::new_bool(*b),
        Val::Long(i) => R::new_long(*i),
        Val::Str(s) => R::new_string(s.clone()),
        Val::Uid(u) => R::new_entity_uid(c_uid(u)),
        Val::Set(s) => R::new_set(s.iter().map(c_rexpr)),
        Val::Rec(r) => R::new_record(r.iter().map(|(k, v)| (k.clone(), c_rexpr(v)))).expect("no dup keys"),
        Val::Ext(x) => {
            // through text of the canonical constructor call
            let e = refsem::ext::to_expr(x);
            R::from_str(&refsem::print::text(&e, &Default::default())).expect("ext value expression")
        }
    }
}

pub fn c_entity(u: &Uid, e: &Ent) -> cedar_policy::Entity {
    let attrs: HashMap<String, cedar_policy::RestrictedExpression> = e.attrs.iter().map(|(k, v)| (k.clone(), c_rexpr(v))).collect();
    let parents: HashSet<cedar_policy::EntityUid> = e.parents.iter().map(c_uid).collect();
    if e.tags.is_empty() {
        cedar_policy::Entity::new(c_uid(u), attrs, parents).expect("entity")
    } else {
        let tags: Vec<(String, cedar_policy::RestrictedExpression)> = e.tags.iter().map(|(k, v)| (k.clone(), c_rexpr(v))).collect();
        cedar_policy::Entity::new_with_tags(c_uid(u), attrs, parents, tags).expect("entity")
    }
}

/// Build the store in the given insertion order (indices into the sorted key list).
pub fn c_entities_ordered(s: &Store, rev: bool) -> Result<cedar_policy::Entities, String> {
    let mut ents: Vec<cedar_policy::Entity> = s.ents.iter().map(|(u, e)| c_entity(u, e)).collect();
    if rev {
        ents.reverse();
    }
    cedar_policy::Entities::from_entities(ents, None).map_err(|e| e.to_string())
}

pub fn c_entities(s: &Store) -> cedar_policy::Entities {
    c_entities_ordered(s, false).expect("store must be acyclic")
}

pub fn c_context(c: &BTreeMap<String, Val>) -> cedar_policy::Context {
    cedar_policy::Context::from_pairs(c.iter().map(|(k, v)| (k.clone(), c_rexpr(v)))).expect("context")
}

pub fn c_request(r: &Req) -> cedar_policy::Request {
    cedar_policy::Request::new(c_uid(&r.principal), c_uid(&r.action), c_uid(&r.resource), c_context(&r.context), None).expect("request")
}

pub fn abs_decision(d: cedar_policy::Decision) -> Decision {
    match d {
        cedar_policy::Decision::Allow => Decision::Allow,
        cedar_policy::Decision::Deny => Decision::Deny,
    }
}

pub fn abs_response(r: &cedar_policy::Response) -> Resp {
    Resp {
        decision: abs_decision(r.decision()),
        reasons: r.diagnostics().reason().map(|p| AsRef::<str>::as_ref(p).to_string()).collect(),
        errors: r
            .diagnostics()
            .errors()
            .map(|e| match e {
                cedar_policy::AuthorizationError::PolicyEvaluationError(pe) => AsRef::<str>::as_ref(pe.policy_id()).to_string(),
            })
            .collect(),
    }
}

/// evaluate with the core evaluator on API inputs
pub fn core_eval(expr: &ast::Expr, req: &cedar_policy::Request, ents: &cedar_policy::Entities) -> Result<ast::Value, EvaluationError> {
    let exts = cedar_policy_core::extensions::Extensions::all_available();
    let r: &ast::Request = req.as_ref();
    let ev = cedar_policy_core::evaluator::Evaluator::new(r.clone(), ents.as_ref(), exts);
    ev.interpret(expr, &HashMap::new())
}

/// abstract an evaluation result to the reference result type; Err(String) = broken invariant
pub fn abs_result(r: &Result<ast::Value, EvaluationError>) -> Result<R, String> {
    match r {
        Ok(v) => Ok(Ok(abs_value(v)?)),
        Err(e) => Ok(Err(class_of(e))),
    }
}

// ---------- policies ----------

/// loc-free structural abstraction of a policy / template
#[derive(Clone, Debug, PartialEq, Eq, Hash, serde::Serialize)]
pub struct AbsPol {
    pub id: String,
    pub effect: Effect,
    pub annotations: BTreeMap<String, String>,
    pub principal: PR,
    /// `action in x` and `action in [x]` are the same constraint in the AST: both are InList
    pub action: AS,
    pub resource: PR,
    /// the non-scope condition (None when there are no when/unless clauses)
    pub cond: Option<E>,
    /// slot bindings of a linked policy
    pub env: BTreeMap<String, Uid>,
}

fn abs_ref(r: &ast::EntityReference) -> Ref {
    match r {
        ast::EntityReference::EUID(u) => Ref::Uid(abs_uid(u)),
        ast::EntityReference::Slot(_) => Ref::Slot,
    }
}

pub fn abs_pr(c: &ast::PrincipalOrResourceConstraint) -> PR {
    use ast::PrincipalOrResourceConstraint as C;
    match c {
        C::Any => PR::Any,
        C::In(r) => PR::In(abs_ref(r)),
        C::Eq(r) => PR::Eq(abs_ref(r)),
        C::Is(t) => PR::Is(t.to_string()),
        C::IsIn(t, r) => PR::IsIn(t.to_string(), abs_ref(r)),
    }
}

pub fn abs_action(c: &ast::ActionConstraint) -> AS {
    match c {
        ast::ActionConstraint::Any => AS::Any,
        ast::ActionConstraint::Eq(u) => AS::Eq(abs_uid(u)),
        ast::ActionConstraint::In(us) => AS::InList(us.iter().map(|u| abs_uid(u)).collect()),
    }
}

pub fn norm_action(a: &AS) -> AS {
    match a {
        AS::In(u) => AS::InList(vec![u.clone()]),
        o => o.clone(),
    }
}

pub fn abs_template(t: &ast::Template) -> Result<AbsPol, String> {
    Ok(AbsPol {
        id: AsRef::<str>::as_ref(t.id()).to_string(),
        effect: match t.effect() {
            ast::Effect::Permit => Effect::Permit,
            ast::Effect::Forbid => Effect::Forbid,
        },
        annotations: t.annotations().map(|(k, v)| (k.to_string(), v.val.to_string())).collect(),
        principal: abs_pr(t.principal_constraint().as_inner()),
        action: abs_action(t.action_constraint()),
        resource: abs_pr(t.resource_constraint().as_inner()),
        cond: match t.non_scope_constraints() {
            Some(e) => Some(abs_expr(e)?),
            None => None,
        },
        env: BTreeMap::new(),
    })
}

pub fn abs_policy(p: &ast::Policy) -> Result<AbsPol, String> {
    let mut a = abs_template(p.template())?;
    a.id = AsRef::<str>::as_ref(p.id()).to_string();
    a.env = p.env().iter().map(|(k, v)| (k.to_string(), abs_uid(v))).collect();
    Ok(a)
}

/// the scope part of a reference policy, for comparison with `AbsPol`
pub fn scope_of(p: &Pol) -> (Effect, PR, AS, PR) {
    (p.effect, p.principal.clone(), norm_action(&p.action), p.resource.clone())
}
