//! C12 — the formatter is total, preserves meaning and comments, and is idempotent on
//! comment-free text.
//!
//! Engine: bounded-exhaustive enumeration, deviation = inserted comment.
//!   programs  : policy texts printed from the reference types (refsem::Pol / refsem::E, three
//!               parenthesisation modes): every operator shape with every leaf in every operand
//!               position (depth 1), every operator nesting parent x position x child (depth 2),
//!               scope forms, annotations, multiple when/unless, templates, sets of 1-3 policies,
//!               a few hand-written texts (raw newlines in strings, chains);
//!   deviation : 0 comments (x 4 whitespace layouts), 1 comment group of each kind at EVERY token
//!               boundary (own tokenizer over the generated text), 2 comment groups at every pair
//!               of boundaries (thorough, smaller program set);
//!   configs   : line_width {1,10,40,80,120,1000} x indent {0,1,2,4,8} (quick: 6 of the 30).
//! Oracle (independent of the formatter's own soundness check): Ok; the output parses; every
//! policy of the output is structurally identical to the input's (bind::abs_expr on the
//! condition and on the when/unless body, own abstraction of scope, effect, annotations, ids in
//! order); the sequence of comment texts (own scanner, aware of string literals) is unchanged;
//! comment-free: fmt(fmt(x)) == fmt(x); the output formatted again (same config, and another
//! config) satisfies the same checks.
use crate::bind::*;
use crate::harness::*;
use cedar_policy_core::ast;
use cedar_policy_formatter::{policies_str_to_pretty, Config};
use rayon::prelude::*;
use refsem::print::{Paren, Style};
use refsem::*;
use serde_json::{json, Value as J};
use std::collections::{BTreeMap, HashMap};
use std::str::FromStr;
use std::sync::atomic::{AtomicU64, Ordering};
use std::sync::Mutex;

// ------------------------------------------------------------------------------------------
// own tokenizer / comment scanner (written from the Cedar grammar, no cedar code)
// ------------------------------------------------------------------------------------------

/// byte spans of the tokens of a Cedar policy text (comments and whitespace skipped)
pub fn tokenize(s: &str) -> Result<Vec<(usize, usize)>, String> {
    let b = s.as_bytes();
    let mut i = 0;
    let mut out = Vec::new();
    let is_id_start = |c: u8| c.is_ascii_alphabetic() || c == b'_';
    let is_id = |c: u8| c.is_ascii_alphanumeric() || c == b'_';
    while i < b.len() {
        let c = b[i];
        if c == b' ' || c == b'\t' || c == b'\n' || c == b'\r' {
            i += 1;
        } else if c == b'/' && b.get(i + 1) == Some(&b'/') {
            while i < b.len() && b[i] != b'\n' && b[i] != b'\r' {
                i += 1;
            }
        } else if c == b'"' {
            let st = i;
            i += 1;
            loop {
                match b.get(i) {
                    None => return Err(format!("unterminated string at {st}")),
                    Some(b'\\') => i += 2,
                    Some(b'"') => {
                        i += 1;
                        break;
                    }
                    Some(_) => i += 1,
                }
            }
            out.push((st, i));
        } else if is_id_start(c) || (c == b'?' && b.get(i + 1).map_or(false, |x| is_id_start(*x))) {
            let st = i;
            i += 1;
            while i < b.len() && is_id(b[i]) {
                i += 1;
            }
            out.push((st, i));
        } else if c.is_ascii_digit() {
            let st = i;
            while i < b.len() && b[i].is_ascii_digit() {
                i += 1;
            }
            out.push((st, i));
        } else if c.is_ascii_punctuation() {
            let two = b.get(i + 1).map(|d| [c, *d]);
            let is_two = matches!(two, Some([b':', b':']) | Some([b'=', b'=']) | Some([b'!', b'=']) | Some([b'<', b'=']) | Some([b'>', b'=']) | Some([b'&', b'&']) | Some([b'|', b'|']));
            let n = if is_two { 2 } else { 1 };
            out.push((i, i + n));
            i += n;
        } else {
            return Err(format!("unexpected byte {c:#x} at {i}"));
        }
    }
    Ok(out)
}

/// the comments of a Cedar text, in order, trimmed. `//` inside a string literal is not a comment.
pub fn scan_comments(s: &str) -> Vec<String> {
    let b = s.as_bytes();
    let mut i = 0;
    let mut out = Vec::new();
    while i < b.len() {
        match b[i] {
            b'"' => {
                i += 1;
                while i < b.len() {
                    match b[i] {
                        b'\\' => i += 2,
                        b'"' => {
                            i += 1;
                            break;
                        }
                        _ => i += 1,
                    }
                }
            }
            b'/' if b.get(i + 1) == Some(&b'/') => {
                let st = i;
                while i < b.len() && b[i] != b'\n' && b[i] != b'\r' {
                    i += 1;
                }
                out.push(String::from_utf8_lossy(&b[st..i]).trim().to_string());
            }
            _ => i += 1,
        }
    }
    out
}

const KEYWORDS: &[&str] = &["permit", "forbid", "when", "unless", "principal", "action", "resource", "context", "true", "false", "if", "then", "else", "in", "is", "like", "has", "?principal", "?resource"];

fn tok_class(t: &str) -> String {
    let c = t.chars().next().unwrap_or(' ');
    if c == '"' {
        "str".into()
    } else if c.is_ascii_digit() {
        "num".into()
    } else if c.is_ascii_alphabetic() || c == '_' || c == '?' {
        if KEYWORDS.contains(&t) {
            t.into()
        } else {
            "ident".into()
        }
    } else {
        t.into()
    }
}

// ------------------------------------------------------------------------------------------
// comment kinds and insertion
// ------------------------------------------------------------------------------------------

#[derive(Clone, Copy, Debug, PartialEq, Eq, Hash, serde::Serialize, serde::Deserialize)]
pub enum K {
    /// ` // c` at the end of the line of the preceding token
    Eol,
    /// on a line of its own
    Own,
    /// two stacked own-line comments (the second indented)
    Stacked,
    /// two own-line comments separated by a blank line
    Blank,
    /// end-of-line comment whose text holds `"` and `//`
    Tricky,
    /// end-of-line comment directly followed by an own-line comment
    EolOwn,
    /// end-of-line comment terminated by CR LF
    Crlf,
}

const KINDS_QUICK: [K; 6] = [K::Eol, K::Own, K::Stacked, K::Blank, K::Tricky, K::EolOwn];
const KINDS_THOROUGH: [K; 7] = [K::Eol, K::Own, K::Stacked, K::Blank, K::Tricky, K::EolOwn, K::Crlf];

/// (inserted text, the comment texts it holds)
fn comment_group(kind: K, k: usize) -> (String, Vec<String>) {
    match kind {
        K::Eol => (format!(" // c{k}\n"), vec![format!("// c{k}")]),
        K::Own => (format!("\n// c{k}\n"), vec![format!("// c{k}")]),
        K::Stacked => (format!("\n// c{k}\n    // c{k}b\n"), vec![format!("// c{k}"), format!("// c{k}b")]),
        K::Blank => (format!("\n// c{k}\n\n// c{k}b\n"), vec![format!("// c{k}"), format!("// c{k}b")]),
        K::Tricky => (format!(" // c{k} \"q // x\n"), vec![format!("// c{k} \"q // x")]),
        K::EolOwn => (format!(" // c{k}\n// c{k}b\n"), vec![format!("// c{k}"), format!("// c{k}b")]),
        K::Crlf => (format!(" // c{k}\r\n"), vec![format!("// c{k}")]),
    }
}

/// insert comment groups at token boundaries (boundary b = after token b-1; 0 = start of text)
fn insert(base: &str, toks: &[(usize, usize)], ins: &[(usize, K)]) -> (String, Vec<String>) {
    let mut out = String::with_capacity(base.len() + 32 * ins.len());
    let mut expect = Vec::new();
    let mut pos = 0;
    for (n, (b, kind)) in ins.iter().enumerate() {
        let at = if *b == 0 { 0 } else { toks[*b - 1].1 };
        out.push_str(&base[pos..at]);
        pos = at;
        let (txt, cs) = comment_group(*kind, n + 1);
        out.push_str(&txt);
        expect.extend(cs);
    }
    out.push_str(&base[pos..]);
    (out, expect)
}

fn site(base: &str, toks: &[(usize, usize)], b: usize) -> String {
    let prev = if b == 0 { "^".to_string() } else { tok_class(&base[toks[b - 1].0..toks[b - 1].1]) };
    let next = if b == toks.len() { "$".to_string() } else { tok_class(&base[toks[b].0..toks[b].1]) };
    format!("{prev} | {next}")
}

/// whitespace layouts of a token sequence
fn layout(base: &str, toks: &[(usize, usize)], lay: usize) -> String {
    if lay == 0 {
        return base.to_string();
    }
    let mut out = String::new();
    for (i, (s, e)) in toks.iter().enumerate() {
        let t = &base[*s..*e];
        if i > 0 {
            match lay {
                1 => {
                    // compact: a space only where two word characters would touch
                    let p = out.as_bytes()[out.len() - 1];
                    let n = t.as_bytes()[0];
                    let w = |c: u8| c.is_ascii_alphanumeric() || c == b'_';
                    if w(p) && (w(n) || n == b'?') {
                        out.push(' ');
                    }
                }
                2 => out.push('\n'),
                _ => out.push_str(" \n\n\t"),
            }
        }
        out.push_str(t);
    }
    if lay == 3 {
        out.push_str("\n\n\n");
    }
    out
}

// ------------------------------------------------------------------------------------------
// abstraction of a parsed policy set (the "meaning" compared before / after formatting)
// ------------------------------------------------------------------------------------------

#[derive(Clone, Debug, PartialEq, Eq)]
pub struct APol {
    pub id: String,
    pub permit: bool,
    pub annotations: BTreeMap<String, String>,
    pub principal: PR,
    pub action: AS,
    pub resource: PR,
    pub body: Option<E>,
    pub condition: E,
    pub slots: usize,
}

fn abs_ref(r: &ast::EntityReference) -> Ref {
    match r {
        ast::EntityReference::EUID(u) => Ref::Uid(abs_uid(u)),
        ast::EntityReference::Slot(_) => Ref::Slot,
    }
}

fn abs_pr(c: &ast::PrincipalOrResourceConstraint) -> PR {
    use ast::PrincipalOrResourceConstraint as C;
    match c {
        C::Any => PR::Any,
        C::In(r) => PR::In(abs_ref(r)),
        C::Eq(r) => PR::Eq(abs_ref(r)),
        C::Is(t) => PR::Is(t.to_string()),
        C::IsIn(t, r) => PR::IsIn(t.to_string(), abs_ref(r)),
    }
}

fn abs_template(t: &ast::Template) -> Result<APol, String> {
    #[allow(unreachable_patterns)]
    let action = match t.action_constraint() {
        ast::ActionConstraint::Any => AS::Any,
        ast::ActionConstraint::Eq(u) => AS::Eq(abs_uid(u)),
        ast::ActionConstraint::In(us) => AS::InList(us.iter().map(|u| abs_uid(u)).collect()),
        _ => return Err("error node in action constraint".into()),
    };
    Ok(APol {
        id: t.id().to_string(),
        permit: t.effect() == ast::Effect::Permit,
        annotations: t.annotations().map(|(k, v)| (k.to_string(), v.val.to_string())).collect(),
        principal: abs_pr(t.principal_constraint().as_inner()),
        action,
        resource: abs_pr(t.resource_constraint().as_inner()),
        body: match t.non_scope_constraints() {
            Some(e) => Some(abs_expr(e)?),
            None => None,
        },
        condition: abs_expr(&t.condition())?,
        slots: t.slots().count(),
    })
}

fn id_num(id: &str) -> usize {
    id.strip_prefix("policy").and_then(|n| n.parse().ok()).unwrap_or(usize::MAX)
}

/// parse with the real parser and abstract; policies in text order (ids are positional)
pub fn abs_set(text: &str) -> Result<Vec<APol>, String> {
    let ps = cedar_policy::PolicySet::from_str(text).map_err(|e| e.to_string())?;
    let core: &ast::PolicySet = ps.as_ref();
    let mut v = Vec::new();
    for t in core.all_templates() {
        v.push(abs_template(t)?);
    }
    v.sort_by(|a, b| (id_num(&a.id), &a.id).cmp(&(id_num(&b.id), &b.id)));
    // the API-level views must show the same ids
    let mut api_ids: Vec<String> = ps.policies().map(|p| p.id().to_string()).chain(ps.templates().map(|t| t.id().to_string())).collect();
    api_ids.sort_by(|a, b| (id_num(a), a).cmp(&(id_num(b), b)));
    let ids: Vec<String> = v.iter().map(|p| p.id.clone()).collect();
    if api_ids != ids {
        return Err(format!("API ids {api_ids:?} differ from core ids {ids:?}"));
    }
    Ok(v)
}

fn diff_abs(a: &[APol], b: &[APol]) -> String {
    if a.len() != b.len() {
        return format!("number of policies {} -> {}", a.len(), b.len());
    }
    for (i, (x, y)) in a.iter().zip(b.iter()).enumerate() {
        if x.id != y.id {
            return format!("policy #{i}: id {} -> {}", x.id, y.id);
        }
        if x.permit != y.permit {
            return format!("policy #{i}: effect changed");
        }
        if x.annotations != y.annotations {
            return format!("policy #{i}: annotations {:?} -> {:?}", x.annotations, y.annotations);
        }
        if x.principal != y.principal {
            return format!("policy #{i}: principal constraint {:?} -> {:?}", x.principal, y.principal);
        }
        if x.action != y.action {
            return format!("policy #{i}: action constraint {:?} -> {:?}", x.action, y.action);
        }
        if x.resource != y.resource {
            return format!("policy #{i}: resource constraint {:?} -> {:?}", x.resource, y.resource);
        }
        if x.body != y.body {
            return format!("policy #{i}: when/unless body {:?} -> {:?}", x.body, y.body);
        }
        if x.condition != y.condition || x.slots != y.slots {
            return format!("policy #{i}: condition {:?} -> {:?}", x.condition, y.condition);
        }
    }
    "no difference".into()
}

// ------------------------------------------------------------------------------------------
// program generator
// ------------------------------------------------------------------------------------------

#[derive(Clone, Debug)]
pub struct Prog {
    /// coarse class used in fingerprints
    pub class: String,
    pub label: String,
    pub text: String,
    /// member of the small program set (quick tier; 2-comment runs of the thorough tier)
    pub small: bool,
}

struct Shape {
    name: &'static str,
    arity: usize,
    build: fn(&[E]) -> E,
}

fn shapes() -> Vec<Shape> {
    fn s(name: &'static str, arity: usize, build: fn(&[E]) -> E) -> Shape {
        Shape { name, arity, build }
    }
    fn bx(e: &E) -> Box<E> {
        Box::new(e.clone())
    }
    vec![
        s("not", 1, |a| E::Not(bx(&a[0]))),
        s("neg", 1, |a| E::Neg(bx(&a[0]))),
        s("isEmpty", 1, |a| E::IsEmpty(bx(&a[0]))),
        s("like", 1, |a| E::Like(bx(&a[0]), vec![Pat::Char('a'), Pat::Star, Pat::Char('*'), Pat::Char('"'), Pat::Char('/'), Pat::Char('/')])),
        s("is", 1, |a| E::Is(bx(&a[0]), "User".into())),
        s("is-ns", 1, |a| E::Is(bx(&a[0]), "NS::Sub::Thing".into())),
        s("dot", 1, |a| E::GetAttr(bx(&a[0]), "abc".into())),
        s("index", 1, |a| E::GetAttr(bx(&a[0]), "k y".into())),
        s("has", 1, |a| E::Has(bx(&a[0]), vec!["abc".into()])),
        s("has-str", 1, |a| E::Has(bx(&a[0]), vec!["k y".into()])),
        s("has-path", 1, |a| E::Has(bx(&a[0]), vec!["a".into(), "b".into(), "c".into()])),
        s("method0", 1, |a| E::Ext("isIpv4".into(), vec![a[0].clone()])),
        s("ctor", 1, |a| E::Ext("ip".into(), vec![a[0].clone()])),
        s("and", 2, |a| E::And(bx(&a[0]), bx(&a[1]))),
        s("or", 2, |a| E::Or(bx(&a[0]), bx(&a[1]))),
        s("eq", 2, |a| E::bin(BinOp::Eq, a[0].clone(), a[1].clone())),
        s("neq", 2, |a| E::bin(BinOp::Neq, a[0].clone(), a[1].clone())),
        s("lt", 2, |a| E::bin(BinOp::Lt, a[0].clone(), a[1].clone())),
        s("le", 2, |a| E::bin(BinOp::Le, a[0].clone(), a[1].clone())),
        s("gt", 2, |a| E::bin(BinOp::Gt, a[0].clone(), a[1].clone())),
        s("ge", 2, |a| E::bin(BinOp::Ge, a[0].clone(), a[1].clone())),
        s("in", 2, |a| E::bin(BinOp::In, a[0].clone(), a[1].clone())),
        s("add", 2, |a| E::bin(BinOp::Add, a[0].clone(), a[1].clone())),
        s("sub", 2, |a| E::bin(BinOp::Sub, a[0].clone(), a[1].clone())),
        s("mul", 2, |a| E::bin(BinOp::Mul, a[0].clone(), a[1].clone())),
        s("contains", 2, |a| E::bin(BinOp::Contains, a[0].clone(), a[1].clone())),
        s("containsAll", 2, |a| E::bin(BinOp::ContainsAll, a[0].clone(), a[1].clone())),
        s("containsAny", 2, |a| E::bin(BinOp::ContainsAny, a[0].clone(), a[1].clone())),
        s("getTag", 2, |a| E::bin(BinOp::GetTag, a[0].clone(), a[1].clone())),
        s("hasTag", 2, |a| E::bin(BinOp::HasTag, a[0].clone(), a[1].clone())),
        s("isin", 2, |a| E::IsIn(bx(&a[0]), "User".into(), bx(&a[1]))),
        s("method1", 2, |a| E::Ext("isInRange".into(), vec![a[0].clone(), a[1].clone()])),
        s("if", 3, |a| E::If(bx(&a[0]), bx(&a[1]), bx(&a[2]))),
        s("set0", 0, |_| E::Set(vec![])),
        s("set1", 1, |a| E::Set(vec![a[0].clone()])),
        s("set2", 2, |a| E::Set(vec![a[0].clone(), a[1].clone()])),
        s("rec0", 0, |_| E::Rec(vec![])),
        s("rec1", 1, |a| E::Rec(vec![("abc".into(), a[0].clone())])),
        s("rec2", 2, |a| E::Rec(vec![("k y".into(), a[0].clone()), ("b".into(), a[1].clone())])),
    ]
}

fn leaves() -> Vec<E> {
    vec![
        E::Var(Var::Principal),
        E::Long(1),
        E::str("a b"),
        E::Bool(true),
        E::Long(-1),
        E::str("x//y\"z"),
        E::Var(Var::Context),
        E::ent("User", "a"),
        E::ent("NS::Sub::Thing", "t//\"u"),
    ]
}

fn fillers() -> [E; 3] {
    [E::Var(Var::Principal), E::Long(1), E::str("a b")]
}

fn minimal() -> Style {
    Style { paren: Paren::Minimal, index_attrs: false, escape_all: false, ..Default::default() }
}

fn when_policy(e: &E, st: &Style, effect: Effect) -> String {
    Pol::simple("p", effect, Some(e.clone())).text(st)
}

fn scope_forms() -> (Vec<PR>, Vec<AS>, Vec<PR>) {
    let a = Uid::new("User", "a");
    let g = Uid::new("Group", "g");
    let d = Uid::new("Doc", "d");
    let view = Uid::new("Action", "view");
    let edit = Uid::new("NS::Action", "edit");
    let p = vec![
        PR::Any,
        PR::Eq(Ref::Uid(a.clone())),
        PR::In(Ref::Uid(g.clone())),
        PR::Is("User".into()),
        PR::IsIn("NS::Sub::Thing".into(), Ref::Uid(g.clone())),
        PR::Eq(Ref::Slot),
        PR::In(Ref::Slot),
        PR::IsIn("User".into(), Ref::Slot),
    ];
    let acts = vec![AS::Any, AS::Eq(view.clone()), AS::In(view.clone()), AS::InList(vec![]), AS::InList(vec![view.clone()]), AS::InList(vec![view.clone(), edit.clone()])];
    let r = vec![
        PR::Any,
        PR::Eq(Ref::Uid(d.clone())),
        PR::In(Ref::Uid(g.clone())),
        PR::Is("NS::Sub::Thing".into()),
        PR::IsIn("Doc".into(), Ref::Uid(g.clone())),
        PR::Eq(Ref::Slot),
        PR::In(Ref::Slot),
        PR::IsIn("Doc".into(), Ref::Slot),
    ];
    (p, acts, r)
}

fn cond_bodies() -> Vec<E> {
    vec![
        E::Bool(true),
        E::bin(BinOp::Eq, E::attr(E::Var(Var::Principal), "abc"), E::Long(1)),
        E::has(E::Var(Var::Context), "b"),
        E::and(E::bin(BinOp::In, E::Var(Var::Resource), E::ent("Group", "g")), E::Like(Box::new(E::attr(E::Var(Var::Context), "s")), vec![Pat::Char('x'), Pat::Star])),
    ]
}

pub fn programs() -> Vec<Prog> {
    let mut out: Vec<Prog> = Vec::new();
    let sh = shapes();
    let lv = leaves();
    let fill = fillers();
    let min = minimal();
    let full = Style { paren: Paren::Full, index_attrs: false, escape_all: false, ..Default::default() };
    let red = Style { paren: Paren::Redundant, index_attrs: false, escape_all: false, ..Default::default() };
    let idx = Style { paren: Paren::Minimal, index_attrs: true, escape_all: false, ..Default::default() };
    let d1: Vec<E> = sh.iter().map(|s| (s.build)(&fill[..])).collect();
    let push = |class: &str, label: String, text: String, small: bool, out: &mut Vec<Prog>| {
        out.push(Prog { class: class.to_string(), label, text, small });
    };
    // ---- depth 1: every shape, default operands, all parenthesisation modes (small set)
    for (si, s) in sh.iter().enumerate() {
        let eff = if si % 2 == 0 { Effect::Permit } else { Effect::Forbid };
        push(&format!("expr:{}", s.name), format!("d1:{}:min", s.name), when_policy(&d1[si], &min, eff), true, &mut out);
        push(&format!("expr:{}", s.name), format!("d1:{}:full", s.name), when_policy(&d1[si], &full, eff), true, &mut out);
        push(&format!("expr:{}", s.name), format!("d1:{}:redundant", s.name), when_policy(&d1[si], &red, eff), true, &mut out);
        push(&format!("expr:{}", s.name), format!("d1:{}:index", s.name), when_policy(&d1[si], &idx, eff), true, &mut out);
    }
    // ---- depth 1: every leaf in every operand position
    let mut pos_no = 0usize;
    for s in sh.iter() {
        for p in 0..s.arity {
            for (li, leaf) in lv.iter().enumerate() {
                let mut args: Vec<E> = fill.to_vec();
                args[p] = leaf.clone();
                let e = (s.build)(&args);
                // small set: one leaf per position, rotating through the leaves
                let small = li == pos_no % lv.len();
                push(&format!("expr:{}", s.name), format!("leaf:{}/{}/{}:min", s.name, p, li), when_policy(&e, &min, Effect::Permit), small, &mut out);
            }
            pos_no += 1;
        }
    }
    // ---- depth 2: parent x position x child
    let mut pos_no = 0usize;
    for s in sh.iter() {
        for p in 0..s.arity {
            for (ci, c) in sh.iter().enumerate() {
                let mut args: Vec<E> = fill.to_vec();
                args[p] = d1[ci].clone();
                let e = (s.build)(&args);
                // small set: three children per parent position, rotating through all children
                let small = (0..3).any(|k| ci == (pos_no * 3 + k) % sh.len());
                push(&format!("expr:{}", s.name), format!("d2:{}/{}/{}:min", s.name, p, c.name), when_policy(&e, &min, Effect::Permit), small, &mut out);
                // the other parenthesisation modes alternate over the nestings
                let (st, nm) = if (pos_no + ci) % 2 == 0 { (&full, "full") } else { (&red, "redundant") };
                push(&format!("expr:{}", s.name), format!("d2:{}/{}/{}:{nm}", s.name, p, c.name), when_policy(&e, st, Effect::Permit), false, &mut out);
            }
            pos_no += 1;
        }
    }
    // ---- scope forms
    let (ps, acts, rs) = scope_forms();
    let bodies = cond_bodies();
    let mut scopes: Vec<(PR, AS, PR)> = Vec::new();
    for p in &ps {
        scopes.push((p.clone(), AS::Any, PR::Any));
    }
    for a in &acts {
        scopes.push((PR::Any, a.clone(), PR::Any));
    }
    for r in &rs {
        scopes.push((PR::Any, AS::Any, r.clone()));
    }
    for i in 0..8 {
        scopes.push((ps[i].clone(), acts[i % acts.len()].clone(), rs[(i + 3) % rs.len()].clone()));
    }
    for (i, (p, a, r)) in scopes.iter().enumerate() {
        let eff = if i % 2 == 0 { Effect::Permit } else { Effect::Forbid };
        let mut pol = Pol { id: "p".into(), effect: eff, annotations: vec![], principal: p.clone(), action: a.clone(), resource: r.clone(), conds: vec![] };
        push("scope", format!("scope:{i}"), pol.text(&min), true, &mut out);
        pol.conds = vec![(i % 3 != 0, bodies[i % bodies.len()].clone())];
        push("scope", format!("scope:{i}:cond"), pol.text(&min), i >= 22, &mut out);
    }
    // full product of scope forms (thorough)
    for (pi, p) in ps.iter().enumerate() {
        for (ai, a) in acts.iter().enumerate() {
            for (ri, r) in rs.iter().enumerate() {
                let pol = Pol { id: "p".into(), effect: Effect::Permit, annotations: vec![], principal: p.clone(), action: a.clone(), resource: r.clone(), conds: vec![] };
                push("scope", format!("scope:{pi}x{ai}x{ri}"), pol.text(&min), false, &mut out);
            }
        }
    }
    // ---- annotations
    let some = |s: &str| Some(s.to_string());
    let annots: Vec<Vec<(String, Option<String>)>> = vec![
        vec![("a".into(), None)],
        vec![("a".into(), some("v"))],
        vec![("if".into(), some("x"))],
        vec![("permit".into(), None), ("b".into(), some("2"))],
        vec![("a".into(), some("q\"//z")), ("b".into(), None)],
        vec![("a".into(), some("")), ("b".into(), some("two words")), ("c".into(), None)],
    ];
    for (i, an) in annots.iter().enumerate() {
        let pol = Pol { id: "p".into(), effect: Effect::Permit, annotations: an.clone(), principal: PR::Any, action: AS::Any, resource: PR::Any, conds: vec![(true, bodies[1].clone())] };
        push("annotation", format!("annot:{i}"), pol.text(&min), true, &mut out);
        let pol2 = Pol { conds: vec![], principal: ps[1].clone(), effect: Effect::Forbid, ..pol.clone() };
        // annotations on one line with the policy
        push("annotation", format!("annot:{i}:oneline"), pol2.text(&min).replace('\n', " "), true, &mut out);
    }
    // ---- multiple when / unless
    let cond_lists: Vec<Vec<usize>> = vec![vec![0], vec![1], vec![0, 0], vec![0, 1], vec![1, 0], vec![1, 1], vec![1, 0, 1], vec![0, 0, 0]];
    for (i, cl) in cond_lists.iter().enumerate() {
        let conds: Vec<(bool, E)> = cl.iter().enumerate().map(|(j, w)| (*w == 0, bodies[(i + j) % bodies.len()].clone())).collect();
        let pol = Pol { id: "p".into(), effect: Effect::Permit, annotations: vec![], principal: PR::Any, action: AS::Any, resource: PR::Any, conds };
        push("conds", format!("conds:{i}"), pol.text(&min), true, &mut out);
    }
    // ---- policy sets of 1..3 policies
    let pool: Vec<String> = vec![
        "permit(principal, action, resource);".into(),
        Pol { id: "p".into(), effect: Effect::Forbid, annotations: vec![], principal: ps[1].clone(), action: AS::Any, resource: PR::Any, conds: vec![(true, bodies[0].clone())] }.text(&min),
        Pol { id: "p".into(), effect: Effect::Permit, annotations: vec![("id".into(), some("x"))], principal: PR::Any, action: acts[4].clone(), resource: PR::Any, conds: vec![(false, bodies[1].clone())] }.text(&min),
        Pol { id: "p".into(), effect: Effect::Permit, annotations: vec![], principal: ps[5].clone(), action: AS::Any, resource: rs[6].clone(), conds: vec![] }.text(&min),
        Pol { id: "p".into(), effect: Effect::Forbid, annotations: vec![], principal: PR::Any, action: AS::Any, resource: PR::Any, conds: vec![(true, bodies[2].clone()), (false, bodies[3].clone())] }.text(&min),
        Pol { id: "p".into(), effect: Effect::Permit, annotations: vec![("a".into(), None)], principal: ps[7].clone(), action: acts[5].clone(), resource: rs[4].clone(), conds: vec![(true, E::ite(bodies[2].clone(), bodies[1].clone(), E::Bool(false)))] }.text(&min),
    ];
    let seps = ["\n", "\n\n", " "];
    for (i, a) in pool.iter().enumerate() {
        for (j, b) in pool.iter().enumerate() {
            let sep = seps[(i + j) % 3];
            push("set", format!("set2:{i},{j}"), format!("{a}{sep}{b}"), i < 3 && j < 3, &mut out);
        }
    }
    for i in 0..4 {
        for j in 0..4 {
            for k in 0..4 {
                let text = format!("{}{}{}{}{}", pool[i], seps[(i + j) % 3], pool[(j + 2) % 6], seps[(j + k) % 3], pool[(k + 3) % 6]);
                push("set", format!("set3:{i},{j},{k}"), text, i < 2 && j < 2 && k < 2, &mut out);
            }
        }
    }
    // ---- hand-written texts: raw newlines / blank lines inside strings, chains, extreme literals
    let hand: Vec<(&str, String)> = vec![
        ("rawnl-string", "permit(principal, action, resource) when { \"a\n\n  b\" == context.s };".into()),
        ("rawnl-annotation", "@a(\"x\n\ny\")\npermit(principal, action, resource);".into()),
        ("rawnl-like", "permit(principal, action, resource) when { context.s like \"a*\n\n*b\" };".into()),
        ("rawnl-url-string", "permit(principal, action, resource) when { \"http://x\n\n  y\" == context.s && context.t like \"//*\n\n\" };".into()),
        ("rawnl-url-annotation", "@a(\"see //x\n\n\ty\")\n@b(\"\n\n\")\npermit(principal, action, resource);".into()),
        ("lex-idents", "@_a1(\"x\")\npermit(principal in _NS::T_1::\"x\", action, resource) when { principal._x9 == context.A_b && {_k: 1}._k == 1 && context has _y && resource is _NS::T_1 };".into()),
        ("lex-strings", "permit(principal, action, resource == User::\"a b\\\"c\\\\\") when { \"\\n\\r\\t\\\\\\0\\'\\\"\\u{1F600}\u{e9}\u{1F600}\" == \"'\" && context.s like \"\\*a*\\u{2a}\" };".into()),
        ("lex-numbers", "permit(principal, action, resource) when { 007 + 0 == 7 && 9223372036854775807 > 1 && -0 == 0 };".into()),
        ("and-chain", "permit(principal, action, resource) when { principal.a && principal.b && principal.c && principal.d && principal.e };".into()),
        ("or-chain", "permit(principal, action, resource) when { principal.a || principal.b || principal.c || principal.d };".into()),
        ("add-chain", "permit(principal, action, resource) when { 1 + 2 - 3 + context.n - 4 * 5 * -6 == 0 };".into()),
        ("member-chain", "permit(principal, action, resource) when { principal.a.b[\"c d\"].e.contains(resource.f.g) };".into()),
        ("if-chain", "permit(principal, action, resource) when { if context.a then 1 else if context.b then 2 else if context.c then 3 else 4 };".into()),
        ("unary-stack", "permit(principal, action, resource) when { !!!!context.a && ----1 == 1 && -9223372036854775808 < 0 };".into()),
        ("nested-list", "permit(principal, action, resource) when { [[1, 2], [3], [], [[\"a\"]]].contains([1, 2]) };".into()),
        ("nested-record", "permit(principal, action, resource) when { {a: {b: {c: 1, \"d e\": [1, {f: 2}]}}, g: true}.a.b.c == 1 };".into()),
        ("long-string", format!("permit(principal, action, resource) when {{ context.s == \"{}\" }};", "long ".repeat(30))),
        ("ext-calls", "permit(principal, action, resource) when { ip(\"10.0.0.1\").isInRange(ip(\"10.0.0.0/8\")) && decimal(\"1.5\").lessThan(decimal(\"2.0\")) && datetime(\"2024-01-01\").offset(duration(\"1h\")) > context.t };".into()),
        ("paren-nest", "permit(principal, action, resource) when { (((1 + 2)) * (3)) == ((9)) };".into()),
        ("is-in-expr", "permit(principal, action, resource) when { principal is NS::Sub::Thing in [Group::\"g\", Group::\"h\"] || resource is Doc };".into()),
        ("trailing-ws", "  \n\tpermit ( principal ,action,resource )\twhen{true}\n ;  \n\n".into()),
    ];
    for (name, text) in hand {
        push("hand", format!("hand:{name}"), text, true, &mut out);
    }
    // dedup by text (first label wins; small if any duplicate is small)
    let mut seen: HashMap<String, usize> = HashMap::new();
    let mut dedup: Vec<Prog> = Vec::new();
    for p in out {
        match seen.get(&p.text) {
            Some(i) => {
                if p.small {
                    dedup[*i].small = true;
                }
            }
            None => {
                seen.insert(p.text.clone(), dedup.len());
                dedup.push(p);
            }
        }
    }
    dedup
}

// ------------------------------------------------------------------------------------------
// configurations
// ------------------------------------------------------------------------------------------

const WIDTHS: [usize; 6] = [1, 10, 40, 80, 120, 1000];
const INDENTS: [isize; 5] = [0, 1, 2, 4, 8];

fn configs_quick() -> Vec<Config> {
    [(1usize, 2isize), (10, 0), (40, 4), (80, 2), (120, 8), (1000, 1)].iter().map(|(w, i)| Config { line_width: *w, indent_width: *i }).collect()
}

fn configs_all() -> Vec<Config> {
    let mut v = Vec::new();
    for w in WIDTHS {
        for i in INDENTS {
            v.push(Config { line_width: w, indent_width: i });
        }
    }
    v
}

/// the "other" configuration an output is formatted with once more
fn cross(c: &Config) -> Config {
    let wi = WIDTHS.iter().position(|w| *w == c.line_width).unwrap_or(0);
    let ii = INDENTS.iter().position(|w| *w == c.indent_width).unwrap_or(0);
    Config { line_width: WIDTHS[(wi + 3) % WIDTHS.len()], indent_width: INDENTS[(ii + 1) % INDENTS.len()] }
}

// ------------------------------------------------------------------------------------------
// the oracle for one (input text, config)
// ------------------------------------------------------------------------------------------

pub struct Fail {
    pub kind: String,
    pub what: String,
}

pub struct Passed {
    pub class: String,
    pub output: String,
}

fn chain(e: &miette::Report) -> String {
    // the generic "internal error: please file an issue" wrapper says nothing about what failed
    e.chain().map(|c| c.to_string()).filter(|m| !m.starts_with("internal error: please file an issue")).collect::<Vec<_>>().join(": ")
}

fn head(s: &str) -> String {
    s.lines().next().unwrap_or("").chars().take(60).collect()
}

struct Oracle<'a> {
    ctx: &'a Ctx,
    in_abs: &'a [APol],
    in_comments: &'a [String],
    /// outputs already verified against this input (the checks on an output do not depend on the config)
    memo: HashMap<String, bool>,
    calls: u64,
}

impl<'a> Oracle<'a> {
    fn fmt(&mut self, stage: &str, text: &str, cfg: &Config) -> Result<String, Fail> {
        self.calls += 1;
        let r = self.ctx.guard(
            "policies_str_to_pretty",
            || json!({"text": text, "line_width": cfg.line_width, "indent_width": cfg.indent_width}),
            || policies_str_to_pretty(text, cfg).map_err(|e| chain(&e)),
        );
        match r {
            None => Err(Fail { kind: format!("{stage}panicked"), what: "formatter panicked (reported separately)".into() }),
            Some(Err(e)) => Err(Fail { kind: format!("{stage}fmt-error[{}]", head(&e)), what: format!("formatter returned Err: {e}") }),
            Some(Ok(s)) => Ok(s),
        }
    }

    fn verify(&mut self, stage: &str, out: &str) -> Result<(), Fail> {
        if self.memo.contains_key(out) {
            return Ok(());
        }
        let abs = match abs_set(out) {
            Ok(a) => a,
            Err(e) => return Err(Fail { kind: format!("{stage}output-unparseable"), what: format!("output does not parse: {}\noutput:\n{out}", head(&e)) }),
        };
        if abs != self.in_abs {
            return Err(Fail { kind: format!("{stage}meaning-changed"), what: format!("{}\noutput:\n{out}", diff_abs(self.in_abs, &abs)) });
        }
        let cs = scan_comments(out);
        if cs != self.in_comments {
            return Err(Fail { kind: format!("{stage}comments-changed"), what: format!("comments of the input {:?}, of the output {:?}\noutput:\n{out}", self.in_comments, cs) });
        }
        self.memo.insert(out.to_string(), true);
        Ok(())
    }

    fn check(&mut self, input: &str, cfg: &Config) -> Result<Passed, Fail> {
        let out = self.fmt("", input, cfg)?;
        self.verify("", &out)?;
        // the same configuration again
        let out2 = self.fmt("refmt:", &out, cfg)?;
        if out2 != out {
            if self.in_comments.is_empty() {
                return Err(Fail { kind: "not-idempotent".into(), what: format!("fmt(fmt(x)) != fmt(x) on comment-free text\nfmt(x):\n{out}\nfmt(fmt(x)):\n{out2}") });
            }
            self.verify("refmt:", &out2)?;
        }
        // another configuration on the output
        let x = cross(cfg);
        let out3 = self.fmt("xrefmt:", &out, &x)?;
        self.verify("xrefmt:", &out3)?;
        let n = self.in_comments.len();
        let class = format!(
            "comments={}:{}:{}",
            if n >= 3 { "3+".to_string() } else { n.to_string() },
            if out.trim_end() == input.trim_end() { "input-was-fixpoint" } else { "rewritten" },
            if out2 == out { "stable" } else { "second-pass-differs" }
        );
        Ok(Passed { class, output: out })
    }
}

// ------------------------------------------------------------------------------------------
// explorer
// ------------------------------------------------------------------------------------------

struct Prep {
    prog: Prog,
    toks: Vec<(usize, usize)>,
    abs: Vec<APol>,
}

struct Shared<'a> {
    ctx: &'a Ctx,
    /// smallest failing input per fingerprint
    best: Mutex<BTreeMap<String, (usize, String, J)>>,
    machinery: Mutex<Vec<String>>,
    fails: AtomicU64,
}

impl<'a> Shared<'a> {
    fn machinery(&self, m: String) {
        let mut v = self.machinery.lock().unwrap();
        if v.len() < 50 {
            v.push(m);
        }
    }

    /// run all configs on one input text
    #[allow(clippy::too_many_arguments)]
    fn run_input(&self, l: &mut Local, p: &Prep, input: &str, expect_comments: &[String], site: &str, desc: &J, cfgs: &[Config], sample: bool) {
        // harness self-checks: the scanner finds exactly the inserted comments, and the
        // commented / re-laid-out text still parses to the program's policies
        let found = scan_comments(input);
        if found != expect_comments {
            self.machinery(format!("comment scanner found {found:?}, inserted {expect_comments:?} in:\n{input}"));
            return;
        }
        if input != p.prog.text {
            match abs_set(input) {
                Ok(a) if a == p.abs => {}
                Ok(a) => {
                    self.machinery(format!("input with comments/layout parses differently from its base ({}):\n{input}", diff_abs(&p.abs, &a)));
                    return;
                }
                Err(e) => {
                    self.machinery(format!("input with comments/layout does not parse ({}):\n{input}", head(&e)));
                    return;
                }
            }
        }
        let mut o = Oracle { ctx: self.ctx, in_abs: &p.abs, in_comments: expect_comments, memo: HashMap::new(), calls: 0 };
        for (ci, cfg) in cfgs.iter().enumerate() {
            let key = hash_of(&(input, cfg.line_width, cfg.indent_width));
            match o.check(input, cfg) {
                Ok(pass) => {
                    let nontrivial = !expect_comments.is_empty() || pass.output.trim_end() != input.trim_end();
                    l.case(key, &pass.class, nontrivial);
                    if sample && ci == 0 {
                        self.ctx.sample(json!({"program": p.prog.label, "input": input, "line_width": cfg.line_width, "indent_width": cfg.indent_width, "output": pass.output}));
                    }
                }
                Err(f) => {
                    l.case(key, &format!("FAIL:{}", f.kind.split('[').next().unwrap_or("")), true);
                    self.fails.fetch_add(1, Ordering::Relaxed);
                    if f.kind.ends_with("panicked") {
                        continue;
                    }
                    let fp = if expect_comments.is_empty() { format!("{}:{}", f.kind, p.prog.class) } else { format!("{}:{}", f.kind, site) };
                    let what = format!("{} [program {}, {}, line_width={} indent_width={}]\ninput:\n{}", f.what, p.prog.label, desc, cfg.line_width, cfg.indent_width, input);
                    let replay = json!({"text": input, "line_width": cfg.line_width, "indent_width": cfg.indent_width, "program": p.prog.label, "base": p.prog.text, "comments": desc});
                    let mut b = self.best.lock().unwrap();
                    let better = match b.get(&fp) {
                        Some((len, _, _)) => input.len() < *len,
                        None => b.len() < 4000,
                    };
                    if better {
                        b.insert(fp, (input.len(), what, replay));
                    }
                }
            }
        }
        l.transitions += o.calls;
    }
}

fn prepare(progs: Vec<Prog>, machinery: &Mutex<Vec<String>>) -> Vec<Prep> {
    progs
        .into_par_iter()
        .filter_map(|prog| {
            let toks = match tokenize(&prog.text) {
                Ok(t) => t,
                Err(e) => {
                    machinery.lock().unwrap().push(format!("own tokenizer failed on generated program {}: {e}\n{}", prog.label, prog.text));
                    return None;
                }
            };
            match abs_set(&prog.text) {
                Ok(abs) => Some(Prep { prog, toks, abs }),
                Err(e) => {
                    machinery.lock().unwrap().push(format!("generated program {} rejected by the parser: {}\n{}", prog.label, head(&e), prog.text));
                    None
                }
            }
        })
        .collect()
}

pub fn run(tier: Tier, replay_file: Option<&str>) -> i32 {
    if let Some(p) = replay_file {
        return replay(p);
    }
    let ctx = Ctx::new("C12", tier);
    quiet_panics();
    let machinery0: Mutex<Vec<String>> = Mutex::new(Vec::new());
    let all = programs();
    let n_generated = all.len();
    let selected: Vec<Prog> = match tier {
        Tier::Quick => all.into_iter().filter(|p| p.small).collect(),
        Tier::Thorough => all,
    };
    // debugging aid: restrict to programs whose label contains the given text (the run is then
    // reported as capped / not exhaustive)
    let selected: Vec<Prog> = match std::env::var("C12_ONLY") {
        Ok(f) if !f.is_empty() => {
            ctx.cap_hit(&format!("C12_ONLY={f}: only programs whose label contains this text were run"));
            selected.into_iter().filter(|p| p.label.contains(&f)).collect()
        }
        _ => selected,
    };
    let preps = prepare(selected, &machinery0);
    let sh = Shared { ctx: &ctx, best: Mutex::new(BTreeMap::new()), machinery: Mutex::new(machinery0.into_inner().unwrap()), fails: AtomicU64::new(0) };
    let cfgs: Vec<Config> = tier.pick(configs_quick(), configs_all());
    let cfgs6 = configs_quick();
    let kinds: &[K] = match tier {
        Tier::Quick => &KINDS_QUICK[..],
        Tier::Thorough => &KINDS_THOROUGH[..],
    };
    let n_small = preps.iter().filter(|p| p.prog.small).count();
    let boundaries: usize = preps.iter().map(|p| p.toks.len() + 1).sum();
    ctx.set_info("programs_generated", json!(n_generated));
    ctx.set_info("programs_run", json!(preps.len()));
    ctx.set_info("programs_small_set", json!(n_small));
    ctx.set_info("token_boundaries", json!(boundaries));
    ctx.set_info("configs", json!(cfgs.iter().map(|c| json!([c.line_width, c.indent_width])).collect::<Vec<_>>()));
    let rot = |n: usize| if n == 0 { 0 } else { (ctx.seed as usize) % n };

    // ---- phase A: no comment, four whitespace layouts
    let mut items_a: Vec<(usize, usize)> = Vec::new();
    for pi in 0..preps.len() {
        for lay in 0..4 {
            items_a.push((pi, lay));
        }
    }
    let r = rot(items_a.len());
    items_a.rotate_left(r);
    let na = items_a.len();
    items_a.par_iter().enumerate().for_each(|(n, &(pi, lay))| {
        let p = &preps[pi];
        let input = layout(&p.prog.text, &p.toks, lay);
        let mut l = Local::default();
        let lay_name = ["as-printed", "compact", "token-per-line", "blank-lines"][lay];
        let desc = json!({"comments": 0, "layout": lay_name});
        sh.run_input(&mut l, p, &input, &[], "", &desc, &cfgs, n == 0 || n == na / 2);
        ctx.merge(l);
    });

    // ---- phase B: one comment group of every kind at every token boundary
    let mut items_b: Vec<(usize, usize)> = Vec::new();
    for (pi, p) in preps.iter().enumerate() {
        for b in 0..=p.toks.len() {
            items_b.push((pi, b));
        }
    }
    let r = rot(items_b.len());
    items_b.rotate_left(r);
    let nb = items_b.len();
    items_b.par_iter().enumerate().for_each(|(n, &(pi, b))| {
        let p = &preps[pi];
        let mut l = Local::default();
        let st = site(&p.prog.text, &p.toks, b);
        for (ki, kind) in kinds.iter().enumerate() {
            let (input, expect) = insert(&p.prog.text, &p.toks, &[(b, *kind)]);
            let desc = json!({"comments": 1, "boundary": b, "of": p.toks.len(), "kind": format!("{kind:?}"), "between": st});
            // thorough: the full 30-config grid for the small program set and, on every program,
            // for the two basic kinds; the other kinds x the 6-config cut on the remaining programs
            let cs: &[Config] = if p.prog.small || matches!(kind, K::Eol | K::Own) { &cfgs } else { &cfgs6 };
            sh.run_input(&mut l, p, &input, &expect, &st, &desc, cs, ki == 1 && (n == 0 || n == nb / 3 || n == nb / 2 || n + 1 == nb));
        }
        ctx.merge(l);
    });

    // ---- phase C (thorough): two comment groups at every pair of boundaries, small program set
    let kinds2 = [K::Eol, K::Own];
    if tier == Tier::Thorough {
        let mut items_c: Vec<(usize, usize)> = Vec::new();
        for (pi, p) in preps.iter().enumerate() {
            if p.prog.small {
                for b in 0..=p.toks.len() {
                    items_c.push((pi, b));
                }
            }
        }
        let r = rot(items_c.len());
        items_c.rotate_left(r);
        let nc = items_c.len();
        items_c.par_iter().enumerate().for_each(|(n, &(pi, b1))| {
            let p = &preps[pi];
            let mut l = Local::default();
            let s1 = site(&p.prog.text, &p.toks, b1);
            for b2 in b1..=p.toks.len() {
                let s2 = site(&p.prog.text, &p.toks, b2);
                for k1 in kinds2 {
                    for k2 in kinds2 {
                        let (input, expect) = insert(&p.prog.text, &p.toks, &[(b1, k1), (b2, k2)]);
                        let st = format!("{s1} + {s2}");
                        let desc = json!({"comments": 2, "boundaries": [b1, b2], "of": p.toks.len(), "kinds": [format!("{k1:?}"), format!("{k2:?}")], "between": [s1, s2]});
                        sh.run_input(&mut l, p, &input, &expect, &st, &desc, &cfgs6, n == nc / 2 && b2 == b1 + 1 && k1 == K::Eol && k2 == K::Own);
                    }
                }
            }
            ctx.merge(l);
        });
    }

    // ---- verdict
    let machinery = sh.machinery.lock().unwrap().clone();
    if !machinery.is_empty() {
        eprintln!("MACHINERY ERROR: C12 harness self-checks failed ({} shown):", machinery.len());
        for m in machinery.iter().take(10) {
            eprintln!("  {m}");
        }
        return 2;
    }
    let best = std::mem::take(&mut *sh.best.lock().unwrap());
    ctx.set_info("failing_cases", json!(sh.fails.load(Ordering::Relaxed)));
    ctx.set_info("failing_fingerprints", json!(best.len()));
    // shortest inputs first, so that the 25 retained violations are the smallest reproducers
    let mut v: Vec<(String, (usize, String, J))> = best.into_iter().collect();
    v.sort_by_key(|(_, (len, _, _))| *len);
    for (fp, (_, what, replay)) in v {
        ctx.violation(fp, what, replay);
    }
    let two = tier == Tier::Thorough;
    ctx.finish(
        "case = (input text, line_width, indent_width); every case runs format, format-again (same config) and format-again (another config) and compares each output with the input by own abstraction of the parsed policies and own comment scanner; non-trivial = the input holds at least one comment or the formatter rewrote the text",
        json!({
            "tier": tier.name(),
            "programs": preps.len(),
            "program_space": "operator shapes (39) x leaves (9) in every operand position at depth 1; parent x position x child shape at depth 2; parenthesisation minimal/full/redundant + index-style attributes; 30 single-slot scope forms (+ full 8x6x8 product in thorough); 12 annotation forms; 8 when/unless lists; policy sets of 2 and 3 from a pool of 6 (templates included); 21 hand-written texts. quick = the small set (all depth-1 shapes in 4 styles, one leaf per operand position, three child shapes per parent position in rotation, single-slot scope forms, annotations, cond lists, 9 pairs + 8 triples, hand-written texts)",
            "comments": {"zero": "4 whitespace layouts (as printed, compact, one token per line, blank lines between tokens)", "one": format!("{} kinds at every token boundary (incl. before the first and after the last token){}", kinds.len(), if two { "; all 30 configs for kinds Eol/Own on every program and for every kind on the small program set, the 6-config cut for the other kinds on the remaining programs" } else { "" }), "two": if two { "kinds {Eol,Own}^2 at every pair of boundaries b1<=b2 of the small program set, 6 configs" } else { "not in this tier" }},
            "comment_kinds": kinds.iter().map(|k| format!("{k:?}")).collect::<Vec<_>>(),
            "configs": format!("{} of line_width {{1,10,40,80,120,1000}} x indent_width {{0,1,2,4,8}}", cfgs.len()),
            "token_boundaries": boundaries,
        }),
        &[
            "the input's meaning is what cedar_policy::PolicySet::from_str makes of it (the parser is the subject of C05, not of C12)",
            "comment text is compared after trimming surrounding whitespace",
            "annotation order and `in X` vs `in [X]` in the action scope are not represented in the AST and not compared",
        ],
        true,
    )
}

// ------------------------------------------------------------------------------------------
// replay
// ------------------------------------------------------------------------------------------

fn replay(path: &str) -> i32 {
    let doc: J = match std::fs::read_to_string(path).ok().and_then(|s| serde_json::from_str(&s).ok()) {
        Some(d) => d,
        None => {
            eprintln!("cannot read replay file {path}");
            return 2;
        }
    };
    if doc["property"].as_str() != Some("C12") {
        eprintln!("replay file is not a C12 case");
        return 2;
    }
    let case = &doc["case"];
    let (Some(text), Some(w), Some(i)) = (case["text"].as_str(), case["line_width"].as_u64(), case["indent_width"].as_i64()) else {
        eprintln!("replay file holds no C12 case (text, line_width, indent_width)");
        return 2;
    };
    let cfg = Config { line_width: w as usize, indent_width: i as isize };
    println!("replaying C12 case: line_width={w} indent_width={i}\ninput:\n{text}");
    let in_abs = match abs_set(text) {
        Ok(a) => a,
        Err(e) => {
            eprintln!("the recorded input does not parse: {e}");
            return 2;
        }
    };
    let in_comments = scan_comments(text);
    let ctx = Ctx::new("C12", Tier::Quick);
    let mut o = Oracle { ctx: &ctx, in_abs: &in_abs, in_comments: &in_comments, memo: HashMap::new(), calls: 0 };
    match o.check(text, &cfg) {
        Ok(p) => {
            println!("output:\n{}", p.output);
            println!("no mismatch on replay ({})", p.class);
            0
        }
        Err(f) => {
            println!("  [{}] {}", f.kind, f.what);
            println!("VIOLATION property=C12 replay={path}");
            1
        }
    }
}
