//! C20 — no panics: every entry point returns Ok or Err on arbitrary input, every Ok object
//! survives the downstream pipeline, every Err / warning renders.
//!
//! Bounded-exhaustive sweeps (token sequences, JSON structural mutations, short byte strings,
//! single-byte substitutions, nesting to depth 48) are run in CHILD PROCESSES (this executable
//! re-invoked with MC_C20_CHILD=<spec>). Each child logs the case index before each case, so an
//! abort (stack overflow, OOM, SIGSEGV) is attributed to one input; a watchdog attributes
//! non-termination. Oracle: the call returns (catch_unwind sees no panic), the process survives,
//! and no single case needs more than 10 s when run alone.
#[path = "c20_ep.rs"]
mod ep;
#[path = "c20_gen.rs"]
mod gen;

use crate::harness::*;
use ep::{hex, unhex, Fix, Run, Seed};
use gen::*;
use serde_json::{json, Value as J};
use std::collections::{BTreeMap, VecDeque};
use std::os::unix::fs::FileExt;
use std::os::unix::process::ExitStatusExt;
use std::process::{Command, Stdio};
use std::sync::atomic::{AtomicU64, Ordering};
use std::sync::Mutex;
use std::time::{Duration, Instant};

const CHILD_ENV: &str = "MC_C20_CHILD";
/// a case that needs more CPU time than this when run alone is reported as non-termination
const ALONE_LIMIT_S: f64 = 10.0;
/// wall-clock cap of a single-case run (a case that sleeps / deadlocks instead of spinning)
const ALONE_WALL_CAP_S: f64 = 120.0;
/// a child whose case log does not advance for this long is killed and the case re-run alone
const STALL_S: f64 = 25.0;
/// allowance for a child to start up (load seeds, build its family and the fixtures) before its
/// first case is logged; generous because the machine may be heavily loaded
const STARTUP_S: f64 = 300.0;
/// address-space limit of a child (KiB) so that a runaway allocation aborts the child only
const CHILD_AS_LIMIT_KB: u64 = 8 * 1024 * 1024;
const MAX_ABORTS: u64 = 40;

// ---------------------------------------------------------------------------------------------
// families
// ---------------------------------------------------------------------------------------------
struct Spec {
    name: String,
    /// estimated cost of one case in microseconds (from instruction counts); sizes the shards
    cost: u64,
    build: Box<dyn Fn() -> Box<dyn Family> + Send + Sync>,
}

fn seq(name: String, alphabet: &'static [&'static str], extra: &'static [&'static str], max_len: u32, sep: &'static str, pos: (&'static str, &'static str, &'static str, u64), cost: u64) -> Spec {
    let n = name.clone();
    Spec {
        name,
        cost,
        build: Box::new(move || {
            let mut a: Vec<&'static str> = alphabet.to_vec();
            a.extend_from_slice(extra);
            Box::new(SeqFam { name: n.clone(), alphabet: a, min_len: 0, max_len, sep, prefix: pos.1, suffix: pos.2, route: pos.3, shard: 0 })
        }),
    }
}

fn is_est(name: &str) -> bool {
    name.starts_with("est-") || name.contains("policy-set") || name.starts_with("ffi-authorization") || name.starts_with("ffi-validation")
}

/// depths of the nesting generators: all of 1..=48 (thorough) or a cut of 16 depths (quick)
fn nest_depths(tier: Tier) -> Vec<usize> {
    match tier {
        Tier::Thorough => (1..=MAX_DEPTH).collect(),
        Tier::Quick => vec![1, 2, 3, 4, 5, 6, 8, 12, 16, 20, 24, 32, 40, 46, 47, 48],
    }
}

const FULL_TEXT: u64 = R_POLICY_FFI | R_CSCHEMA_FFI;

fn nest_family(tier: Tier) -> ListFam {
    let mut items: Vec<(Vec<u8>, u64)> = vec![];
    for d in nest_depths(tier) {
        for (_, e) in nested_exprs(d) {
            items.push((format!("{POLICY_HEAD} when {{ {e} }};").into_bytes(), R_POLICY));
            items.push((e.into_bytes(), R_EXPR | R_NAME));
        }
        for (_, p) in nested_policies(d) {
            items.push((p.into_bytes(), R_POLICY | R_POLICY_FFI));
        }
        for (_, s) in nested_schemas(d) {
            items.push((s.into_bytes(), R_CSCHEMA | R_CSCHEMA_FFI));
        }
        for (_, j, r) in nested_json(d) {
            items.push((j.into_bytes(), r | R_FILE));
        }
    }
    ListFam { name: "nest".into(), items, shard: 0 }
}

/// JSON seeds whose pairs of mutations are swept in the thorough tier (the FFI call documents
/// and the policy-set document embed the same sub-documents and are left to single mutations)
fn pairs_for(name: &str) -> bool {
    ["est-policy", "est-template", "schema-json", "entities-json", "entity-json", "context-json", "euid-json", "ffi-policy-set", "ffi-formatting-call", "ffi-context-parsing-call", "ffi-scope-variables-call"].contains(&name)
}

/// substitution alphabet of a seed document, by tier: None = no substitution family
fn subst_alphabet(tier: Tier, seed: &Seed) -> Option<Vec<u8>> {
    let all: Vec<u8> = (0..=255u8).collect();
    match (tier, seed.kind.as_str()) {
        (Tier::Thorough, "text") | (Tier::Thorough, "proto") => Some(all),
        (Tier::Thorough, _) => Some(if seed.bytes.len() <= 1300 { BYTE_ALPHABET_40.to_vec() } else { BYTE_ALPHABET_JSON_S.to_vec() }),
        (Tier::Quick, "text") => Some(BYTE_ALPHABET_TEXT_Q.to_vec()),
        (Tier::Quick, "proto") => Some(byte_alphabet_proto_q()),
        (Tier::Quick, _) => {
            if seed.bytes.len() <= 700 {
                Some(BYTE_ALPHABET_JSON_S.to_vec())
            } else {
                None
            }
        }
    }
}

fn specs(tier: Tier, seeds: &std::sync::Arc<Vec<Seed>>) -> Vec<Spec> {
    let q = tier == Tier::Quick;
    let mut v: Vec<Spec> = vec![];
    let tok_len = tier.pick(3, 4);
    let wide_len = tier.pick(2, 3);
    let esc_len = tier.pick(3, 5);
    for pos in policy_positions() {
        v.push(seq(format!("tok-policy:{}", pos.0), POLICY_TOKENS, &[], tok_len, " ", pos, if pos.0 == "top" { 2500 } else { 1500 }));
    }
    for pos in policy_positions_wide() {
        v.push(seq(format!("tok-policy-wide:{}", pos.0), POLICY_TOKENS_WIDE, POLICY_TOKENS_WIDE_EXTRA, wide_len, " ", pos, if pos.0 == "top" { 2500 } else { 1500 }));
    }
    for pos in schema_positions() {
        v.push(seq(format!("tok-schema:{}", pos.0), SCHEMA_TOKENS, &[], tok_len, " ", pos, 600));
    }
    for pos in schema_positions_wide() {
        v.push(seq(format!("tok-schema-wide:{}", pos.0), SCHEMA_TOKENS_WIDE, &[], wide_len, " ", pos, 600));
    }
    for pos in escape_positions() {
        v.push(seq(format!("escape:{}", pos.0), ESCAPE_CHARS, &[], esc_len, "", pos, 2500));
    }
    v.push(seq("ext-chars".into(), EXT_CHARS, &[], tier.pick(3, 5), "", ("", "", "", R_EXT), 150));
    v.push(Spec { name: "ext-subst".into(), cost: 150, build: Box::new(|| Box::new(ListFam { name: "ext-subst".into(), items: ext_mutations().into_iter().map(|b| (b, R_EXT)).collect(), shard: 0 })) });
    v.push(Spec {
        name: "bytes".into(),
        cost: 6000,
        build: Box::new(move || Box::new(ListFam { name: "bytes".into(), items: short_bytes(!q).into_iter().map(|b| (b, R_ALL)).collect(), shard: 0 })),
    });
    v.push(Spec { name: "ext-call-grid".into(), cost: 3000, build: Box::new(|| Box::new(ListFam { name: "ext-call-grid".into(), items: ext_call_grid(), shard: 0 })) });
    v.push(Spec { name: "nest".into(), cost: 12000, build: Box::new(move || Box::new(nest_family(tier))) });
    {
        let s = seeds.clone();
        v.push(Spec {
            name: "cross".into(),
            cost: 60000,
            build: Box::new(move || Box::new(ListFam { name: "cross".into(), items: s.iter().map(|x| (x.bytes.clone(), R_ALL)).collect(), shard: 0 })),
        });
    }
    for (i, seed) in seeds.iter().enumerate() {
        if let Some(alphabet) = subst_alphabet(tier, seed) {
            let s = seeds.clone();
            let name = format!("subst:{}", seed.name);
            let n = name.clone();
            // short text seeds also go through the FFI wrappers
            let extra = match seed.kind.as_str() {
                "proto" => 0,
                "text" => R_FILE | if seed.bytes.len() <= 200 { FULL_TEXT } else { 0 },
                _ => R_FILE,
            };
            v.push(Spec {
                name,
                cost: match seed.kind.as_str() {
                    "proto" => 500,
                    "text" => 5000,
                    _ => 1000 + 8 * seed.bytes.len() as u64,
                },
                build: Box::new(move || Box::new(SubstFam { name: n.clone(), doc: s[i].bytes.clone(), alphabet: alphabet.clone(), route: s[i].route | extra, shard: 0 })),
            });
        }
        if seed.kind == "json" {
            let s = seeds.clone();
            let name = format!("json-mut1:{}", seed.name);
            v.push(Spec {
                name,
                cost: 2500,
                build: Box::new(move || {
                    let doc: J = serde_json::from_slice(&s[i].bytes).unwrap_or(J::Null);
                    Box::new(JsonMutFam::new(&s[i].name, &doc, s[i].route, if is_est(&s[i].name) { EST_KEYS } else { &[] }, if q { 4 } else { usize::MAX }))
                }),
            });
            if !q && pairs_for(&seed.name) {
                let s = seeds.clone();
                let name = format!("json-mut2:{}", seed.name);
                v.push(Spec {
                    name,
                    cost: 2000,
                    build: Box::new(move || {
                        let doc: J = serde_json::from_slice(&s[i].bytes).unwrap_or(J::Null);
                        Box::new(JsonPairFam::new(&s[i].name, &doc, s[i].route))
                    }),
                });
            }
        }
    }
    v
}

/// every single mutation of a JSON document, applied on demand
struct JsonMutFam {
    name: String,
    doc: JV,
    muts: Vec<Mut>,
    route: u64,
}

impl JsonMutFam {
    fn new(name: &str, doc: &J, route: u64, extra_keys: &[&str], pool_cap: usize) -> JsonMutFam {
        let d = JV::from_serde(doc);
        let muts = mutations(&d, true, extra_keys, pool_cap);
        JsonMutFam { name: format!("json-mut1:{name}"), doc: d, muts, route }
    }
}

impl Family for JsonMutFam {
    fn name(&self) -> String {
        self.name.clone()
    }
    fn count(&self) -> u64 {
        self.muts.len() as u64 + 1
    }
    fn get(&self, i: u64) -> Input {
        let d = if i == 0 { self.doc.clone() } else { apply(&self.doc, &self.muts[(i - 1) as usize]) };
        Input { bytes: d.text().into_bytes(), route: self.route }
    }
    fn shard(&self) -> u64 {
        1000
    }
}

// ---------------------------------------------------------------------------------------------
// child side
// ---------------------------------------------------------------------------------------------
fn fnv_bytes(b: &[u8], route: u64) -> u64 {
    let mut h: u64 = 0xcbf29ce484222325 ^ route.wrapping_mul(0x9e3779b97f4a7c15);
    for x in b {
        h ^= *x as u64;
        h = h.wrapping_mul(0x100000001b3);
    }
    h
}

fn load_seeds(dir: &str) -> Result<std::sync::Arc<Vec<Seed>>, String> {
    let txt = std::fs::read_to_string(format!("{dir}/seeds.json")).map_err(|e| format!("seeds.json: {e}"))?;
    let j: J = serde_json::from_str(&txt).map_err(|e| format!("seeds.json: {e}"))?;
    ep::seeds_from_json(&j).map(std::sync::Arc::new).ok_or_else(|| "seeds.json malformed".to_string())
}

fn first_line(s: &str) -> String {
    s.lines().next().unwrap_or("").chars().take(140).collect()
}

/// first line of a panic message with the input-dependent parts removed (digit runs -> N,
/// back-quoted / double-quoted fragments -> …) so that one defect has one fingerprint
fn norm_msg(s: &str) -> String {
    let mut out = String::new();
    let mut chars = s.chars().peekable();
    while let Some(c) = chars.next() {
        if c.is_ascii_digit() {
            while chars.peek().is_some_and(|d| d.is_ascii_digit()) {
                chars.next();
            }
            out.push('N');
        } else if c == '`' || c == '"' {
            let mut closed = false;
            for d in chars.by_ref() {
                if d == c {
                    closed = true;
                    break;
                }
            }
            out.push(c);
            out.push('…');
            if closed {
                out.push(c);
            }
        } else {
            out.push(c);
        }
    }
    out
}

fn lossy(b: &[u8]) -> String {
    let s = String::from_utf8_lossy(b);
    if s.len() > 600 {
        let mut cut = 600;
        while !s.is_char_boundary(cut) {
            cut -= 1;
        }
        format!("{}…[{} bytes]", &s[..cut], b.len())
    } else {
        s.into_owned()
    }
}

fn child_main(tier: Tier, spec: &str) -> i32 {
    let spec: J = match serde_json::from_str(spec) {
        Ok(j) => j,
        Err(e) => {
            eprintln!("C20 child: bad spec: {e}");
            return 2;
        }
    };
    let dir = spec["dir"].as_str().unwrap_or("").to_string();
    let id = spec["id"].as_str().unwrap_or("x").to_string();
    let fx = match Fix::new() {
        Ok(f) => f,
        Err(e) => {
            eprintln!("C20 child: fixture construction failed: {e}");
            return 2;
        }
    };
    ep::install_panic_hook();
    let mut run = Run::new();
    ep::preparse_fixed(&mut run);
    let mut res_panics: Vec<J> = vec![];
    let mut seen_fp: BTreeMap<String, u64> = BTreeMap::new();
    let mut keys: Vec<u8> = vec![];
    let mut cases = 0u64;
    let mut slowest = (0.0f64, 0u64);
    let mut sample: Option<J> = None;
    let log = match std::fs::File::create(format!("{dir}/{id}.log")) {
        Ok(f) => f,
        Err(e) => {
            eprintln!("C20 child: cannot create log: {e}");
            return 2;
        }
    };
    let mut one = |run: &mut Run, index: u64, fam: &str, bytes: &[u8], route: u64| {
        let _ = log.write_at(format!("{index:>19}\n").as_bytes(), 0);
        run.any_ok = false;
        let t0 = Instant::now();
        ep::run_case(run, &fx, bytes, route);
        let dt = t0.elapsed().as_secs_f64();
        if dt > slowest.0 {
            slowest = (dt, index);
        }
        cases += 1;
        let k = (fnv_bytes(bytes, route) << 1) | run.any_ok as u64;
        keys.extend_from_slice(&k.to_le_bytes());
        if sample.is_none() {
            sample = Some(json!({"family": fam, "index": index, "input": lossy(bytes), "accepted_somewhere": run.any_ok}));
        }
        for p in run.panics.drain(..) {
            let fp = format!("panic:{}:{}", p.label, norm_msg(&first_line(&p.msg)));
            let n = seen_fp.entry(fp.clone()).or_insert(0);
            *n += 1;
            if *n == 1 && res_panics.len() < 40 {
                res_panics.push(json!({"fingerprint": fp, "label": p.label, "msg": p.msg, "loc": p.loc, "family": fam, "index": index, "route": route, "input_hex": hex(bytes)}));
            }
        }
    };
    match spec["mode"].as_str() {
        Some("range") => {
            let seeds = match load_seeds(&dir) {
                Ok(s) => s,
                Err(e) => {
                    eprintln!("C20 child: {e}");
                    return 2;
                }
            };
            let sp = specs(tier, &seeds);
            let fi = spec["fam"].as_u64().unwrap_or(u64::MAX) as usize;
            let Some(s) = sp.get(fi) else {
                eprintln!("C20 child: no family {fi}");
                return 2;
            };
            let fam = (s.build)();
            let (start, end) = (spec["start"].as_u64().unwrap_or(0), spec["end"].as_u64().unwrap_or(0));
            if end > fam.count() {
                eprintln!("C20 child: range {start}..{end} outside family {} of {}", s.name, fam.count());
                return 2;
            }
            let name = fam.name();
            for i in start..end {
                let inp = fam.get(i);
                one(&mut run, i, &name, &inp.bytes, inp.route);
            }
        }
        Some("single") => {
            let bytes = match std::fs::read(spec["input"].as_str().unwrap_or("")) {
                Ok(b) => b,
                Err(e) => {
                    eprintln!("C20 child: cannot read input: {e}");
                    return 2;
                }
            };
            run.stage_log = std::fs::File::create(format!("{dir}/{id}.stage")).ok();
            // self-test of the watchdog plumbing (never set by the check itself)
            if std::env::var("MC_C20_DEBUG_SPIN").is_ok() {
                let mut x = 0u64;
                loop {
                    x = std::hint::black_box(x.wrapping_add(1));
                }
            }
            let route = spec["route"].as_u64().unwrap_or(R_ALL);
            one(&mut run, spec["index"].as_u64().unwrap_or(0), spec["family"].as_str().unwrap_or("single"), &bytes, route);
        }
        _ => {
            eprintln!("C20 child: bad mode");
            return 2;
        }
    }
    drop(one);
    let cpu_s = std::fs::read_to_string("/proc/self/schedstat").ok().and_then(|t| t.split_whitespace().next().and_then(|x| x.parse::<f64>().ok())).unwrap_or(0.0) / 1e9;
    let outcomes: BTreeMap<String, (u64, u64)> = run.outcomes.iter().map(|(k, v)| (k.to_string(), *v)).collect();
    let res = json!({
        "cases": cases, "calls": run.calls, "outcomes": outcomes, "panics": res_panics,
        "panic_counts": seen_fp, "slowest_s": slowest.0, "slowest_index": slowest.1, "sample": sample, "cpu_s": cpu_s,
    });
    if std::fs::write(format!("{dir}/{id}.keys"), &keys).is_err() || std::fs::write(format!("{dir}/{id}.res.json"), res.to_string()).is_err() {
        eprintln!("C20 child: cannot write result");
        return 2;
    }
    0
}

// ---------------------------------------------------------------------------------------------
// parent side
// ---------------------------------------------------------------------------------------------
#[derive(Clone, Debug)]
struct Shard {
    fam: usize,
    start: u64,
    end: u64,
    cost: u64,
}

enum ChildEnd {
    Done(J, Vec<u8>),
    /// died: (description, signal or exit code text, first stderr line)
    Died(String),
    Stalled,
    Machinery(String),
}

struct Parent {
    tier: Tier,
    dir: String,
    exe: std::path::PathBuf,
    next_id: AtomicU64,
    children: AtomicU64,
}

fn read_logged_index(path: &str) -> Option<u64> {
    let s = std::fs::read_to_string(path).ok()?;
    s.lines().next()?.trim().parse().ok()
}

impl Parent {
    fn spawn(&self, spec: &J, id: &str) -> std::io::Result<std::process::Child> {
        let err = std::fs::File::create(format!("{}/{id}.err", self.dir))?;
        self.children.fetch_add(1, Ordering::Relaxed);
        let mut c = if std::path::Path::new("/bin/sh").exists() {
            let mut c = Command::new("/bin/sh");
            c.arg("-c").arg(format!("ulimit -v {CHILD_AS_LIMIT_KB} 2>/dev/null; exec \"$0\" \"$@\"")).arg(&self.exe);
            c
        } else {
            Command::new(&self.exe)
        };
        c.args(["C20", "--tier", self.tier.name()]).env(CHILD_ENV, spec.to_string()).stdin(Stdio::null()).stdout(Stdio::null()).stderr(Stdio::from(err)).spawn()
    }

    /// run one child to its end, watching its case log
    /// `stall_s`: wall seconds without progress of the case log after which the child is killed;
    /// `cpu_limit_s`: (single-case runs) CPU seconds of the child after which it is killed — the
    /// verdict "non-termination" is taken on CPU time so that it does not depend on machine load.
    fn run_child(&self, spec: &J, id: &str, stall_s: f64, cpu_limit_s: Option<f64>) -> ChildEnd {
        let mut child = match self.spawn(spec, id) {
            Ok(c) => c,
            Err(e) => return ChildEnd::Machinery(format!("cannot spawn child: {e}")),
        };
        let log = format!("{}/{id}.log", self.dir);
        let mut last = (None::<u64>, Instant::now());
        let mut polls = 0u64;
        loop {
            match child.try_wait() {
                Ok(Some(st)) => {
                    let errtxt = std::fs::read_to_string(format!("{}/{id}.err", self.dir)).unwrap_or_default();
                    if st.success() {
                        let res = std::fs::read_to_string(format!("{}/{id}.res.json", self.dir)).ok().and_then(|s| serde_json::from_str::<J>(&s).ok());
                        let keys = std::fs::read(format!("{}/{id}.keys", self.dir)).unwrap_or_default();
                        return match res {
                            Some(r) => ChildEnd::Done(r, keys),
                            None => ChildEnd::Machinery(format!("child {id} exited 0 without a result file; stderr: {}", first_line(&errtxt))),
                        };
                    }
                    if st.code() == Some(2) {
                        return ChildEnd::Machinery(format!("child {id}: {}", first_line(&errtxt)));
                    }
                    let how = match (st.signal(), st.code()) {
                        (Some(s), _) => format!("signal {s}"),
                        (_, Some(c)) => format!("exit code {c}"),
                        _ => "unknown status".to_string(),
                    };
                    let msg = errtxt.lines().filter(|l| !l.trim().is_empty()).take(3).collect::<Vec<_>>().join(" | ");
                    return ChildEnd::Died(format!("{how}; stderr: {}", msg.chars().take(300).collect::<String>()));
                }
                Ok(None) => {}
                Err(e) => return ChildEnd::Machinery(format!("wait failed: {e}")),
            }
            polls += 1;
            std::thread::sleep(Duration::from_millis(if polls < 50 { 4 } else { 25 }));
            if polls % 20 == 0 {
                let cur = read_logged_index(&log);
                if cur != last.0 {
                    last = (cur, Instant::now());
                } else if last.1.elapsed().as_secs_f64() > if cur.is_none() { stall_s.max(STARTUP_S) } else { stall_s } {
                    let _ = child.kill();
                    let _ = child.wait();
                    return ChildEnd::Stalled;
                }
                if let Some(limit) = cpu_limit_s {
                    let cpu = std::fs::read_to_string(format!("/proc/{}/schedstat", child.id())).ok().and_then(|t| t.split_whitespace().next().and_then(|x| x.parse::<f64>().ok())).unwrap_or(0.0) / 1e9;
                    if cpu > limit {
                        let _ = child.kill();
                        let _ = child.wait();
                        return ChildEnd::Stalled;
                    }
                }
            }
        }
    }

    fn new_id(&self, prefix: &str) -> String {
        format!("{prefix}{}", self.next_id.fetch_add(1, Ordering::Relaxed))
    }

    /// run one input alone (own process, per-call stage log, 10 s limit)
    fn run_alone(&self, family: &str, index: u64, bytes: &[u8], route: u64) -> Alone {
        let id = self.new_id("single");
        let input = format!("{}/{id}.input", self.dir);
        if let Err(e) = std::fs::write(&input, bytes) {
            return Alone::Machinery(format!("cannot write {input}: {e}"));
        }
        let spec = json!({"mode": "single", "dir": self.dir, "id": id, "input": input, "route": route, "family": family, "index": index});
        let t0 = Instant::now();
        let end = self.run_child(&spec, &id, ALONE_WALL_CAP_S, Some(ALONE_LIMIT_S));
        let secs = t0.elapsed().as_secs_f64();
        let stage = std::fs::read_to_string(format!("{}/{id}.stage", self.dir)).ok().and_then(|s| s.lines().next().map(|l| l.trim().to_string())).unwrap_or_else(|| "<before first call>".to_string());
        match end {
            ChildEnd::Done(r, k) => Alone::Finished(r, k, secs),
            ChildEnd::Died(how) => Alone::Died(stage, how),
            ChildEnd::Stalled => Alone::TimedOut(stage, secs),
            ChildEnd::Machinery(m) => Alone::Machinery(m),
        }
    }
}

enum Alone {
    Finished(J, Vec<u8>, f64),
    Died(String, String),
    TimedOut(String, f64),
    Machinery(String),
}

fn replay_doc(family: &str, index: u64, bytes: &[u8], route: u64) -> J {
    json!({"family": family, "index": index, "route": route, "input_hex": hex(bytes), "input_text": lossy(bytes)})
}

#[derive(Default)]
struct FamStat {
    cases: u64,
    calls: u64,
    cpu_s: f64,
}

fn merge_result(ctx: &Ctx, stats: &Mutex<BTreeMap<String, FamStat>>, fam: &str, r: &J, keys: &[u8], slow: &Mutex<(f64, String, u64)>) {
    let mut l = Local::default();
    l.evaluations = r["cases"].as_u64().unwrap_or(0);
    l.transitions = r["calls"].as_u64().unwrap_or(0);
    for c in keys.chunks_exact(8) {
        let k = u64::from_le_bytes([c[0], c[1], c[2], c[3], c[4], c[5], c[6], c[7]]);
        l.distinct.push(k >> 1);
        if k & 1 == 1 {
            l.nontrivial.push(k >> 1);
        }
    }
    if let Some(o) = r["outcomes"].as_object() {
        for (k, v) in o {
            let (ok, err) = (v[0].as_u64().unwrap_or(0), v[1].as_u64().unwrap_or(0));
            if ok > 0 {
                l.outcomes.insert(format!("{k}:ok"), ok);
            }
            if err > 0 {
                l.outcomes.insert(format!("{k}:err"), err);
            }
        }
    }
    {
        let mut s = stats.lock().unwrap();
        let e = s.entry(fam.to_string()).or_default();
        e.cases += l.evaluations;
        e.calls += l.transitions;
        e.cpu_s += r["cpu_s"].as_f64().unwrap_or(0.0);
    }
    {
        let mut s = slow.lock().unwrap();
        let t = r["slowest_s"].as_f64().unwrap_or(0.0);
        if t > s.0 {
            *s = (t, fam.to_string(), r["slowest_index"].as_u64().unwrap_or(0));
        }
    }
    if let Some(ps) = r["panics"].as_array() {
        for p in ps {
            let fp = p["fingerprint"].as_str().unwrap_or("panic:?").to_string();
            let bytes = unhex(p["input_hex"].as_str().unwrap_or("")).unwrap_or_default();
            let n = r["panic_counts"][&fp].as_u64().unwrap_or(1);
            ctx.violation(
                fp,
                format!(
                    "panic in {} at {}: {}\n(first of {} in this shard) family {} case {} input: {}",
                    p["label"].as_str().unwrap_or("?"),
                    p["loc"].as_str().unwrap_or("?"),
                    p["msg"].as_str().unwrap_or("?"),
                    n,
                    p["family"].as_str().unwrap_or("?"),
                    p["index"],
                    lossy(&bytes)
                ),
                replay_doc(p["family"].as_str().unwrap_or("?"), p["index"].as_u64().unwrap_or(0), &bytes, p["route"].as_u64().unwrap_or(R_ALL)),
            );
        }
    }
    if let Some(s) = r.get("sample") {
        if !s.is_null() {
            ctx.sample(s.clone());
        }
    }
    ctx.merge(l);
}

fn scratch_dir() -> String {
    format!("{}/target/scratch/c20/{}", verif_root(), std::process::id())
}

fn parent(tier: Tier) -> i32 {
    let ctx = Ctx::new("C20", tier);
    let dir = scratch_dir();
    let _ = std::fs::remove_dir_all(&dir);
    if let Err(e) = std::fs::create_dir_all(&dir) {
        eprintln!("MACHINERY ERROR: cannot create {dir}: {e}");
        return 2;
    }
    let exe = match std::env::current_exe() {
        Ok(e) => e,
        Err(e) => {
            eprintln!("MACHINERY ERROR: current_exe: {e}");
            return 2;
        }
    };
    // seeds: built once here (under catch_unwind: a panic while converting the valid seed
    // documents is itself a violation), shipped to the children through a file
    let seeds = match ctx.guard("seed construction", || json!({"what": "valid seed documents (see c20_ep.rs build_seeds)"}), ep::build_seeds) {
        Some(Ok(s)) => std::sync::Arc::new(s),
        Some(Err(e)) => {
            eprintln!("MACHINERY ERROR: {e}");
            return 2;
        }
        None => {
            return ctx.finish("seed construction panicked", json!({}), &[], false);
        }
    };
    quiet_panics();
    if let Err(e) = std::fs::write(format!("{dir}/seeds.json"), ep::seeds_to_json(&seeds).to_string()) {
        eprintln!("MACHINERY ERROR: cannot write seeds: {e}");
        return 2;
    }
    let sp = specs(tier, &seeds);
    let fams: Vec<Box<dyn Family>> = sp.iter().map(|s| (s.build)()).collect();
    let mut shards: Vec<Shard> = vec![];
    let mut fam_table: Vec<J> = vec![];
    let mut total_cases = 0u64;
    // shards of roughly equal estimated cost: ~6 per worker in quick, ~2 core-seconds each in thorough
    let est_total_us: u64 = fams.iter().enumerate().map(|(i, f)| f.count() * sp[i].cost).sum();
    let target_us = match tier {
        Tier::Quick => (est_total_us / 100).max(200_000),
        Tier::Thorough => 4_000_000,
    };
    let only = std::env::var("MC_C20_ONLY").ok();
    if only.is_some() {
        ctx.cap_hit("MC_C20_ONLY is set: only some families were swept (debugging aid, not a verdict)");
    }
    for (i, f) in fams.iter().enumerate() {
        if let Some(o) = &only {
            if !o.split(',').any(|p| f.name().starts_with(p)) {
                continue;
            }
        }
        let n = f.count();
        total_cases += n;
        fam_table.push(json!({"family": f.name(), "cases": n}));
        let step = (target_us / sp[i].cost.max(1)).max(1);
        let mut s = 0;
        while s < n {
            let e = (s + step).min(n);
            shards.push(Shard { fam: i, start: s, end: e, cost: (e - s) * sp[i].cost });
            s = e;
        }
    }
    if std::env::var("MC_C20_LIST").is_ok() {
        println!("{}", serde_json::to_string_pretty(&fam_table).unwrap_or_default());
        let _ = std::fs::remove_dir_all(&dir);
        return 2;
    }
    shards.sort_by(|a, b| b.cost.cmp(&a.cost));
    if !shards.is_empty() {
        let r = (ctx.seed as usize) % shards.len();
        shards.rotate_left(r);
    }
    let n_shards = shards.len();
    let jobs: usize = std::env::var("MC_C20_JOBS").ok().and_then(|s| s.parse().ok()).unwrap_or(16);
    let p = Parent { tier, dir: dir.clone(), exe, next_id: AtomicU64::new(0), children: AtomicU64::new(0) };
    let queue: Mutex<VecDeque<Shard>> = Mutex::new(shards.into());
    let active = AtomicU64::new(0);
    let aborts = AtomicU64::new(0);
    let machinery: Mutex<Option<String>> = Mutex::new(None);
    let stats: Mutex<BTreeMap<String, FamStat>> = Mutex::new(BTreeMap::new());
    let slow: Mutex<(f64, String, u64)> = Mutex::new((0.0, String::new(), 0));
    let alone_runs = AtomicU64::new(0);

    std::thread::scope(|sc| {
        for _ in 0..jobs {
            sc.spawn(|| loop {
                if machinery.lock().unwrap().is_some() {
                    return;
                }
                let sh = {
                    let mut q = queue.lock().unwrap();
                    match q.pop_front() {
                        Some(s) => {
                            active.fetch_add(1, Ordering::SeqCst);
                            Some(s)
                        }
                        None => None,
                    }
                };
                let Some(sh) = sh else {
                    if active.load(Ordering::SeqCst) == 0 {
                        return;
                    }
                    std::thread::sleep(Duration::from_millis(10));
                    continue;
                };
                let fam = &fams[sh.fam];
                let fname = fam.name();
                let id = p.new_id("shard");
                let spec = json!({"mode": "range", "dir": p.dir, "id": id, "fam": sh.fam, "start": sh.start, "end": sh.end});
                match p.run_child(&spec, &id, STALL_S, None) {
                    ChildEnd::Done(r, keys) => merge_result(&ctx, &stats, &fname, &r, &keys, &slow),
                    ChildEnd::Machinery(m) => *machinery.lock().unwrap() = Some(m),
                    end @ (ChildEnd::Died(_) | ChildEnd::Stalled) => {
                        // attribute to the logged case, re-run it alone, re-queue the rest
                        let idx = read_logged_index(&format!("{}/{id}.log", p.dir)).filter(|i| *i >= sh.start && *i < sh.end);
                        match idx {
                            None => *machinery.lock().unwrap() = Some(format!("child {id} of family {fname} ended abnormally before logging a case ({})", if let ChildEnd::Died(h) = &end { h.as_str() } else { "stalled" })),
                            Some(i) => {
                                let inp = fam.get(i);
                                alone_runs.fetch_add(1, Ordering::Relaxed);
                                let alone = p.run_alone(&fname, i, &inp.bytes, inp.route);
                                let rd = replay_doc(&fname, i, &inp.bytes, inp.route);
                                match (&end, alone) {
                                    (_, Alone::Machinery(m)) => *machinery.lock().unwrap() = Some(m),
                                    (ChildEnd::Died(how), Alone::Died(stage, how2)) => {
                                        aborts.fetch_add(1, Ordering::Relaxed);
                                        ctx.violation(format!("abort:{stage}:{}", first_line(&how2).split(';').next().unwrap_or("")), format!("process died ({how2}) in `{stage}`; in the sweep: {how}; family {fname} case {i} input: {}", lossy(&inp.bytes)), rd);
                                    }
                                    (ChildEnd::Died(how), Alone::Finished(..)) if how.starts_with("signal 9;") || how.starts_with("signal 15;") => {
                                        // SIGKILL / SIGTERM come from outside (the address-space limit turns a
                                        // runaway allocation into an abort, not an OOM kill): not a verdict
                                        *machinery.lock().unwrap() = Some(format!("child {id} was killed from outside ({how}) at family {fname} case {i}; the case finishes when run alone"));
                                    }
                                    (ChildEnd::Died(how), Alone::Finished(r, keys, _)) => {
                                        aborts.fetch_add(1, Ordering::Relaxed);
                                        merge_result(&ctx, &stats, &fname, &r, &keys, &slow);
                                        ctx.violation(format!("abort:{fname}:only-inside-sweep"), format!("process died ({how}) at family {fname} case {i}, but the case finishes when run alone; input: {}", lossy(&inp.bytes)), rd);
                                    }
                                    (ChildEnd::Died(how), Alone::TimedOut(stage, secs)) => {
                                        aborts.fetch_add(1, Ordering::Relaxed);
                                        ctx.violation(format!("abort:{stage}:died-in-sweep-hangs-alone"), format!("process died ({how}) in the sweep and exceeds {secs:.0}s alone in `{stage}`; family {fname} case {i} input: {}", lossy(&inp.bytes)), rd);
                                    }
                                    (_, Alone::TimedOut(stage, secs)) => {
                                        aborts.fetch_add(1, Ordering::Relaxed);
                                        ctx.violation(format!("non-termination:{stage}"), format!("a single case does not finish within {ALONE_LIMIT_S} s of CPU time (or {ALONE_WALL_CAP_S} s wall) when run alone (killed after {secs:.1}s wall, in `{stage}`); family {fname} case {i} input: {}", lossy(&inp.bytes)), rd);
                                    }
                                    (_, Alone::Died(stage, how2)) => {
                                        aborts.fetch_add(1, Ordering::Relaxed);
                                        ctx.violation(format!("abort:{stage}:{}", first_line(&how2).split(';').next().unwrap_or("")), format!("process died ({how2}) in `{stage}` (the sweep had stalled on it); family {fname} case {i} input: {}", lossy(&inp.bytes)), rd);
                                    }
                                    (_, Alone::Finished(r, keys, _)) => {
                                        // slow inside a loaded sweep but fine alone: not a violation
                                        merge_result(&ctx, &stats, &fname, &r, &keys, &slow);
                                    }
                                }
                                if aborts.load(Ordering::Relaxed) <= MAX_ABORTS {
                                    let mut q = queue.lock().unwrap();
                                    if i > sh.start {
                                        q.push_back(Shard { fam: sh.fam, start: sh.start, end: i, cost: 0 });
                                    }
                                    if i + 1 < sh.end {
                                        q.push_back(Shard { fam: sh.fam, start: i + 1, end: sh.end, cost: 0 });
                                    }
                                } else {
                                    ctx.cap_hit(&format!("more than {MAX_ABORTS} aborted cases: the rest of shard {fname} {}..{} was not swept", sh.start, sh.end));
                                }
                            }
                        }
                    }
                }
                active.fetch_sub(1, Ordering::SeqCst);
            });
        }
    });
    if let Some(m) = machinery.lock().unwrap().take() {
        eprintln!("MACHINERY ERROR: {m}");
        let _ = std::fs::remove_dir_all(&dir);
        return 2;
    }
    let swept = ctx.evaluations.load(Ordering::Relaxed);
    let exhaustive = swept == total_cases;
    if !exhaustive && ctx.violation_seen() == 0 {
        eprintln!("MACHINERY ERROR: {swept} of {total_cases} cases were swept");
        return 2;
    }
    {
        let s = stats.lock().unwrap();
        for row in fam_table.iter_mut() {
            let name = row["family"].as_str().unwrap_or("").to_string();
            if let Some(st) = s.get(&name) {
                row["swept"] = json!(st.cases);
                row["calls"] = json!(st.calls);
                row["child_cpu_s"] = json!((st.cpu_s * 100.0).round() / 100.0);
            }
        }
    }
    let stack = Command::new("/bin/sh").arg("-c").arg("ulimit -s").output().ok().map(|o| String::from_utf8_lossy(&o.stdout).trim().to_string()).unwrap_or_default();
    let sl = slow.lock().unwrap().clone();
    ctx.set_info("families", J::Array(fam_table));
    ctx.set_info("child_processes", json!(p.children.load(Ordering::Relaxed)));
    ctx.set_info("shards", json!(n_shards));
    ctx.set_info("cases_rerun_alone", json!(alone_runs.load(Ordering::Relaxed)));
    ctx.set_info("aborted_or_hung_cases", json!(aborts.load(Ordering::Relaxed)));
    ctx.set_info("slowest_case", json!({"seconds_inside_sweep": sl.0, "family": sl.1, "index": sl.2}));
    ctx.set_info("child_stack_limit_kb", json!(stack));
    ctx.set_info("seed_documents", J::Array(seeds.iter().map(|s| json!({"name": s.name, "kind": s.kind, "bytes": s.bytes.len()})).collect()));
    if std::env::var("MC_C20_KEEP").is_err() {
        let _ = std::fs::remove_dir_all(&dir);
    }
    let q = tier == Tier::Quick;
    ctx.finish(
        "case = one input (family, index) fed to every entry point of its route; class = <entry point>:ok|err counted per entry-point call; non-trivial = at least one entry point accepted the input, so a downstream pipeline (print, to_json, to_pst, format, validate strict/permissive/partial/level, authorize, partial authorize, TPE, link, protobuf round trip) ran on it; transitions = guarded calls into cedar (entry points + pipeline steps + error renderings)",
        json!({
            "tier": tier.name(),
            "policy_tokens": {"alphabet": POLICY_TOKENS, "max_len": tier.pick(3, 4), "positions": policy_positions().iter().map(|p| p.0).collect::<Vec<_>>()},
            "policy_tokens_wide": {"alphabet_size": POLICY_TOKENS_WIDE.len() + POLICY_TOKENS_WIDE_EXTRA.len(), "max_len": tier.pick(2, 3), "positions": policy_positions_wide().iter().map(|p| p.0).collect::<Vec<_>>()},
            "schema_tokens": {"alphabet": SCHEMA_TOKENS, "max_len": tier.pick(3, 4), "positions": schema_positions().iter().map(|p| p.0).collect::<Vec<_>>()},
            "schema_tokens_wide": {"alphabet_size": SCHEMA_TOKENS_WIDE.len(), "max_len": tier.pick(2, 3), "positions": schema_positions_wide().iter().map(|p| p.0).collect::<Vec<_>>()},
            "string_escapes": {"alphabet": ESCAPE_CHARS, "max_len": tier.pick(3, 5), "positions": escape_positions().iter().map(|p| p.0).collect::<Vec<_>>()},
            "extension_values": {"alphabet": EXT_CHARS, "max_len": tier.pick(3, 5), "seeds": EXT_VALID, "seed_mutations": "every single-character substitution and insertion over the alphabet, deletion and prefix", "entry_points": "RestrictedExpression::new_{ip,decimal,datetime,duration} through Context::from_pairs, Expression::new_* through eval_expression"},
            "token_sweep_entry_points": "policy text: PolicySet::from_str (+ formatter and full pipeline when it parses), Policy::parse, Template::parse; `top` position also Expression / RestrictedExpression / EntityUid / names / extension constructors; schema text: Schema and SchemaFragment ::from_cedarschema_str, schema_str_to_json_with_resolved_types. The FromStr variants and the FFI text wrappers see the bytes, nest, cross and short-seed substitution families",
            "bytes": if q { "all byte strings of length <= 1 (257) plus all length-2 strings over a 40-byte alphabet (1600), into every entry point (text, JSON, protobuf, reader-based)" } else { "all byte strings of length <= 2 (65793) into every entry point (text, JSON, protobuf, reader-based)" },
            "byte_substitution": if q {
                "every position of a seed document x alphabet, plus every single-byte deletion and every proper prefix; alphabet: 12 bytes for the 5 text seeds, 54 bytes (0x00-0x2f = all tags of fields 0-5 and small varints, 0x7f/0x80/0x81/0xc3/0xfe/0xff) for the 8 protobuf seeds, 10 bytes for JSON seeds of at most 700 bytes (larger JSON seeds: structural mutations only)"
            } else {
                "every position of a seed document x alphabet, plus every single-byte deletion and every proper prefix; alphabet: all 256 values for the 5 text and 8 protobuf seeds, 40 bytes for JSON seeds of at most 1300 bytes, 10 bytes for larger JSON seeds"
            },
            "json_mutations": if q {
                "every single structural mutation of each of the 16 JSON seeds: delete member/element, 12 retypes (null, true, 0, -1, 2^63, -2^63-1, 1.5, 1e400, \"\", \"x\", [], {}), wrap 1 and 48 deep in array and in object, every string -> 22 pool strings + the first 4 strings of the document, every key -> escape keys (__entity/__extn/__expr) + the first 4 keys of the document (+ 38 EST operator keys for policy documents), duplicate key (same value / null)"
            } else {
                "every single structural mutation of each of the 16 JSON seeds (as quick, but every string -> every other string of the document and every key -> every other key), plus every ordered pair of reduced mutations (delete, null, one retype, duplicate key) of 11 seeds (policy, template, schema, entities, entity, context, entity uid, FFI policy set, formatting / context-parsing / scope-variables calls)"
            },
            "nesting_depths": nest_depths(tier),
            "nesting_depth": MAX_DEPTH,
            "per_case_cpu_limit_s_when_run_alone": ALONE_LIMIT_S,
        }),
        &[
            "each case runs on the main thread of a child process with the inherited stack limit (see child_stack_limit_kb) and an 8 GiB address-space limit",
            "&str entry points receive the lossy UTF-8 decoding of a byte string; reader-based (`*_file`) and protobuf entry points receive the raw bytes",
            "nesting is bounded by 48; inputs longer than the bounds are covered only as mutations of the seed documents",
            "hash-map iteration order is not enumerated",
        ],
        exhaustive,
    )
}

// ---------------------------------------------------------------------------------------------
// replay
// ---------------------------------------------------------------------------------------------
fn replay(tier: Tier, path: &str) -> i32 {
    let doc: J = match std::fs::read_to_string(path).ok().and_then(|s| serde_json::from_str(&s).ok()) {
        Some(d) => d,
        None => {
            eprintln!("cannot read replay file {path}");
            return 2;
        }
    };
    if doc["property"].as_str() != Some("C20") {
        eprintln!("replay file is not a C20 case");
        return 2;
    }
    let case = &doc["case"];
    let Some(bytes) = case["input_hex"].as_str().and_then(unhex) else {
        eprintln!("replay file holds no input (seed construction panic?); re-run the check instead");
        return 2;
    };
    let route = case["route"].as_u64().unwrap_or(R_ALL);
    let dir = format!("{}/replay", scratch_dir());
    let _ = std::fs::create_dir_all(&dir);
    let Ok(exe) = std::env::current_exe() else { return 2 };
    let p = Parent { tier, dir: dir.clone(), exe, next_id: AtomicU64::new(0), children: AtomicU64::new(0) };
    println!("replaying family {} case {} ({} bytes): {}", case["family"], case["index"], bytes.len(), lossy(&bytes));
    let code = match p.run_alone(case["family"].as_str().unwrap_or("replay"), case["index"].as_u64().unwrap_or(0), &bytes, route) {
        Alone::Machinery(m) => {
            eprintln!("MACHINERY ERROR: {m}");
            2
        }
        Alone::Died(stage, how) => {
            println!("  process died in `{stage}`: {how}");
            1
        }
        Alone::TimedOut(stage, secs) => {
            println!("  no result after {secs:.1}s in `{stage}`");
            1
        }
        Alone::Finished(r, _, secs) => {
            let ps = r["panics"].as_array().cloned().unwrap_or_default();
            for x in &ps {
                println!("  [{}] at {}: {}", x["fingerprint"].as_str().unwrap_or("?"), x["loc"].as_str().unwrap_or("?"), x["msg"].as_str().unwrap_or("?"));
            }
            println!("  {} guarded calls, {:.3}s", r["calls"], secs);
            if ps.is_empty() {
                println!("no panic on replay");
                0
            } else {
                1
            }
        }
    };
    let _ = std::fs::remove_dir_all(scratch_dir());
    if code == 1 {
        println!("VIOLATION property=C20 replay={path}");
    }
    code
}

pub fn run(tier: Tier, replay_file: Option<&str>) -> i32 {
    if let Ok(spec) = std::env::var(CHILD_ENV) {
        return child_main(tier, &spec);
    }
    if let Some(p) = replay_file {
        return replay(tier, p);
    }
    parent(tier)
}
