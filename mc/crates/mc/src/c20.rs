//! C20 stub (being written)
use crate::harness::*;
pub fn run(_tier: Tier, _replay: Option<&str>) -> i32 { 2 }
