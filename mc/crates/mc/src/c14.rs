//! C14 — type-aware partial evaluation (TPE) and permission queries are sound.
//! Bounded-exhaustive: valid policy sets x partial views obtained by erasing parts of concrete
//! environments x all concrete completions the library itself deems consistent.
use crate::bind::*;
use crate::c03;
use crate::harness::*;
use crate::schema::*;
use crate::world::*;
use cedar_policy_core::ast;
use rayon::prelude::*;
use refsem::print::Style;
use refsem::*;
use serde_json::json;
use smol_str::SmolStr;
use std::collections::{BTreeMap, BTreeSet, HashSet};
use std::str::FromStr;

/// smaller conformant store family for the completion space
pub fn stores(tier: Tier) -> Vec<Store> {
    let mut out = Vec::new();
    let bools = [false, true];
    for a_nick in bools {
        for a_mgr in bools {
            for a_in_g in bools {
                for a_tag in bools {
                    for d_rev in bools {
                        for d_ip in bools {
                            for b_present in bools {
                                if tier == Tier::Quick && a_tag != a_in_g {
                                    continue;
                                }
                                let mut s = Store::default();
                                let mut a = Ent::default();
                                a.attrs.insert("age".into(), Val::Long(if a_mgr { 3 } else { 0 }));
                                if a_nick {
                                    a.attrs.insert("nick".into(), Val::Str("al".into()));
                                }
                                if a_mgr {
                                    a.attrs.insert("mgr".into(), Val::Uid(ub()));
                                }
                                if a_in_g {
                                    a.parents.insert(gg());
                                }
                                if a_tag {
                                    a.tags.insert("t1".into(), Val::Str("x".into()));
                                }
                                s.ents.insert(ua(), a);
                                if b_present {
                                    let mut e = Ent::default();
                                    e.attrs.insert("age".into(), Val::Long(40));
                                    e.attrs.insert("nick".into(), Val::Str("al".into()));
                                    s.ents.insert(ub(), e);
                                }
                                let mut g = Ent::default();
                                g.parents.insert(gh());
                                s.ents.insert(gg(), g);
                                s.ents.insert(gh(), Ent::default());
                                let mut d = Ent::default();
                                d.attrs.insert("owner".into(), Val::Uid(if d_ip { ub() } else { ua() }));
                                d.attrs.insert("labels".into(), Val::set(vec![Val::Str("x".into())]));
                                let mut meta = BTreeMap::new();
                                meta.insert("pub".to_string(), Val::Bool(!d_rev));
                                if d_rev {
                                    meta.insert("rev".to_string(), Val::Long(7));
                                }
                                d.attrs.insert("meta".into(), Val::Rec(meta));
                                if d_ip {
                                    d.attrs.insert("ip".into(), ip_val("10.0.0.1"));
                                    d.tags.insert("n".into(), Val::Long(1));
                                }
                                d.parents.insert(gg());
                                s.ents.insert(dd(), d);
                                out.push(s);
                            }
                        }
                    }
                }
            }
        }
    }
    out
}

pub fn requests() -> Vec<Req> {
    let mut out = Vec::new();
    for p in [ua(), ub()] {
        for (who, flag, n) in [(None, None, 1i64), (Some(ua()), Some(true), 5), (Some(ub()), Some(false), i64::MAX)] {
            let mut c = BTreeMap::new();
            c.insert("n".to_string(), Val::Long(n));
            if let Some(w) = who {
                c.insert("who".to_string(), Val::Uid(w));
            }
            if let Some(f) = flag {
                c.insert("flag".to_string(), Val::Bool(f));
            }
            out.push(Req { principal: p.clone(), action: view(), resource: dd(), context: c });
        }
        out.push(Req { principal: p.clone(), action: edit(), resource: dd(), context: BTreeMap::new() });
        out.push(Req { principal: p.clone(), action: edit(), resource: gg(), context: BTreeMap::new() });
    }
    out
}

/// which parts of a concrete environment are erased
#[derive(Clone, Copy, Debug, PartialEq, Eq, Hash, serde::Serialize, serde::Deserialize)]
pub struct Mask {
    pub p_unknown: bool,
    pub r_unknown: bool,
    pub ctx_unknown: bool,
    /// per entity (a, d): 0 keep, 1 attrs unknown, 2 ancestors unknown, 3 tags unknown, 4 all unknown, 5 entity not listed
    pub a: u8,
    pub d: u8,
    /// other entities (b, g, h): listed fully or not listed
    pub others_listed: bool,
    /// known ancestor sets list the DIRECT parents only (the constructor computes the closure)
    #[serde(default)]
    pub direct_only: bool,
}

pub fn masks(tier: Tier) -> Vec<Mask> {
    let mut out = Vec::new();
    for p_unknown in [false, true] {
        for r_unknown in [false, true] {
            for ctx_unknown in [false, true] {
                for a in 0..6u8 {
                    for d in [0u8, 1, 3, 5] {
                        for others_listed in [true, false] {
                            if tier == Tier::Quick {
                                // quick cut: entity erasures one at a time with the request fully known,
                                // request erasures with entities fully known, plus the diagonal
                                let ent_erased = a != 0 || d != 0 || !others_listed;
                                let req_erased = p_unknown || r_unknown || ctx_unknown;
                                let single_ent = (a != 0) as u8 + (d != 0) as u8 + (!others_listed) as u8 <= 1;
                                let diag = (a == 4 && d == 1 && p_unknown && !r_unknown) || (a == 1 && d == 5 && ctx_unknown);
                                if !((ent_erased && !req_erased && single_ent) || (!ent_erased) || diag) {
                                    continue;
                                }
                            }
                            out.push(Mask { p_unknown, r_unknown, ctx_unknown, a, d, others_listed, direct_only: false });
                            // the same view built from direct parents only (after seed C14-b1), where
                            // the ancestors of a and d are known and the other entities are listed
                            if [0u8, 1, 3].contains(&a) && [0u8, 1, 3].contains(&d) && others_listed && (tier == Tier::Thorough || (!p_unknown && !r_unknown)) {
                                out.push(Mask { p_unknown, r_unknown, ctx_unknown, a, d, others_listed, direct_only: true });
                            }
                        }
                    }
                }
            }
        }
    }
    out
}

fn tn(s: &str) -> cedar_policy::EntityTypeName {
    cedar_policy::EntityTypeName::from_str(s).unwrap()
}

fn partial_uid(u: &Uid, unknown: bool) -> cedar_policy::PartialEntityUid {
    if unknown {
        cedar_policy::PartialEntityUid::new(tn(&u.ty), None)
    } else {
        cedar_policy::PartialEntityUid::from_concrete(c_uid(u))
    }
}

fn rx_map(m: &BTreeMap<String, Val>) -> BTreeMap<SmolStr, cedar_policy::RestrictedExpression> {
    m.iter().map(|(k, v)| (SmolStr::new(k), c_rexpr(v))).collect()
}

pub struct Partial {
    pub req: cedar_policy::PartialRequest,
    pub ents: cedar_policy::PartialEntities,
}

/// build the partial view of (req, store) under `m`; Err = the library refuses this partial
pub fn make_partial(req: &Req, store: &Store, m: &Mask, sch: &Schema, schema: &cedar_policy::Schema) -> Result<Partial, String> {
    let ctx = if m.ctx_unknown { None } else { Some(c_context(&req.context)) };
    let preq = cedar_policy::PartialRequest::new(partial_uid(&req.principal, m.p_unknown), c_uid(&req.action), partial_uid(&req.resource, m.r_unknown), ctx, schema).map_err(|e| format!("PartialRequest::new: {e}"))?;
    let full = with_actions(store, sch);
    let mut pes = Vec::new();
    for (u, e) in &full.ents {
        let code = if *u == ua() {
            m.a
        } else if *u == dd() {
            m.d
        } else if u.ty == "Action" {
            0
        } else if m.others_listed {
            0
        } else {
            5
        };
        if code == 5 {
            continue;
        }
        let attrs = if code == 1 || code == 4 { None } else { Some(rx_map(&e.attrs)) };
        let ancestors: Option<HashSet<cedar_policy::EntityUid>> = if code == 2 || code == 4 {
            None
        } else if m.direct_only {
            Some(e.parents.iter().map(c_uid).collect())
        } else {
            Some(full.ancestors(u).iter().map(c_uid).collect())
        };
        let tags = if code == 3 || code == 4 { None } else { Some(rx_map(&e.tags)) };
        pes.push(cedar_policy::PartialEntity::new(c_uid(u), attrs, ancestors, tags, schema).map_err(|e| format!("PartialEntity::new({u:?}): {e}"))?);
    }
    let ents = cedar_policy::PartialEntities::from_partial_entities(pes, schema).map_err(|e| format!("from_partial_entities: {e}"))?;
    Ok(Partial { req: preq, ents })
}

pub struct Env {
    pub req: Req,
    pub store: Store,
    pub creq: cedar_policy::Request,
    pub cents: cedar_policy::Entities,
}

pub fn policy_sets(tier: Tier, schema: &cedar_policy::Schema) -> Vec<(Vec<Pol>, cedar_policy::PolicySet)> {
    // strictly valid policies: the type-directed set of C03 + its scope variants
    let cands: Vec<c03::Cand> = c03::candidates(Tier::Quick).into_iter().filter(|c| c.must_accept).collect();
    let validator = cedar_policy::Validator::new(schema.clone());
    let mut valid: Vec<Pol> = Vec::new();
    let step = tier.pick(7, 5);
    for (i, c) in cands.iter().enumerate() {
        if i % step != 0 {
            continue;
        }
        let mut p = c.pol.clone();
        p.id = format!("p{}", valid.len());
        valid.push(p);
    }
    // hand-picked policies that stress TPE simplifications
    let pr = E::Var(Var::Principal);
    let rs = E::Var(Var::Resource);
    let cx = E::Var(Var::Context);
    let extra: Vec<(Effect, AS, E)> = vec![
        (Effect::Permit, AS::Eq(view()), E::and(E::bin(BinOp::Gt, E::bin(BinOp::Add, E::attr(cx.clone(), "n"), E::Long(1)), E::Long(0)), E::Bool(false))),
        (Effect::Permit, AS::Eq(view()), E::or(E::bin(BinOp::Gt, E::bin(BinOp::Add, E::attr(cx.clone(), "n"), E::Long(1)), E::Long(0)), E::Bool(true))),
        (Effect::Forbid, AS::Eq(view()), E::and(E::bin(BinOp::In, pr.clone(), E::Ent(gh())), E::bin(BinOp::Eq, E::attr(rs.clone(), "owner"), pr.clone()))),
        (Effect::Permit, AS::Eq(view()), E::bin(BinOp::In, pr.clone(), E::Set(vec![E::Ent(gg()), E::Ent(gh())]))),
        (Effect::Permit, AS::Eq(view()), E::bin(BinOp::Eq, E::attr(E::attr(rs.clone(), "owner"), "age"), E::Long(3))),
        (Effect::Permit, AS::Eq(view()), E::and(E::has(E::attr(rs.clone(), "owner"), "nick"), E::bin(BinOp::Eq, E::attr(E::attr(rs.clone(), "owner"), "nick"), E::str("al")))),
        (Effect::Forbid, AS::Eq(view()), E::and(E::bin(BinOp::HasTag, rs.clone(), E::str("n")), E::bin(BinOp::Gt, E::bin(BinOp::GetTag, rs.clone(), E::str("n")), E::Long(0)))),
        (Effect::Permit, AS::Eq(view()), E::bin(BinOp::HasTag, pr.clone(), E::str("t1"))),
        (Effect::Permit, AS::Eq(view()), E::ite(E::has(cx.clone(), "who"), E::bin(BinOp::Eq, E::attr(cx.clone(), "who"), pr.clone()), E::bin(BinOp::In, rs.clone(), E::Ent(gg())))),
        (Effect::Permit, AS::In(readers()), E::bin(BinOp::Eq, pr.clone(), E::attr(rs.clone(), "owner"))),
        (Effect::Permit, AS::Eq(edit()), E::or(E::Is(b(rs.clone()), "Group".into()), E::attr(E::attr(rs.clone(), "meta"), "pub"))),
        (Effect::Forbid, AS::Any, E::bin(BinOp::Eq, pr.clone(), E::Ent(ub()))),
        (Effect::Permit, AS::Any, E::bin(BinOp::In, rs.clone(), E::Ent(gh()))),
        (Effect::Permit, AS::Eq(view()), E::bin(BinOp::Eq, E::bin(BinOp::Mul, E::attr(pr.clone(), "age"), E::attr(cx.clone(), "n")), E::Long(0))),
        (Effect::Permit, AS::Eq(view()), E::bin(BinOp::Contains, E::Set(vec![E::attr(rs.clone(), "owner"), E::Ent(ua())]), pr.clone())),
        (Effect::Permit, AS::Eq(view()), E::bin(BinOp::Eq, E::attr(E::Rec(vec![("f".into(), E::attr(rs.clone(), "owner")), ("g".into(), E::Long(1))]), "g"), E::Long(1))),
        // error-capable / residual operands against constants in every short-circuit position
        (Effect::Permit, AS::Eq(view()), E::or(E::bin(BinOp::Eq, E::attr(E::attr(rs.clone(), "owner"), "age"), E::Long(3)), E::Bool(true))),
        (Effect::Forbid, AS::Eq(view()), E::and(E::bin(BinOp::Eq, E::attr(E::attr(rs.clone(), "owner"), "age"), E::Long(3)), E::Bool(false))),
        (Effect::Permit, AS::Eq(view()), E::ite(E::bin(BinOp::Gt, E::attr(cx.clone(), "n"), E::Long(2)), E::bin(BinOp::Eq, E::attr(rs.clone(), "owner"), pr.clone()), E::bin(BinOp::In, pr.clone(), E::Ent(gg())))),
        (Effect::Permit, AS::Eq(view()), E::ite(E::bin(BinOp::In, pr.clone(), E::Ent(gh())), E::Bool(true), E::bin(BinOp::Gt, E::bin(BinOp::Mul, E::attr(cx.clone(), "n"), E::Long(2)), E::Long(0)))),
        (Effect::Permit, AS::Eq(view()), E::Is(b(E::attr(rs.clone(), "owner")), "User".into())),
        (Effect::Permit, AS::Eq(view()), E::IsIn(b(pr.clone()), "User".into(), b(E::Ent(gh())))),
        (Effect::Permit, AS::Eq(view()), E::and(E::has(E::attr(rs.clone(), "owner"), "nick"), E::Like(b(E::attr(E::attr(rs.clone(), "owner"), "nick")), vec![Pat::Char('a'), Pat::Star]))),
        (Effect::Permit, AS::Eq(view()), E::and(E::has(pr.clone(), "nick"), E::Like(b(E::attr(pr.clone(), "nick")), vec![Pat::Star, Pat::Char('l')]))),
        (Effect::Forbid, AS::Eq(view()), E::and(E::has(rs.clone(), "ip"), E::ext("isInRange", vec![E::attr(rs.clone(), "ip"), E::ext("ip", vec![E::str("10.0.0.0/8")])]))),
        (Effect::Permit, AS::Eq(view()), E::bin(BinOp::ContainsAny, E::attr(rs.clone(), "labels"), E::Set(vec![E::str("x"), E::str("q")]))),
        (Effect::Permit, AS::Eq(view()), E::bin(BinOp::Contains, E::attr(rs.clone(), "labels"), E::ite(E::has(pr.clone(), "nick"), E::attr(pr.clone(), "nick"), E::str("x")))),
        (Effect::Permit, AS::Eq(view()), E::bin(BinOp::Eq, E::Neg(b(E::attr(pr.clone(), "age"))), E::Long(-3))),
        (Effect::Permit, AS::Eq(view()), E::bin(BinOp::Eq, E::bin(BinOp::Sub, E::attr(cx.clone(), "n"), E::attr(pr.clone(), "age")), E::Long(2))),
        (Effect::Permit, AS::Eq(view()), E::not(E::bin(BinOp::In, E::attr(rs.clone(), "owner"), E::Ent(gg())))),
        (Effect::Permit, AS::Eq(view()), E::and(E::has(pr.clone(), "mgr"), E::bin(BinOp::In, E::attr(pr.clone(), "mgr"), E::Set(vec![E::Ent(gg()), E::Ent(gh())])))),
        (Effect::Permit, AS::Eq(view()), E::and(E::Has(b(pr.clone()), vec!["mgr".into(), "nick".into()]), E::bin(BinOp::Eq, E::attr(E::attr(pr.clone(), "mgr"), "nick"), E::str("al")))),
        (Effect::Forbid, AS::Eq(view()), E::bin(BinOp::Eq, E::attr(E::attr(rs.clone(), "meta"), "pub"), E::has(cx.clone(), "flag"))),
        (Effect::Permit, AS::Eq(view()), E::and(E::bin(BinOp::HasTag, pr.clone(), E::str("t1")), E::bin(BinOp::Eq, E::bin(BinOp::GetTag, pr.clone(), E::str("t1")), E::str("x")))),
        (Effect::Permit, AS::Eq(edit()), E::ite(E::Is(b(rs.clone()), "Doc".into()), E::bin(BinOp::Eq, E::attr(rs.clone(), "owner"), pr.clone()), E::bin(BinOp::In, pr.clone(), rs.clone()))),
    ];
    for (eff, act, e) in extra {
        let mut p = Pol::simple(&format!("x{}", valid.len()), eff, Some(e));
        p.action = act;
        valid.push(p);
    }
    // compositional family (after seed C14-a1): an operand that errors on SOME completion
    // (absent entity, overflow), held inside every container kind next to operands that cannot
    // error, against a right operand TPE already knows - `C || true` may only fold to `true`
    // when C cannot error
    let leaves: Vec<E> = vec![
        E::attr(E::attr(rs.clone(), "owner"), "age"),
        E::bin(BinOp::Add, E::attr(cx.clone(), "n"), E::Long(1)),
        E::bin(BinOp::Mul, E::attr(pr.clone(), "age"), E::attr(cx.clone(), "n")),
    ];
    let containers: Vec<fn(E, E) -> E> = vec![
        |l, _| E::bin(BinOp::Contains, E::Set(vec![l, E::Long(0)]), E::Long(7)),
        |l, _| E::bin(BinOp::Contains, E::Set(vec![E::Long(0), l]), E::Long(0)),
        |l, _| E::bin(BinOp::Eq, E::attr(E::Rec(vec![("a".into(), l), ("b".into(), E::Long(1))]), "b"), E::Long(1)),
        |l, _| E::bin(BinOp::Eq, l, E::Long(0)),
        |l, p| E::bin(BinOp::Eq, E::ite(E::has(p, "nick"), l, E::Long(0)), E::Long(0)),
        |l, _| E::bin(BinOp::Contains, E::Set(vec![E::Set(vec![l]), E::Set(vec![E::Long(0)])]), E::Set(vec![E::Long(0)])),
        |l, _| E::bin(BinOp::ContainsAny, E::Set(vec![l]), E::Set(vec![E::Long(1), E::Long(3)])),
        |l, _| E::IsEmpty(b(E::Set(vec![l, E::Long(0)]))),
        |l, _| E::has(E::Rec(vec![("a".into(), l)]), "a"),
        |l, _| E::bin(BinOp::Lt, E::Neg(b(l)), E::Long(0)),
        |l, _| E::bin(BinOp::ContainsAll, E::Set(vec![l, E::Long(0)]), E::Set(vec![E::Long(0)])),
    ];
    // reflexive `in` on a self-recursive entity type, and set operations whose operands are
    // (possibly empty) sets held by the store (after seeds C18-a)
    {
        let red = || E::Ent(Uid::new("Color", "red"));
        let is_group = E::Is(b(rs.clone()), "Group".into());
        let more: Vec<(AS, E)> = vec![
            (AS::Eq(edit()), E::bin(BinOp::In, rs.clone(), E::Ent(gg()))),
            (AS::Eq(edit()), E::bin(BinOp::In, rs.clone(), E::Set(vec![E::Ent(gg())]))),
            (AS::Eq(edit()), E::and(is_group.clone(), E::bin(BinOp::In, rs.clone(), rs.clone()))),
            (AS::Eq(edit()), E::and(is_group.clone(), E::not(E::bin(BinOp::In, rs.clone(), E::Ent(gg()))))),
            (AS::Any, E::bin(BinOp::In, E::Ent(gg()), E::Ent(gg()))),
            (AS::Eq(view()), E::and(E::has(pr.clone(), "cols"), E::bin(BinOp::ContainsAll, E::attr(pr.clone(), "cols"), E::Set(vec![red()])))),
            (AS::Eq(view()), E::and(E::has(pr.clone(), "cols"), E::bin(BinOp::ContainsAll, E::Set(vec![red()]), E::attr(pr.clone(), "cols")))),
            (AS::Eq(view()), E::and(E::has(pr.clone(), "cols"), E::bin(BinOp::ContainsAny, E::attr(pr.clone(), "cols"), E::Set(vec![red()])))),
            (AS::Eq(view()), E::and(E::has(pr.clone(), "cols"), E::IsEmpty(b(E::attr(pr.clone(), "cols"))))),
            (AS::Eq(view()), E::and(E::has(rs.clone(), "eds"), E::bin(BinOp::ContainsAll, E::attr(rs.clone(), "eds"), E::Set(vec![pr.clone()])))),
            (AS::Eq(view()), E::and(E::has(rs.clone(), "eds"), E::bin(BinOp::ContainsAll, E::Set(vec![pr.clone(), E::Ent(ub())]), E::attr(rs.clone(), "eds")))),
            (AS::Eq(view()), E::and(E::has(rs.clone(), "eds"), E::bin(BinOp::Contains, E::attr(rs.clone(), "eds"), pr.clone()))),
            (AS::Eq(view()), E::and(E::has(rs.clone(), "eds"), E::bin(BinOp::In, pr.clone(), E::attr(rs.clone(), "eds")))),
            (AS::Eq(view()), E::bin(BinOp::ContainsAll, E::attr(rs.clone(), "labels"), E::Set(vec![E::str("x"), E::str("y")]))),
            (AS::Eq(view()), E::bin(BinOp::ContainsAll, E::Set(vec![E::str("x"), E::str("y")]), E::attr(rs.clone(), "labels"))),
            (AS::Eq(view()), E::and(E::and(E::has(rs.clone(), "eds"), E::has(pr.clone(), "cols")), E::bin(BinOp::Eq, E::IsEmpty(b(E::attr(rs.clone(), "eds"))), E::IsEmpty(b(E::attr(pr.clone(), "cols")))))),
        ];
        for (i, (act, e)) in more.into_iter().enumerate() {
            let mut p = Pol::simple(&format!("m{}", valid.len()), if i % 4 == 2 { Effect::Forbid } else { Effect::Permit }, Some(e));
            p.action = act;
            valid.push(p);
        }
    }
    // an entity mentioned ONLY at one operand position of one operator kind (after seed C15-a2:
    // the batched evaluator finds the entities to load by walking the residual)
    {
        let s_key = E::ite(E::attr(E::attr(rs.clone(), "meta"), "pub"), E::str("t1"), E::str("zz"));
        let r_pub = E::attr(E::attr(rs.clone(), "meta"), "pub");
        let r_owner = E::attr(rs.clone(), "owner");
        let r_age = E::attr(r_owner.clone(), "age");
        let p_age = E::attr(pr.clone(), "age");
        let only_at: Vec<E> = vec![
            E::bin(BinOp::HasTag, pr.clone(), s_key.clone()),
            E::and(E::bin(BinOp::HasTag, pr.clone(), s_key.clone()), E::bin(BinOp::Eq, E::bin(BinOp::GetTag, pr.clone(), s_key.clone()), E::str("x"))),
            E::Like(b(s_key.clone()), vec![Pat::Char('t'), Pat::Star]),
            E::Is(b(r_owner.clone()), "User".into()),
            E::bin(BinOp::Contains, E::Set(vec![r_owner.clone()]), pr.clone()),
            E::bin(BinOp::Eq, E::attr(E::Rec(vec![("a".into(), r_owner.clone())]), "a"), pr.clone()),
            E::ext("isInRange", vec![E::ext("ip", vec![E::str("10.0.0.1")]), E::ite(r_pub.clone(), E::ext("ip", vec![E::str("10.0.0.0/8")]), E::ext("ip", vec![E::str("::1")]))]),
            E::has(r_owner.clone(), "nick"),
            E::bin(BinOp::Lt, E::Neg(b(r_age.clone())), E::Long(0)),
            E::not(r_pub.clone()),
            E::IsEmpty(b(E::attr(rs.clone(), "labels"))),
            E::bin(BinOp::In, r_owner.clone(), E::Ent(gg())),
            E::bin(BinOp::Lt, p_age.clone(), r_age.clone()),
            E::bin(BinOp::Gt, E::bin(BinOp::Add, p_age.clone(), r_age.clone()), E::Long(0)),
            E::bin(BinOp::Contains, E::attr(rs.clone(), "labels"), s_key.clone()),
            E::bin(BinOp::ContainsAll, E::Set(vec![E::str("t1"), E::str("zz")]), E::Set(vec![s_key.clone()])),
            E::and(E::bin(BinOp::Gt, p_age.clone(), E::Long(1)), r_pub.clone()),
            E::or(E::bin(BinOp::Gt, p_age.clone(), E::Long(1)), r_pub.clone()),
            E::or(r_pub.clone(), E::bin(BinOp::Gt, p_age.clone(), E::Long(1))),
            E::ite(E::bin(BinOp::Gt, p_age.clone(), E::Long(1)), r_pub.clone(), E::Bool(true)),
            E::ite(E::bin(BinOp::Gt, p_age.clone(), E::Long(1)), E::Bool(true), r_pub.clone()),
            E::ite(r_pub.clone(), E::bin(BinOp::Gt, p_age.clone(), E::Long(1)), E::Bool(false)),
            E::bin(BinOp::Gt, E::attr(E::Ent(ub()), "age"), E::Long(1)),
            E::bin(BinOp::HasTag, E::Ent(ub()), E::str("t1")),
            E::bin(BinOp::Eq, E::attr(pr.clone(), "age"), E::attr(E::Ent(ub()), "age")),
        ];
        for (i, e) in only_at.into_iter().enumerate() {
            let mut p = Pol::simple(&format!("o{}", valid.len()), if i % 3 == 1 { Effect::Forbid } else { Effect::Permit }, Some(e));
            p.action = AS::Eq(view());
            valid.push(p);
        }
    }
    // `has` whose operand is an attribute of a request entity: the operand errors when that entity
    // does not exist, the `has` itself never does (after seed C15-b1)
    {
        let hs: Vec<E> = vec![
            E::has(E::attr(rs.clone(), "meta"), "rev"),
            E::has(E::attr(rs.clone(), "owner"), "nick"),
            E::Has(b(rs.clone()), vec!["meta".into(), "rev".into()]),
        ];
        let mut j = 0usize;
        for h in hs {
            for o in 0..4usize {
                j += 1;
                let t = if j % 2 == 0 { E::Bool(true) } else { E::Is(b(pr.clone()), "User".into()) };
                let f = E::not(t.clone());
                let e = match o {
                    0 => E::or(h.clone(), t),
                    1 => E::not(E::and(h.clone(), f)),
                    2 => E::or(E::not(h.clone()), t),
                    _ => E::ite(E::and(h.clone(), f), E::Bool(false), E::Bool(true)),
                };
                for eff in [Effect::Permit, Effect::Forbid] {
                    let mut p = Pol::simple(&format!("h{}", valid.len()), eff, Some(e.clone()));
                    p.action = AS::Eq(view());
                    valid.push(p);
                }
            }
        }
    }
    let mut k = 0usize;
    for l in &leaves {
        for c in &containers {
            let ce = c(l.clone(), pr.clone());
            for o in 0..5usize {
                k += 1;
                let known_t = if k % 2 == 0 { E::Bool(true) } else { E::Is(b(pr.clone()), "User".into()) };
                let known_f = if k % 2 == 0 { E::Bool(false) } else { E::not(E::Is(b(pr.clone()), "User".into())) };
                if tier == Tier::Quick && o >= 2 && (k % 3 != 0) {
                    continue;
                }
                let e = match o {
                    0 => E::or(ce.clone(), known_t),
                    1 => E::and(ce.clone(), known_f),
                    2 => E::ite(ce.clone(), known_t.clone(), known_t),
                    3 => E::or(E::not(ce.clone()), known_t),
                    _ => E::and(E::or(ce.clone(), known_t), E::bin(BinOp::Eq, E::attr(rs.clone(), "owner"), pr.clone())),
                };
                let mut p = Pol::simple(&format!("f{}", valid.len()), if k % 2 == 0 { Effect::Forbid } else { Effect::Permit }, Some(e));
                p.action = AS::Eq(view());
                valid.push(p);
            }
        }
    }
    let st = Style::default();
    let mut out = Vec::new();
    let mk = |ps: &[&Pol]| -> Option<cedar_policy::PolicySet> {
        let mut set = cedar_policy::PolicySet::new();
        for p in ps {
            set.add(cedar_policy::Policy::parse(Some(cedar_policy::PolicyId::new(&p.id)), p.text(&st)).ok()?).ok()?;
        }
        if validator.validate(&set, cedar_policy::ValidationMode::Strict).validation_errors().next().is_some() {
            return None;
        }
        Some(set)
    };
    for p in &valid {
        if let Some(s) = mk(&[p]) {
            out.push((vec![p.clone()], s));
        } else if std::env::var("MC_LOUD").is_ok() {
            eprintln!("policy_sets: not strictly valid, dropped: {}", p.text(&st));
        }
    }
    // pairs: each policy with its 1st and 5th successor, flipping one effect to mix permit/forbid
    let n = valid.len();
    for i in 0..n {
        for d in [1usize, 5] {
            let mut q = valid[(i + d) % n].clone();
            if d == 5 {
                q.effect = Effect::Forbid;
            }
            if q.id == valid[i].id {
                continue;
            }
            if let Some(s) = mk(&[&valid[i], &q]) {
                out.push((vec![valid[i].clone(), q], s));
            }
        }
    }
    out
}

fn outcome3(ev: &cedar_policy_core::evaluator::Evaluator<'_>, p: &ast::Policy) -> &'static str {
    match ev.evaluate(p) {
        Ok(true) => "sat",
        Ok(false) => "unsat",
        Err(_) => "err",
    }
}

pub fn run(tier: Tier, replay_file: Option<&str>) -> i32 {
    if let Some(p) = replay_file {
        return replay_by_rerun("C14", p, || run(Tier::Quick, None));
    }
    let ctx = Ctx::new("C14", tier);
    quiet_panics();
    let sch = w_schema();
    let Ok(schema) = sch.load_cedar() else {
        eprintln!("MACHINERY ERROR: schema does not load");
        return 2;
    };
    // concrete environments (the completion space)
    let mut envs: Vec<Env> = Vec::new();
    for s in stores(tier) {
        let Ok(cents) = c_entities_schema(&s, &schema) else {
            ctx.violation("precondition:store-rejected", "conformant store rejected", json!({}));
            continue;
        };
        for r in requests() {
            let Ok(creq) = c_request_schema(&r, &schema) else {
                ctx.violation("precondition:request-rejected", format!("{r:?}"), json!({}));
                continue;
            };
            envs.push(Env { req: r, store: with_actions(&s, &sch), creq, cents: cents.clone() });
        }
    }
    let psets = policy_sets(tier, &schema);
    ctx.set_info("policy_sets", json!(psets.len()));
    ctx.set_info("concrete_environments", json!(envs.len()));
    // base environments from which partial views are derived
    let nreq = requests().len();
    let base_idx: Vec<usize> = match tier {
        Tier::Quick => vec![0, 3 * nreq + 1, 17 * nreq + 2, (envs.len() / nreq - 1) * nreq + 5, 9 * nreq + 8],
        // 6 base environments spread over the store family and the request shapes
        Tier::Thorough => (0..envs.len() / nreq).step_by(43).flat_map(|s| [s * nreq + (s % nreq), s * nreq + ((s + 4) % nreq)]).collect(),
    };
    let ms = masks(tier);
    ctx.set_info("masks", json!(ms.len()));
    let mut partial_specs: Vec<(usize, Mask)> = Vec::new();
    for &bi in &base_idx {
        if bi >= envs.len() {
            continue;
        }
        for m in &ms {
            partial_specs.push((bi, *m));
        }
    }
    ctx.set_info("partial_views", json!(partial_specs.len()));
    let auth = cedar_policy::Authorizer::new();
    let exts = cedar_policy_core::extensions::Extensions::all_available();
    partial_specs.par_iter().for_each(|(bi, m)| {
        let mut l = Local::default();
        let base = &envs[*bi];
        let base_store: Store = {
            let mut s = base.store.clone();
            s.ents.retain(|u, _| u.ty != "Action");
            s
        };
        let partial = match make_partial(&base.req, &base_store, m, &sch, &schema) {
            Ok(p) => p,
            Err(_) => {
                // the library refuses this partial view (e.g. unknown ancestors of a parent): not a case
                l.case(hash_of(&(bi, m)), "partial-refused", false);
                ctx.merge(l);
                return;
            }
        };
        // completions: every concrete environment the library itself deems consistent
        let core_pe: &cedar_policy_core::tpe::entities::PartialEntities = partial.ents.as_ref();
        let core_pr: &cedar_policy_core::tpe::request::PartialRequest = partial.req.as_ref();
        let completions: Vec<&Env> = envs
            .iter()
            .filter(|e| {
                let r: &ast::Request = e.creq.as_ref();
                core_pr.check_consistency(r).is_ok() && core_pe.check_consistency(e.cents.as_ref()).is_ok()
            })
            .collect();
        // the environment the view was derived from must be among them (non-vacuity)
        if !completions.iter().any(|e| std::ptr::eq(*e, base)) {
            ctx.violation("consistency:base-env-inconsistent", format!("the environment a partial view was erased from is reported inconsistent with it (mask {m:?})"), json!({"mask": serde_json::to_value(m).unwrap(), "base": bi}));
        }
        for (pi, (pols, pset)) in psets.iter().enumerate() {
            let resp = match ctx.guard("tpe", || json!({"mask": serde_json::to_value(m).unwrap()}), || pset.tpe(&partial.req, &partial.ents, &schema)) {
                Some(Ok(r)) => r,
                Some(Err(e)) => {
                    ctx.violation("tpe:error", format!("tpe failed on a valid policy set / accepted partial inputs: {e}"), json!({"policies": pols.iter().map(|p| p.text(&Style::default())).collect::<Vec<_>>(), "mask": serde_json::to_value(m).unwrap()}));
                    continue;
                }
                None => continue,
            };
            l.transitions += 1;
            let decision = resp.decision();
            let key = hash_of(&(bi, m, pi));
            l.case(key, match decision {
                Some(cedar_policy::Decision::Allow) => "definite-allow",
                Some(cedar_policy::Decision::Deny) => "definite-deny",
                None => "residual",
            }, true);
            let rep = |extra: serde_json::Value| json!({"policies": pols.iter().map(|p| p.text(&Style::default())).collect::<Vec<_>>(), "mask": serde_json::to_value(m).unwrap(), "base_request": format!("{:?}", base.req), "base_env": bi, "detail": extra});
            // ---- all views present the same residuals ----
            let by_policies: BTreeMap<String, AbsPol> = resp.policies().filter_map(|p| abs_policy(p.as_ref()).ok()).map(|a| (a.id.clone(), a)).collect();
            let set_view = resp.policy_set();
            let by_set: BTreeMap<String, AbsPol> = AsRef::<ast::PolicySet>::as_ref(&set_view).policies().filter_map(|p| abs_policy(p).ok()).map(|a| (a.id.clone(), a)).collect();
            if by_policies != by_set {
                let id = by_policies.keys().find(|k| by_set.get(*k) != by_policies.get(*k)).cloned().unwrap_or_default();
                ctx.violation("views:policy_set-differs-from-policies", format!("TpeResponse::policy_set() does not hold the same residual as policies() for `{id}`: {:?} vs {:?}", by_set.get(&id).map(|a| &a.cond), by_policies.get(&id).map(|a| &a.cond)), rep(json!({"id": id})));
            }
            if by_policies.len() != pols.len() {
                ctx.violation("views:policies-count", format!("policies() returns {} residuals for {} policies", by_policies.len(), pols.len()), rep(json!({})));
            }
            for p in pols {
                let got = resp.get_policy(&cedar_policy::PolicyId::new(&p.id)).and_then(|q| abs_policy(q.as_ref()).ok());
                if got.as_ref() != by_policies.get(&p.id) {
                    ctx.violation("views:get_policy-differs", format!("get_policy({}) differs from policies()", p.id), rep(json!({})));
                }
            }
            let nontrivial: BTreeSet<String> = resp.residual_policies().map(|q| AsRef::<str>::as_ref(q.id()).to_string()).collect();
            for id in &nontrivial {
                let q = resp.residual_policies().find(|q| AsRef::<str>::as_ref(q.id()) == id).and_then(|q| abs_policy(q.as_ref()).ok());
                if q.as_ref() != by_policies.get(id) {
                    ctx.violation("views:residual_policies-differs", format!("residual_policies() entry {id} differs from policies()"), rep(json!({})));
                }
            }
            // residuals as a policy set built from the `policies()` view
            let mut resid_set = cedar_policy::PolicySet::new();
            for q in resp.policies() {
                let _ = resid_set.add(q);
            }
            // ---- every consistent completion ----
            for (ci, c) in completions.iter().enumerate() {
                let concrete = auth.is_authorized(&c.creq, pset, &c.cents);
                let via_resid = auth.is_authorized(&c.creq, &resid_set, &c.cents);
                l.transitions += 2;
                // completions of one (policy set, partial view) are distinct by construction
                l.bulk_cases(1, "completion");
                if let Some(d) = decision {
                    if concrete.decision() != d {
                        ctx.violation("decision:definite-decision-wrong", format!("TPE decided {d:?} but the consistent completion {:?} gives {:?}", c.req, concrete.decision()), rep(json!({"completion_request": format!("{:?}", c.req), "completion_store": serde_json::to_value(&c.store).unwrap()})));
                    }
                }
                if via_resid.decision() != concrete.decision() {
                    ctx.violation("residual:decision-differs", format!("residual policy set gives {:?}, original gives {:?} on completion {:?}", via_resid.decision(), concrete.decision(), c.req), rep(json!({"completion_request": format!("{:?}", c.req), "completion_store": serde_json::to_value(&c.store).unwrap()})));
                }
                // per policy: residual satisfied / unsatisfied / erroring exactly when the original is
                let r: &ast::Request = c.creq.as_ref();
                let ev = cedar_policy_core::evaluator::Evaluator::new(r.clone(), c.cents.as_ref(), exts);
                let orig_set: &ast::PolicySet = pset.as_ref();
                let res_set: &ast::PolicySet = resid_set.as_ref();
                for p in orig_set.policies() {
                    let Some(q) = res_set.get(p.id()) else { continue };
                    let (o, g) = (outcome3(&ev, p), outcome3(&ev, q));
                    l.transitions += 2;
                    if o != g {
                        let ptxt = pols.iter().find(|x| x.id == AsRef::<str>::as_ref(p.id())).map(|x| x.text(&Style::default())).unwrap_or_default();
                        ctx.violation(
                            format!("residual:outcome-differs:{o}->{g}"),
                            format!("policy `{ptxt}` is {o} on completion {:?} but its residual `{}` is {g}", c.req, q.condition()),
                            rep(json!({"completion_request": format!("{:?}", c.req), "completion_store": serde_json::to_value(&c.store).unwrap(), "policy": ptxt})),
                        );
                    }
                }
                // reauthorize through the API on the first few completions (it re-validates everything)
                if ci < 3 {
                    l.transitions += 1;
                    match resp.reauthorize(&c.creq, &c.cents) {
                        Err(e) => ctx.violation("reauthorize:refused-consistent-completion", format!("reauthorize refused a completion its own consistency checks accept: {e}"), rep(json!({"completion_request": format!("{:?}", c.req)}))),
                        Ok(r2) => {
                            let (a, b_) = (abs_response(&r2), abs_response(&concrete));
                            if a.decision != b_.decision || a.reasons != b_.reasons {
                                ctx.violation("reauthorize:differs", format!("reauthorize gives {a:?}, concrete authorization gives {b_:?}"), rep(json!({"completion_request": format!("{:?}", c.req)})));
                            }
                        }
                    }
                }
            }
        }
        ctx.merge(l);
    });
    queries(&ctx, tier, &sch, &schema, &envs, &psets);
    ctx.sample(json!({"policy_set": psets[psets.len() / 2].0.iter().map(|p| p.text(&Style::default())).collect::<Vec<_>>(), "mask": serde_json::to_value(&ms[ms.len() / 3]).unwrap()}));
    ctx.sample(json!({"policy_set": psets[0].0.iter().map(|p| p.text(&Style::default())).collect::<Vec<_>>(), "mask": serde_json::to_value(&ms[0]).unwrap()}));
    ctx.finish(
        "strictly valid policy sets (1-2 policies from the C03 type-directed set + TPE-stressing policies) x partial views (erasure masks over principal/resource id, context, per-entity attrs/ancestors/tags/existence applied to base environments) x every concrete environment of the completion space that the library's own consistency checks accept; plus permission queries vs brute force; case = (policy set, partial view) and each completion; all non-trivial",
        json!({"tier": tier.name(), "entity_mask_codes": "0 keep,1 attrs?,2 ancestors?,3 tags?,4 all?,5 unlisted"}),
        &["completions are exactly the concrete environments accepted by PartialEntities/PartialRequest::check_consistency and by schema-based validation", "residuals are evaluated by the real concrete evaluator"],
        true,
    )
}

/// permission queries vs brute force over the concrete authorizer
fn queries(ctx: &Ctx, tier: Tier, sch: &Schema, schema: &cedar_policy::Schema, envs: &[Env], psets: &[(Vec<Pol>, cedar_policy::PolicySet)]) {
    let auth = cedar_policy::Authorizer::new();
    let nreq = requests().len();
    let store_step = tier.pick(5, 2);
    let store_ids: Vec<usize> = (0..envs.len() / nreq).step_by(store_step).collect();
    store_ids.par_iter().for_each(|&si| {
        let mut l = Local::default();
        let e0 = &envs[si * nreq];
        let ents = &e0.cents;
        let Ok(pents) = cedar_policy::PartialEntities::from_concrete(ents.clone(), schema) else {
            ctx.violation("query:from_concrete-failed", "PartialEntities::from_concrete failed on a conformant store", json!({}));
            return;
        };
        for (pols, pset) in psets {
            let rep = |x: serde_json::Value| json!({"policies": pols.iter().map(|p| p.text(&Style::default())).collect::<Vec<_>>(), "store": serde_json::to_value(&e0.store).unwrap(), "detail": x});
            for ri in 0..nreq {
                let env = &envs[si * nreq + ri];
                let req = &env.req;
                // ---- query_resource: candidates of the resource type for which the request is allowed ----
                let ctxc = c_context(&req.context);
                if let Ok(q) = cedar_policy::ResourceQueryRequest::new(c_uid(&req.principal), c_uid(&req.action), tn(&req.resource.ty), ctxc.clone(), schema) {
                    l.transitions += 1;
                    match pset.query_resource(&q, ents, schema) {
                        Err(e) => ctx.violation("query_resource:error", format!("{e}"), rep(json!({"request": format!("{req:?}")}))),
                        Ok(it) => {
                            let got: BTreeSet<String> = it.map(|u| u.to_string()).collect();
                            let mut want = BTreeSet::new();
                            for ent in ents.iter() {
                                if ent.uid().type_name().to_string() == req.resource.ty {
                                    if let Ok(r) = cedar_policy::Request::new(c_uid(&req.principal), c_uid(&req.action), ent.uid(), ctxc.clone(), Some(schema)) {
                                        if auth.is_authorized(&r, pset, ents).decision() == cedar_policy::Decision::Allow {
                                            want.insert(ent.uid().to_string());
                                        }
                                    }
                                }
                            }
                            l.case(hash_of(&(si, ri, &pols[0].id, pols.len(), "qr")), if want.is_empty() { "query_resource:none" } else { "query_resource:some" }, true);
                            if got != want {
                                ctx.violation("query_resource:differs", format!("query_resource gives {got:?}, brute force gives {want:?} for {req:?}"), rep(json!({"request": format!("{req:?}")})));
                            }
                        }
                    }
                }
                // ---- query_principal ----
                if let Ok(q) = cedar_policy::PrincipalQueryRequest::new(tn(&req.principal.ty), c_uid(&req.action), c_uid(&req.resource), ctxc.clone(), schema) {
                    l.transitions += 1;
                    match pset.query_principal(&q, ents, schema) {
                        Err(e) => ctx.violation("query_principal:error", format!("{e}"), rep(json!({"request": format!("{req:?}")}))),
                        Ok(it) => {
                            let got: BTreeSet<String> = it.map(|u| u.to_string()).collect();
                            let mut want = BTreeSet::new();
                            for ent in ents.iter() {
                                if ent.uid().type_name().to_string() == req.principal.ty {
                                    if let Ok(r) = cedar_policy::Request::new(ent.uid(), c_uid(&req.action), c_uid(&req.resource), ctxc.clone(), Some(schema)) {
                                        if auth.is_authorized(&r, pset, ents).decision() == cedar_policy::Decision::Allow {
                                            want.insert(ent.uid().to_string());
                                        }
                                    }
                                }
                            }
                            l.case(hash_of(&(si, ri, &pols[0].id, pols.len(), "qp")), if want.is_empty() { "query_principal:none" } else { "query_principal:some" }, true);
                            if got != want {
                                ctx.violation("query_principal:differs", format!("query_principal gives {got:?}, brute force gives {want:?} for {req:?}"), rep(json!({"request": format!("{req:?}")})));
                            }
                        }
                    }
                }
            }
            // ---- query_action with fully known principal/resource and known context (per request shape) ----
            for ri in 0..nreq {
                let req = &envs[si * nreq + ri].req;
                let Ok(aq) = cedar_policy::ActionQueryRequest::new(partial_uid(&req.principal, false), partial_uid(&req.resource, false), Some(c_context(&req.context)), schema.clone()) else { continue };
                l.transitions += 1;
                let qres: Result<BTreeMap<String, Option<cedar_policy::Decision>>, String> = pset.query_action(&aq, &pents).map(|it| it.map(|(a, d)| (a.to_string(), d)).collect()).map_err(|e| e.to_string());
                match qres {
                    Err(e) => ctx.violation("query_action:error", format!("{e}"), rep(json!({"request": format!("{req:?}")}))),
                    Ok(got) => {
                        // brute force over every declared action: everything is concrete here
                        for a in &sch.acts {
                            let au = Uid::new("Action", &a.id);
                            let Ok(r) = cedar_policy::Request::new(c_uid(&req.principal), c_uid(&au), c_uid(&req.resource), c_context(&req.context), Some(schema)) else { continue };
                            let allowed = auth.is_authorized(&r, pset, ents).decision() == cedar_policy::Decision::Allow;
                            let key = c_uid(&au).to_string();
                            l.case(hash_of(&(si, ri, &pols[0].id, pols.len(), &a.id, "qa")), if allowed { "query_action:allowed" } else { "query_action:denied" }, true);
                            match got.get(&key) {
                                None => {
                                    if allowed {
                                        ctx.violation("query_action:omits-allowed-action", format!("query_action omits {key}, which is allowed for {req:?}"), rep(json!({"request": format!("{req:?}")})));
                                    }
                                }
                                Some(Some(cedar_policy::Decision::Allow)) => {
                                    if !allowed {
                                        ctx.violation("query_action:definitely-allowed-but-denied", format!("query_action labels {key} definitely allowed but the concrete request is denied: {req:?}"), rep(json!({"request": format!("{req:?}")})));
                                    }
                                }
                                Some(_) => {}
                            }
                        }
                    }
                }
            }
            // ---- query_action with unknown principal / resource ids and unknown context ----
            for (pt, rt) in [("User", "Doc"), ("User", "Group")] {
                let Ok(aq) = cedar_policy::ActionQueryRequest::new(cedar_policy::PartialEntityUid::new(tn(pt), None), cedar_policy::PartialEntityUid::new(tn(rt), None), None, schema.clone()) else { continue };
                l.transitions += 1;
                let qres: Result<BTreeMap<String, Option<cedar_policy::Decision>>, String> = pset.query_action(&aq, &pents).map(|it| it.map(|(a, d)| (a.to_string(), d)).collect()).map_err(|e| e.to_string());
                let got = match qres {
                    Ok(g) => g,
                    Err(e) => {
                        ctx.violation("query_action:error", format!("{e}"), rep(json!({"principal_type": pt, "resource_type": rt})));
                        continue;
                    }
                };
                for a in &sch.acts {
                    let au = Uid::new("Action", &a.id);
                    let key = c_uid(&au).to_string();
                    // the concrete requests of this store that complete (pt, action, rt, unknown context)
                    let (mut n, mut any_allowed, mut all_allowed) = (0, false, true);
                    for ri in 0..nreq {
                        let env = &envs[si * nreq + ri];
                        if env.req.action != au || env.req.principal.ty != pt || env.req.resource.ty != rt {
                            continue;
                        }
                        n += 1;
                        let allowed = auth.is_authorized(&env.creq, pset, ents).decision() == cedar_policy::Decision::Allow;
                        any_allowed |= allowed;
                        all_allowed &= allowed;
                    }
                    if n == 0 {
                        continue;
                    }
                    l.case(hash_of(&(si, &pols[0].id, pols.len(), &a.id, pt, rt, "qa-unknown")), if any_allowed { "query_action-unknown:some-completion-allowed" } else { "query_action-unknown:no-completion-allowed" }, true);
                    match got.get(&key) {
                        None => {
                            if any_allowed {
                                ctx.violation("query_action:omits-allowed-action", format!("query_action with unknown {pt}/{rt} ids omits {key}, which is allowed for a completion"), rep(json!({"principal_type": pt, "resource_type": rt})));
                            }
                        }
                        Some(Some(cedar_policy::Decision::Allow)) => {
                            if !all_allowed {
                                ctx.violation("query_action:definitely-allowed-but-denied", format!("query_action with unknown {pt}/{rt} ids labels {key} definitely allowed but a completion is denied"), rep(json!({"principal_type": pt, "resource_type": rt})));
                            }
                        }
                        Some(_) => {}
                    }
                }
            }
        }
        ctx.merge(l);
    });
}
