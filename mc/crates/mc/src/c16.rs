//! C16 — level validation guarantees the level-n entity slice suffices.
use crate::bind::*;
use crate::harness::*;
use crate::lvl::*;
use crate::schema::*;
use rayon::prelude::*;
use refsem::print::Style;
use refsem::*;
use serde_json::json;
use std::collections::BTreeMap;

pub const MAX_LEVEL: usize = 4;

pub fn run(tier: Tier, replay_file: Option<&str>) -> i32 {
    if let Some(p) = replay_file {
        return replay_by_rerun("C16", p, || run(Tier::Quick, None));
    }
    let ctx = Ctx::new("C16", tier);
    quiet_panics();
    let sch = l_schema();
    let schema = match sch.load_cedar() {
        Ok(s) => s,
        Err(e) => {
            eprintln!("MACHINERY ERROR: level schema does not load: {e}");
            return 2;
        }
    };
    let pols = policies(tier);
    let st = Style::default();
    let validator = cedar_policy::Validator::new(schema.clone());
    // per mode and policy: accepted at level n?  (None = not valid in that mode at all)
    let modes = [(cedar_policy::ValidationMode::Strict, "strict"), (cedar_policy::ValidationMode::Permissive, "permissive")];
    let mut all_verdicts: Vec<Vec<Option<Vec<bool>>>> = Vec::new();
    // policy sets accepted at level n, per mode
    let mut all_psets: Vec<Vec<(cedar_policy::PolicySet, Vec<usize>)>> = Vec::new();
    for (mode, mode_name) in modes {
        let verdicts: Vec<Option<Vec<bool>>> = pols
            .par_iter()
            .map(|lp| {
                let mut l = Local::default();
                let text = lp.pol.text(&st);
                let p = match cedar_policy::Policy::parse(Some(cedar_policy::PolicyId::new(&lp.pol.id)), &text) {
                    Ok(p) => p,
                    Err(e) => {
                        ctx.violation("gen:text-rejected", format!("{text}: {e}"), json!({"text": text}));
                        return None;
                    }
                };
                let set = cedar_policy::PolicySet::from_policies([p]).ok()?;
                let plain = validator.validate(&set, mode);
                l.transitions += 1;
                if plain.validation_errors().next().is_some() {
                    // the generator aims at valid policies; an invalid one is simply not a case
                    l.case(hash_of(&(&lp.pol, mode_name)), &format!("not-{mode_name}-valid"), false);
                    ctx.merge(l);
                    return None;
                }
                let mut acc = Vec::new();
                for n in 0..=MAX_LEVEL + 1 {
                    let r = validator.validate_with_level(&set, mode, n as u32);
                    l.transitions += 1;
                    acc.push(r.validation_errors().next().is_none());
                }
                // raising n never turns acceptance into rejection
                for n in 0..=MAX_LEVEL {
                    if acc[n] && !acc[n + 1] {
                        ctx.violation(format!("not-monotone-in-level:{mode_name}"), format!("accepted at level {n} but rejected at level {} ({mode_name}): {text}", n + 1), json!({"text": text, "level": n, "mode": mode_name}));
                    }
                }
                let min = acc.iter().position(|x| *x);
                l.case(hash_of(&(&lp.pol, mode_name)), &format!("min-level-{}", min.map(|m| m.to_string()).unwrap_or("none".into())), true);
                ctx.merge(l);
                Some(acc)
            })
            .collect();
        let valid_count = verdicts.iter().filter(|v| v.is_some()).count();
        ctx.set_info("policies", json!(pols.len()));
        ctx.set_info(&format!("{mode_name}_valid"), json!(valid_count));
        let mut hist: BTreeMap<String, usize> = BTreeMap::new();
        for v in verdicts.iter().flatten() {
            *hist.entry(format!("{:?}", v.iter().position(|x| *x))).or_insert(0) += 1;
        }
        ctx.set_info(&format!("min_level_histogram_{mode_name}"), json!(hist));
        if valid_count * 2 < pols.len() {
            eprintln!("MACHINERY ERROR: fewer than half of the generated level policies are {mode_name}-valid ({valid_count}/{})", pols.len());
            return 2;
        }
        let mut psets: Vec<(cedar_policy::PolicySet, Vec<usize>)> = Vec::new();
        for n in 0..=MAX_LEVEL {
            let mut set = cedar_policy::PolicySet::new();
            let mut idx = Vec::new();
            for (i, lp) in pols.iter().enumerate() {
                if let Some(v) = &verdicts[i] {
                    // a policy already in the strict set of level n need not be authorized again in
                    // the permissive set (per-policy outcomes do not depend on the rest of the set)
                    let dup = all_verdicts.first().map(|sv: &Vec<Option<Vec<bool>>>| sv[i].as_ref().map(|x| x[n]).unwrap_or(false)).unwrap_or(false);
                    if v[n] && !dup {
                        if let Ok(p) = cedar_policy::Policy::parse(Some(cedar_policy::PolicyId::new(&lp.pol.id)), lp.pol.text(&st)) {
                            let _ = set.add(p);
                            idx.push(i);
                        }
                    }
                }
            }
            // the whole set must also be accepted at level n
            let r = validator.validate_with_level(&set, mode, n as u32);
            if r.validation_errors().next().is_some() {
                ctx.violation(format!("set-vs-single-verdict:{mode_name}"), format!("policies accepted one by one at level {n} ({mode_name}) are rejected as a set"), json!({"level": n, "mode": mode_name}));
            }
            psets.push((set, idx));
        }
        all_verdicts.push(verdicts);
        all_psets.push(psets);
    }
    // environments
    let stores = l_stores(tier);
    let reqs = l_requests();
    ctx.set_info("stores", json!(stores.len()));
    ctx.set_info("requests", json!(reqs.len()));
    let auth = cedar_policy::Authorizer::new();
    let tight: std::sync::Mutex<std::collections::BTreeSet<String>> = std::sync::Mutex::new(Default::default());
    stores.par_iter().enumerate().for_each(|(si, s)| {
        let mut l = Local::default();
        // precondition by the library itself: the store must be accepted with the schema
        if let Err(e) = c_entities_schema(s, &schema) {
            ctx.violation("precondition:store-rejected", format!("conformant store rejected: {e}"), json!({"store": serde_json::to_value(s).unwrap()}));
            return;
        }
        // the full store holds the action entities of the schema too
        let s = &with_actions(s, &sch);
        let full = c_entities(s);
        for (ri, r) in reqs.iter().enumerate() {
            let Ok(creq) = c_request_schema(r, &schema) else {
                ctx.violation("precondition:request-rejected", format!("{r:?}"), json!({}));
                continue;
            };
            for (mi, n) in (0..modes.len()).flat_map(|m| (0..=MAX_LEVEL).map(move |n| (m, n))) {
                let mode_name = modes[mi].1;
                let verdicts = &all_verdicts[mi];
                let (pset, idx) = &all_psets[mi][n];
                let slice = level_slice(s, r, n);
                let csl = c_entities(&slice);
                let a = abs_response(&auth.is_authorized(&creq, pset, &full));
                let b_ = abs_response(&auth.is_authorized(&creq, pset, &csl));
                l.transitions += 2;
                let differs = slice.ents.len() != s.ents.len();
                let _ = mode_name;
                l.case(hash_of(&(si, ri, n, mi)), if differs { "slice-smaller-than-store" } else { "slice-is-whole-store" }, differs);
                // teeth of the oracle (informational): policies whose minimal accepted level is n
                // and whose answer DOES change on the level-(n-1) slice somewhere
                if n >= 1 {
                    let under = level_slice(s, r, n - 1);
                    let c_under = c_entities(&under);
                    let u_ = abs_response(&auth.is_authorized(&creq, pset, &c_under));
                    for id in a.reasons.symmetric_difference(&u_.reasons).chain(a.errors.symmetric_difference(&u_.errors)) {
                        if let Some(i) = idx.iter().find(|i| pols[**i].pol.id == *id) {
                            if verdicts[*i].as_ref().map(|v| v.iter().position(|x| *x) == Some(n)).unwrap_or(false) {
                                tight.lock().unwrap().insert(id.clone());
                            }
                        }
                    }
                }
                if a != b_ {
                    // name the policies whose outcome changed
                    let mut changed: Vec<String> = Vec::new();
                    for id in a.reasons.symmetric_difference(&b_.reasons).chain(a.errors.symmetric_difference(&b_.errors)) {
                        changed.push(id.clone());
                    }
                    changed.sort();
                    changed.dedup();
                    let first = changed.first().cloned().unwrap_or_default();
                    let lp = idx.iter().map(|i| &pols[*i]).find(|p| p.pol.id == first);
                    let shape = lp.map(|p| p.shape.clone()).unwrap_or_default();
                    let text = lp.map(|p| p.pol.text(&st)).unwrap_or_default();
                    ctx.violation(
                        format!("slice-insufficient:{mode_name}:level{n}:{}", shape.split(':').skip(1).collect::<Vec<_>>().join(":")),
                        format!("policy accepted at level {n} ({mode_name}) answers differently on the level-{n} slice: `{text}` request {r:?}; full: {a:?} slice: {b_:?} (decision {:?} vs {:?})", a.decision, b_.decision),
                        json!({"level": n, "policy": text, "request": format!("{r:?}"), "store": serde_json::to_value(s).unwrap(), "slice": serde_json::to_value(&slice).unwrap(), "changed_policies": changed}),
                    );
                }
            }
        }
        ctx.merge(l);
    });
    ctx.set_info("policies_whose_minimal_level_is_tight", json!(tight.lock().unwrap().len()));
    for lp in pols.iter().step_by((pols.len() / 6).max(1)) {
        ctx.sample(json!({"policy": lp.pol.text(&st), "shape": lp.shape}));
    }
    ctx.finish(
        "dereference-chain policies (every entity-valued access path of <= 2/3 steps from principal/resource/context roots through attributes, nested records, optional attributes and tags x terminal observation {attr, has, hasTag, in, in-set, ==, is, in-right} x wrappers {record literal, nested record literal, if-branches, ||-right, set}) validated at levels 0..5 in strict and in permissive mode (+ shapes only permissive validation accepts, + an action hierarchy with literals of the own / another action); for every mode and level n, the set of policies accepted at n is authorized on every conformant (store, request) over the full store and over the level-n slice built from the definition; case = policy (verdict vector) and (store, request, level); non-trivial = the slice is a proper subset of the store",
        json!({"max_level": MAX_LEVEL, "tier": tier.name()}),
        &["slice definition lvl.rs::level_slice (RFC-76 reading: level 0 loads nothing)", "stores are used only if schema-based validation accepts them"],
        true,
    )
}
