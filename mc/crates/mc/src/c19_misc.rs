//! C19 legs 2-5: validate_json, format_json, check_parse_*_json, conversions — table-driven,
//! every table entry x every setting, against the plain Rust API.
use super::{api_pset, chain_msg, err_messages, requests, schema_w_json, uid_js, Plan, Src, SCHEMA_2_CEDAR, SCHEMA_W_CEDAR};
use crate::bind::*;
use crate::harness::*;
use crate::world::*;
use cedar_policy::ffi;
use miette::Diagnostic;
use rayon::prelude::*;
use refsem::print::Style;
use refsem::*;
use serde::{Deserialize, Serialize};
use serde_json::{json, Value as J};

#[derive(Clone, Debug, Serialize, Deserialize)]
pub enum SchemaIn {
    Cedar(String),
    Json(J),
}

impl SchemaIn {
    pub fn doc(&self) -> J {
        match self {
            SchemaIn::Cedar(s) => json!(s),
            SchemaIn::Json(j) => j.clone(),
        }
    }
    /// oracle side: straight to `Schema`
    pub fn api(&self) -> Result<cedar_policy::Schema, String> {
        match self {
            SchemaIn::Cedar(s) => cedar_policy::Schema::from_cedarschema_str(s).map(|(s, _)| s).map_err(|e| e.to_string()),
            SchemaIn::Json(j) => cedar_policy::Schema::from_json_value(j.clone()).map_err(|e| e.to_string()),
        }
    }
    pub fn fragment(&self) -> Result<cedar_policy::SchemaFragment, String> {
        match self {
            SchemaIn::Cedar(s) => cedar_policy::SchemaFragment::from_cedarschema_str(s).map(|(s, _)| s).map_err(|e| e.to_string()),
            SchemaIn::Json(j) => cedar_policy::SchemaFragment::from_json_value(j.clone()).map_err(|e| e.to_string()),
        }
    }
    fn kind(&self) -> &'static str {
        match self {
            SchemaIn::Cedar(_) => "cedar",
            SchemaIn::Json(_) => "json",
        }
    }
}

/// one policy of a validation call: a static policy, or a template (id `id`) with one link
#[derive(Clone, Debug, Serialize, Deserialize)]
pub struct VPol {
    pub id: String,
    pub text: String,
    pub link: Option<(String, Option<Uid>, Option<Uid>)>,
}

#[derive(Clone, Copy, Debug, PartialEq, Eq, Hash, Serialize, Deserialize)]
pub enum VShape {
    /// staticPolicies as {id: text}
    MapText,
    /// staticPolicies as one concatenated text (ids policy0..)
    Concat,
    /// staticPolicies as {id: EST}, templates as EST
    MapJson,
}

#[derive(Clone, Debug, Serialize, Deserialize)]
pub enum Item {
    Validate { pols: Vec<VPol>, schema: SchemaIn, mode: Option<String>, shape: VShape },
    Format { text: String, config: Option<(usize, isize)> },
    ParsePolicySet { label: String, doc: J, plan: Plan },
    ParseSchema { label: String, schema: SchemaIn },
    ParseEntities { label: String, entities: J, schema: Option<SchemaIn> },
    ParseContext { label: String, context: J, schema: Option<SchemaIn>, action: Option<J> },
    ParseScope { principal: Uid, action: Uid, resource: Uid, schema: SchemaIn },
    PolicyToJson { src: Src },
    PolicyToText { src: Src },
    TemplateToJson { src: Src },
    TemplateToText { src: Src },
    SchemaToText { schema: SchemaIn },
    SchemaToJson { schema: SchemaIn },
    TextToParts { texts: Vec<String>, sep: String },
}

impl Item {
    fn leg(&self) -> &'static str {
        match self {
            Item::Validate { .. } => "validate",
            Item::Format { .. } => "format",
            Item::ParsePolicySet { .. } | Item::ParseSchema { .. } | Item::ParseEntities { .. } | Item::ParseContext { .. } | Item::ParseScope { .. } => "check_parse",
            _ => "convert",
        }
    }
}

// ---------------------------------------------------------------------------------------
// tables
// ---------------------------------------------------------------------------------------

/// (label, policy text) — valid, ill-typed and impossible policies with respect to schema W
pub fn policy_table() -> Vec<(&'static str, String)> {
    let v: Vec<(&str, &str)> = vec![
        // ---- valid
        ("ok:any", r#"permit(principal, action, resource);"#),
        ("ok:scope-eq", r#"permit(principal == User::"a", action == Action::"view", resource == Doc::"d");"#),
        ("ok:scope-in", r#"permit(principal in Group::"g", action in Action::"readers", resource in Group::"g");"#),
        ("ok:is-attrs", r#"permit(principal is User, action == Action::"view", resource is Doc) when { principal.age > 3 && resource.owner == principal };"#),
        ("ok:has-like", r#"permit(principal, action == Action::"view", resource is Doc) when { principal has nick && principal.nick like "a*" };"#),
        ("ok:forbid-unless", r#"forbid(principal, action == Action::"view", resource is Doc) unless { resource.meta.pub };"#),
        ("ok:ext", r#"permit(principal, action == Action::"view", resource is Doc) when { resource has ip && resource.ip.isIpv4() };"#),
        ("ok:context", r#"permit(principal, action == Action::"view", resource) when { context.n < 10 && context has who && context.who.age == 1 };"#),
        ("ok:set", r#"permit(principal, action == Action::"view", resource is Doc) when { resource.labels.contains("x") };"#),
        ("ok:tags", r#"permit(principal, action == Action::"view", resource is Doc) when { principal.hasTag("t") && principal.getTag("t") == "x" };"#),
        ("ok:optional-entity", r#"permit(principal, action == Action::"edit", resource) when { principal has mgr && principal.mgr.age >= 0 };"#),
        ("ok:action-list", r#"permit(principal, action in [Action::"view", Action::"edit"], resource is Doc) when { resource.owner.age == 1 };"#),
        ("ok:is-in", r#"forbid(principal is User in Group::"g", action, resource is Doc in Group::"h");"#),
        ("ok:has-path", r#"permit(principal, action == Action::"view", resource is Doc) when { resource has meta.rev && resource.meta.rev > 0 };"#),
        ("ok:quoted-attr", r#"permit(principal, action == Action::"view", resource is Doc) when { principal has "k y" && principal["k y"] };"#),
        ("ok:annotated", "@id(\"ann\")\n@note(\"x\")\npermit(principal, action == Action::\"edit\", resource) when { principal.age < 100 };"),
        // ---- ill-typed
        ("bad:eq-types", r#"permit(principal, action == Action::"view", resource) when { principal.age == "x" };"#),
        ("bad:unguarded-optional", r#"permit(principal, action == Action::"view", resource) when { principal.nick == "a" };"#),
        ("bad:no-such-attr", r#"permit(principal, action == Action::"view", resource) when { principal.nosuch };"#),
        ("bad:arith", r#"permit(principal, action == Action::"view", resource) when { context.n + "a" > 1 };"#),
        ("bad:entity-type", r#"permit(principal == Nope::"x", action, resource);"#),
        ("bad:action", r#"permit(principal, action == Action::"nope", resource);"#),
        ("bad:non-bool", r#"permit(principal, action == Action::"view", resource) when { resource.owner };"#),
        ("bad:if-branches", r#"permit(principal, action == Action::"view", resource is Doc) when { if principal.age > 1 then 1 else "a" };"#),
        ("bad:hetero-set", r#"permit(principal, action == Action::"view", resource is Doc) when { [1, "a"].contains(1) };"#),
        ("bad:contains-type", r#"permit(principal, action == Action::"view", resource is Doc) when { resource.labels.contains(1) };"#),
        ("bad:unguarded-tag", r#"permit(principal, action == Action::"view", resource is Doc) when { principal.getTag("t") == "x" };"#),
        ("bad:ext-ctor", r#"permit(principal, action == Action::"view", resource is Doc) when { ip("not an ip").isIpv4() };"#),
        ("bad:attr-of-long", r#"permit(principal, action == Action::"view", resource is Doc) when { principal.age.foo };"#),
        ("bad:unguarded-context", r#"permit(principal, action == Action::"view", resource is Doc) when { context.who.age > 1 };"#),
        ("bad:two-errors", r#"permit(principal, action == Action::"view", resource is Doc) when { principal.nosuch && resource.nosuch2 };"#),
        // ---- impossible / warnings
        ("imp:principal-type", r#"permit(principal is Doc, action == Action::"view", resource);"#),
        ("imp:resource-type", r#"permit(principal, action == Action::"edit", resource is Group);"#),
        ("imp:false", r#"permit(principal, action, resource) when { false };"#),
        ("imp:principal-eq", r#"permit(principal == Group::"g", action == Action::"view", resource);"#),
        ("imp:action-group", r#"permit(principal, action == Action::"readers", resource);"#),
        ("imp:and-false", r#"permit(principal, action == Action::"view", resource) when { principal.age > 1 && false };"#),
        ("imp:in-wrong-type", r#"permit(principal, action == Action::"view", resource is Doc) when { principal in resource };"#),
        ("warn:bidi", "permit(principal, action, resource) when { \"a\u{202e}b\" == \"c\" };"),
        ("warn:mixed-script", "permit(principal, action, resource) when { \"say_\u{4bb}ello\" == \"c\" };"),
    ];
    v.into_iter().map(|(a, b)| (a, b.to_string())).collect()
}

/// templates with a link each
pub fn template_table() -> Vec<(&'static str, String, Option<Uid>, Option<Uid>)> {
    vec![
        ("tmpl:ok", r#"permit(principal == ?principal, action == Action::"view", resource in ?resource);"#.to_string(), Some(ua()), Some(gg())),
        ("tmpl:wrong-link-type", r#"permit(principal == ?principal, action == Action::"view", resource in ?resource);"#.to_string(), Some(dd()), Some(gg())),
        ("tmpl:bad-body", r#"permit(principal in ?principal, action, resource) when { principal.nosuch };"#.to_string(), Some(gg()), None),
        ("tmpl:is-in", r#"forbid(principal is User in ?principal, action == Action::"edit", resource) unless { principal.age > 1 };"#.to_string(), Some(gh()), None),
    ]
}

pub fn schema_table() -> Vec<(&'static str, SchemaIn)> {
    let c = |s: &str| SchemaIn::Cedar(s.to_string());
    vec![
        ("ok:W-cedar", c(SCHEMA_W_CEDAR)),
        ("ok:W-json", SchemaIn::Json(schema_w_json())),
        ("ok:S2-cedar", c(SCHEMA_2_CEDAR)),
        ("ok:empty-cedar", c("")),
        ("ok:empty-json", SchemaIn::Json(json!({}))),
        ("ok:namespace-cedar", c("namespace NS { entity Thing; action act appliesTo { principal: [Thing], resource: [Thing] }; }")),
        ("ok:common-type-cedar", c("type T = { a: Long, b?: Set<String> }; entity E = { t: T }; action a appliesTo { principal: [E], resource: [E], context: T };")),
        ("ok:enum-cedar", c("entity Color enum [\"red\", \"green\"]; entity E = { c: Color }; action a appliesTo { principal: [E], resource: [Color] };")),
        ("ok:namespace-json", SchemaIn::Json(json!({"NS": {"entityTypes": {"Thing": {}}, "actions": {"act": {"appliesTo": {"principalTypes": ["Thing"], "resourceTypes": ["NS::Thing"]}}}}}))),
        ("ok:common-type-json", SchemaIn::Json(json!({"": {"commonTypes": {"T": {"type": "Record", "attributes": {"a": {"type": "Long"}}}}, "entityTypes": {"E": {"shape": {"type": "T"}}}, "actions": {"a": {"appliesTo": {"principalTypes": ["E"], "resourceTypes": ["E"], "context": {"type": "T"}}}}}}))),
        ("ok:quoted-names-cedar", c("entity E = { \"if\": Long, \"a b\": String }; action \"view photo\" appliesTo { principal: [E], resource: [E] };")),
        ("bad:syntax-cedar", c("entity User = { age: Long ")),
        ("bad:keyword-cedar", c("entitty User;")),
        ("bad:unknown-type-cedar", c("entity User = { m: Nope }; ")),
        ("bad:duplicate-entity-cedar", c("entity User; entity User;")),
        ("bad:unknown-parent-cedar", c("entity User in [Nope];")),
        ("bad:action-cycle-cedar", c("action a in [b]; action b in [a];")),
        ("bad:common-cycle-cedar", c("type A = B; type B = A; entity E = { a: A };")),
        ("bad:unknown-applies-cedar", c("entity E; action a appliesTo { principal: [Nope], resource: [E] };")),
        ("bad:structure-json", SchemaIn::Json(json!({"": {"entityTypes": {"User": {"shape": {"type": "Long"}}}, "actions": {}}}))),
        ("bad:missing-actions-json", SchemaIn::Json(json!({"": {"entityTypes": {}}}))),
        ("bad:unknown-type-json", SchemaIn::Json(json!({"": {"entityTypes": {"User": {"shape": {"type": "Record", "attributes": {"m": {"type": "Entity", "name": "Nope"}}}}}, "actions": {}}}))),
        ("bad:unknown-member-json", SchemaIn::Json(json!({"": {"entityTypes": {"User": {"memberOfTypes": ["Nope"]}}, "actions": {}}}))),
        ("bad:action-member-json", SchemaIn::Json(json!({"": {"entityTypes": {}, "actions": {"a": {"memberOf": [{"id": "nope"}]}}}}))),
        ("bad:not-an-object-json", SchemaIn::Json(json!([1, 2]))),
        ("bad:unknown-key-json", SchemaIn::Json(json!({"": {"entityTypes": {}, "actions": {}, "bogus": 1}}))),
    ]
}

fn w_schemas() -> Vec<SchemaIn> {
    vec![SchemaIn::Cedar(SCHEMA_W_CEDAR.to_string()), SchemaIn::Json(schema_w_json())]
}

fn ent_js(uid: &Uid, attrs: J, parents: Vec<Uid>, tags: Option<J>) -> J {
    let mut m = serde_json::Map::new();
    m.insert("uid".into(), uid_js(uid, true));
    m.insert("attrs".into(), attrs);
    m.insert("parents".into(), J::Array(parents.iter().map(|p| uid_js(p, true)).collect()));
    if let Some(t) = tags {
        m.insert("tags".into(), t);
    }
    J::Object(m)
}

/// (label, entities document, needs schema: None = run with no schema and both syntaxes)
pub fn entities_table() -> Vec<(&'static str, J)> {
    let s = store1();
    let user_ok = ent_js(&ua(), json!({"age": 3}), vec![], None);
    vec![
        ("store1-explicit", super::entities_js(&s, false)),
        ("store1-implicit", super::entities_js(&s, true)),
        ("empty", json!([])),
        ("one-user", json!([user_ok])),
        ("wrong-attr-type", json!([ent_js(&ua(), json!({"age": "3"}), vec![], None)])),
        ("missing-required", json!([ent_js(&ua(), json!({}), vec![], None)])),
        ("undeclared-attr", json!([ent_js(&ua(), json!({"age": 3, "zzz": 1}), vec![], None)])),
        ("unknown-entity-type", json!([ent_js(&u("Nope", "x"), json!({}), vec![], None)])),
        ("parent-cycle", json!([ent_js(&gg(), json!({}), vec![gh()], None), ent_js(&gh(), json!({}), vec![gg()], None)])),
        ("self-parent", json!([ent_js(&gg(), json!({}), vec![gg()], None)])),
        ("duplicate-uid", json!([ent_js(&gg(), json!({}), vec![], None), ent_js(&gg(), json!({}), vec![], None)])),
        ("action-mismatch", json!([ent_js(&view(), json!({}), vec![], None)])),
        ("action-match", json!([ent_js(&view(), json!({}), vec![readers()], None), ent_js(&readers(), json!({}), vec![], None)])),
        ("undeclared-action", json!([ent_js(&u("Action", "nope"), json!({}), vec![], None)])),
        ("parent-type-not-allowed", json!([ent_js(&ua(), json!({"age": 3}), vec![ub()], None)])),
        ("tag-on-tagless", json!([ent_js(&gg(), json!({}), vec![], Some(json!({"t": "x"})))])),
        ("wrong-tag-type", json!([ent_js(&ua(), json!({"age": 3}), vec![], Some(json!({"t": 1})))])),
        ("right-tag-type", json!([ent_js(&ua(), json!({"age": 3}), vec![], Some(json!({"t": "x"})))])),
        ("implicit-entity-attr", json!([ent_js(&ua(), json!({"age": 3, "mgr": {"type": "User", "id": "b"}}), vec![], None)])),
        ("implicit-ext-attr", json!([ent_js(&dd(), json!({"owner": {"type": "User", "id": "a"}, "labels": [], "meta": {"pub": true}, "ip": "10.0.0.1"}), vec![], None)])),
        ("bad-ext-attr", json!([ent_js(&dd(), json!({"owner": {"__entity": {"type": "User", "id": "a"}}, "labels": [], "meta": {"pub": true}, "ip": {"__extn": {"fn": "ip", "arg": "not an ip"}}}), vec![], None)])),
        ("not-an-array", json!({"uid": {"type": "User", "id": "a"}})),
        ("missing-uid", json!([{"attrs": {}, "parents": []}])),
        ("reserved-key", json!([ent_js(&gg(), json!({"__entity": 1}), vec![], None)])),
    ]
}

/// (label, context document, action)
pub fn context_table() -> Vec<(&'static str, J, Option<J>)> {
    let act = |a: &Uid| Some(uid_js(a, true));
    let mut v = vec![
        ("view-ok", json!({"n": 1}), act(&view())),
        ("view-ok-all", json!({"n": 1, "who": {"__entity": {"type": "User", "id": "b"}}, "flag": true}), act(&view())),
        ("view-implicit-who", json!({"n": 1, "who": {"type": "User", "id": "b"}}), act(&view())),
        ("view-wrong-type", json!({"n": "one"}), act(&view())),
        ("view-wrong-entity-type", json!({"n": 1, "who": {"__entity": {"type": "Doc", "id": "d"}}}), act(&view())),
        ("view-missing-required", json!({}), act(&view())),
        ("view-extra", json!({"n": 1, "zzz": 2}), act(&view())),
        ("view-flag-wrong", json!({"n": 1, "flag": 1}), act(&view())),
        ("edit-empty", json!({}), act(&edit())),
        ("edit-extra", json!({"n": 1}), act(&edit())),
        ("readers-empty", json!({}), act(&readers())),
        ("unknown-action", json!({}), act(&u("Action", "nope"))),
        ("no-action", json!({"n": "one", "x": {"type": "User", "id": "b"}}), None),
        ("not-an-object", json!([1]), act(&view())),
        ("number", json!(3), None),
        ("bad-extn", json!({"n": {"__extn": {"fn": "ip", "arg": "zz"}}}), None),
        ("good-extn", json!({"n": {"__extn": {"fn": "decimal", "arg": "1.5"}}}), None),
        ("bad-action-doc", json!({"n": 1}), Some(json!({"type": "Action"}))),
        ("action-explicit", json!({"n": 1}), Some(uid_js(&view(), false))),
        ("reserved-key", json!({"__entity": {"type": "User", "id": "b"}}), None),
    ];
    // every request context of leg 1, in both forms
    for (name, r) in requests() {
        let _ = name;
        v.push(("request-context-explicit", super::context_js(&r.context, false), act(&r.action)));
        v.push(("request-context-implicit", super::context_js(&r.context, true), act(&r.action)));
    }
    v
}

fn pset_items() -> Vec<Item> {
    let st = Style::default();
    let mut out = Vec::new();
    // valid sets in every shape
    let tuples = super::atom_tuples(2);
    for (i, atoms) in tuples.iter().enumerate().filter(|(i, t)| t.len() == 2 && i % 9 == 0) {
        for shape in super::SHAPES {
            let (doc, plan) = super::policies_doc(atoms, shape, super::SPELLINGS[i % 3], i % 2 == 0);
            out.push(Item::ParsePolicySet { label: format!("atoms:{shape:?}"), doc, plan });
        }
    }
    let t = |s: &str| Src::Text(s.to_string());
    let stat = |id: Option<&str>, s: &str| (id.map(|x| x.to_string()), Src::Text(s.to_string()));
    let ok = r#"permit(principal, action, resource);"#;
    let tmpl = r#"permit(principal == ?principal, action, resource in ?resource);"#;
    let mut add = |label: &str, doc: J, plan: Plan| out.push(Item::ParsePolicySet { label: label.to_string(), doc, plan });
    add("empty-doc", json!({}), Plan::default());
    add("unparseable-concat", json!({"staticPolicies": "permit(principal, action"}), Plan { statics: vec![stat(Some("policy0"), "permit(principal, action")], ..Plan::default() });
    add("unparseable-map", json!({"staticPolicies": {"a": ok, "b": "permit(;"}}), Plan { statics: vec![stat(Some("a"), ok), stat(Some("b"), "permit(;")], ..Plan::default() });
    add("template-in-concat", json!({"staticPolicies": tmpl}), Plan { statics: vec![stat(Some("policy0"), tmpl)], ..Plan::default() });
    add("template-in-static-map", json!({"staticPolicies": {"a": tmpl}}), Plan { statics: vec![stat(Some("a"), tmpl)], ..Plan::default() });
    add("two-in-one-map-entry", json!({"staticPolicies": {"a": format!("{ok} {ok}")}}), Plan { statics: vec![stat(Some("a"), &format!("{ok} {ok}"))], ..Plan::default() });
    add("static-as-template", json!({"templates": {"t": ok}}), Plan { templates: vec![("t".into(), t(ok))], ..Plan::default() });
    add("link-unknown-template", json!({"templateLinks": [{"templateId": "t", "newId": "l", "values": {}}]}), Plan { links: vec![("t".into(), "l".into(), None, None)], ..Plan::default() });
    add(
        "link-missing-slot",
        json!({"templates": {"t": tmpl}, "templateLinks": [{"templateId": "t", "newId": "l", "values": {"?principal": {"type": "User", "id": "a"}}}]}),
        Plan { templates: vec![("t".into(), t(tmpl))], links: vec![("t".into(), "l".into(), Some(ua()), None)], ..Plan::default() },
    );
    add(
        "link-extra-slot",
        json!({"templates": {"t": "permit(principal == ?principal, action, resource);"}, "templateLinks": [{"templateId": "t", "newId": "l", "values": {"?principal": {"type": "User", "id": "a"}, "?resource": {"type": "Doc", "id": "d"}}}]}),
        Plan { templates: vec![("t".into(), t("permit(principal == ?principal, action, resource);"))], links: vec![("t".into(), "l".into(), Some(ua()), Some(dd()))], ..Plan::default() },
    );
    add(
        "link-id-collides-with-static",
        json!({"staticPolicies": {"l": ok}, "templates": {"t": tmpl}, "templateLinks": [{"templateId": "t", "newId": "l", "values": {"?principal": {"type": "User", "id": "a"}, "?resource": {"type": "Doc", "id": "d"}}}]}),
        Plan { statics: vec![stat(Some("l"), ok)], templates: vec![("t".into(), t(tmpl))], links: vec![("t".into(), "l".into(), Some(ua()), Some(dd()))], ..Plan::default() },
    );
    add(
        "template-id-collides-with-static",
        json!({"staticPolicies": {"t": ok}, "templates": {"t": tmpl}}),
        Plan { statics: vec![stat(Some("t"), ok)], templates: vec![("t".into(), t(tmpl))], ..Plan::default() },
    );
    add(
        "two-links-same-id",
        json!({"templates": {"t": tmpl}, "templateLinks": [
            {"templateId": "t", "newId": "l", "values": {"?principal": {"type": "User", "id": "a"}, "?resource": {"type": "Doc", "id": "d"}}},
            {"templateId": "t", "newId": "l", "values": {"?principal": {"type": "User", "id": "b"}, "?resource": {"type": "Doc", "id": "d"}}}]}),
        Plan { templates: vec![("t".into(), t(tmpl))], links: vec![("t".into(), "l".into(), Some(ua()), Some(dd())), ("t".into(), "l".into(), Some(ub()), Some(dd()))], ..Plan::default() },
    );
    add("bad-est", json!({"staticPolicies": {"a": {"effect": "permit"}}}), Plan { statics: vec![(Some("a".into()), Src::Json(json!({"effect": "permit"})))], ..Plan::default() });
    add("array-two", json!({"staticPolicies": [ok, ok]}), Plan { statics: vec![stat(None, ok), stat(None, ok)], ..Plan::default() });
    add("array-one", json!({"staticPolicies": [ok]}), Plan { statics: vec![stat(None, ok)], ..Plan::default() });
    let _ = st;
    out
}

pub fn items(tier: Tier) -> Vec<Item> {
    let mut out = Vec::new();
    let pols = policy_table();
    let tmpls = template_table();
    // ---- validate
    let modes: Vec<Option<String>> = vec![None, Some("strict".into()), Some("permissive".into()), Some("partial".into())];
    let mut sets: Vec<Vec<VPol>> = Vec::new();
    for (i, (_, text)) in pols.iter().enumerate() {
        sets.push(vec![VPol { id: format!("p{i}"), text: text.clone(), link: None }]);
    }
    for (i, (_, text, p, r)) in tmpls.iter().enumerate() {
        sets.push(vec![VPol { id: format!("t{i}"), text: text.clone(), link: Some((format!("l{i}"), p.clone(), r.clone())) }]);
    }
    // multi-policy sets: ids matter
    let group = |pred: &dyn Fn(&str) -> bool| -> Vec<VPol> { pols.iter().enumerate().filter(|(_, (l, _))| pred(l)).map(|(i, (_, t))| VPol { id: format!("p{i}"), text: t.clone(), link: None }).collect() };
    sets.push(group(&|l| l.starts_with("ok:")));
    sets.push(group(&|l| l.starts_with("bad:")));
    sets.push(group(&|l| l.starts_with("imp:") || l.starts_with("warn:")));
    let mut all = group(&|_| true);
    for (i, (_, text, p, r)) in tmpls.iter().enumerate() {
        all.push(VPol { id: format!("t{i}"), text: text.clone(), link: Some((format!("l{i}"), p.clone(), r.clone())) });
    }
    sets.push(all);
    sets.push(vec![VPol { id: "broken".into(), text: "permit(principal, action".into(), link: None }]);
    sets.push(vec![]);
    let shapes: Vec<VShape> = match tier {
        Tier::Quick => vec![VShape::MapText, VShape::Concat],
        Tier::Thorough => vec![VShape::MapText, VShape::Concat, VShape::MapJson],
    };
    let mut vschemas = w_schemas();
    vschemas.push(SchemaIn::Cedar(SCHEMA_2_CEDAR.to_string()));
    vschemas.push(SchemaIn::Cedar("entity User = { age: Long ".to_string()));
    for set in &sets {
        for schema in &vschemas {
            for mode in &modes {
                for shape in &shapes {
                    out.push(Item::Validate { pols: set.clone(), schema: schema.clone(), mode: mode.clone(), shape: *shape });
                }
            }
        }
    }
    // ---- format
    let mut texts: Vec<String> = pols.iter().map(|(_, t)| t.clone()).collect();
    texts.extend(tmpls.iter().map(|(_, t, _, _)| t.clone()));
    texts.push(pols.iter().take(6).map(|(_, t)| t.clone()).collect::<Vec<_>>().join("\n"));
    texts.push("// leading comment\npermit(principal, action, resource) // trailing\nwhen { true /* not a comment in cedar */ };".into());
    texts.push("// c1\npermit(\n  principal, // c2\n  action,\n  resource\n)\nwhen {\n  // c3\n  principal.age > 1\n};\n".into());
    texts.push("permit(principal,action,resource)when{principal.age>1&&resource.owner==principal||context.n<3&&!(context has who)};".into());
    texts.push(String::new());
    texts.push("permit(principal, action".into());
    texts.push("permit(principal, action, resource) when { 1 + };".into());
    let configs: Vec<Option<(usize, isize)>> = vec![None, Some((40, 2)), Some((80, 4)), Some((120, 0)), Some((20, 8))];
    for t in &texts {
        for c in &configs {
            out.push(Item::Format { text: t.clone(), config: *c });
        }
    }
    // ---- check_parse
    out.extend(pset_items());
    for (label, s) in schema_table() {
        out.push(Item::ParseSchema { label: label.to_string(), schema: s });
    }
    let mut opt_schemas: Vec<Option<SchemaIn>> = vec![None];
    opt_schemas.extend(w_schemas().into_iter().map(Some));
    opt_schemas.push(Some(SchemaIn::Cedar("entity User = { age: Long ".to_string())));
    for (label, e) in entities_table() {
        for s in &opt_schemas {
            out.push(Item::ParseEntities { label: label.to_string(), entities: e.clone(), schema: s.clone() });
        }
    }
    for (label, c, a) in context_table() {
        for s in &opt_schemas {
            out.push(Item::ParseContext { label: label.to_string(), context: c.clone(), schema: s.clone(), action: a.clone() });
        }
    }
    for s in w_schemas() {
        for p in [ua(), gg(), u("Nope", "x")] {
            for a in [view(), edit(), readers(), u("Action", "nope")] {
                for r in [dd(), gg(), ua()] {
                    out.push(Item::ParseScope { principal: p.clone(), action: a.clone(), resource: r.clone(), schema: s.clone() });
                }
            }
        }
    }
    // ---- conversions
    let st = Style::default();
    let mut static_srcs: Vec<Src> = pols.iter().map(|(_, t)| Src::Text(t.clone())).collect();
    let mut template_srcs: Vec<Src> = tmpls.iter().map(|(_, t, _, _)| Src::Text(t.clone())).collect();
    for eff in [Effect::Permit, Effect::Forbid] {
        for group in super::atoms(eff) {
            for a in group {
                let (t, j) = (Src::Text(a.pol.text(&st)), Src::Json(a.pol.est()));
                if a.link.is_some() {
                    template_srcs.push(t);
                    template_srcs.push(j);
                } else {
                    static_srcs.push(t);
                    static_srcs.push(j);
                }
            }
        }
    }
    static_srcs.push(Src::Text("permit(principal, action".into()));
    static_srcs.push(Src::Json(json!({"effect": "permit"})));
    for s in &static_srcs {
        out.push(Item::PolicyToJson { src: s.clone() });
        out.push(Item::PolicyToText { src: s.clone() });
    }
    for s in &template_srcs {
        out.push(Item::TemplateToJson { src: s.clone() });
        out.push(Item::TemplateToText { src: s.clone() });
        // a template handed to the static-policy conversions, and vice versa
        out.push(Item::PolicyToJson { src: s.clone() });
        out.push(Item::PolicyToText { src: s.clone() });
    }
    for s in static_srcs.iter().take(6) {
        out.push(Item::TemplateToJson { src: s.clone() });
        out.push(Item::TemplateToText { src: s.clone() });
    }
    for (_, s) in schema_table() {
        out.push(Item::SchemaToText { schema: s.clone() });
        out.push(Item::SchemaToJson { schema: s });
    }
    let plain: Vec<String> = pols.iter().map(|(_, t)| t.clone()).collect();
    let tt: Vec<String> = tmpls.iter().map(|(_, t, _, _)| t.clone()).collect();
    let mut part_sets: Vec<Vec<String>> = vec![vec![], vec![plain[0].clone()], vec![tt[0].clone()], plain[..3].to_vec(), vec![plain[1].clone(), tt[0].clone(), plain[2].clone()], vec![tt[0].clone(), tt[3].clone()], plain[..12].to_vec(), vec![plain[0].clone(), "permit(principal, action".into()]];
    part_sets.push(plain.iter().cloned().chain(tt.iter().cloned()).collect());
    for ps in part_sets {
        for sep in ["\n", " ", "\n// comment\n"] {
            out.push(Item::TextToParts { texts: ps.clone(), sep: sep.to_string() });
        }
    }
    out
}

// ---------------------------------------------------------------------------------------
// per-item checks
// ---------------------------------------------------------------------------------------

fn validate_docs(pols: &[VPol], shape: VShape) -> Result<(J, Plan), String> {
    let mut plan = Plan::default();
    let mut statics = serde_json::Map::new();
    let mut concat = String::new();
    let mut templates = serde_json::Map::new();
    let mut links = Vec::new();
    let mut k = 0;
    let to_src = |text: &str, template: bool| -> Result<Src, String> {
        if shape != VShape::MapJson {
            return Ok(Src::Text(text.to_string()));
        }
        // input preparation only: the EST of the text (falls back to the text when it does not parse)
        let j = if template { cedar_policy::Template::parse(None, text).ok().and_then(|t| t.to_json().ok()) } else { cedar_policy::Policy::parse(None, text).ok().and_then(|t| t.to_json().ok()) };
        Ok(j.map(Src::Json).unwrap_or_else(|| Src::Text(text.to_string())))
    };
    for p in pols {
        match &p.link {
            None => {
                let id = if shape == VShape::Concat { format!("policy{k}") } else { p.id.clone() };
                k += 1;
                let src = to_src(&p.text, false)?;
                concat.push_str(&p.text);
                concat.push('\n');
                statics.insert(id.clone(), src.to_json());
                plan.statics.push((Some(id), src));
            }
            Some((lid, pr, rs)) => {
                let src = to_src(&p.text, true)?;
                templates.insert(p.id.clone(), src.to_json());
                let mut vals = serde_json::Map::new();
                if let Some(x) = pr {
                    vals.insert("?principal".into(), uid_js(x, true));
                }
                if let Some(x) = rs {
                    vals.insert("?resource".into(), uid_js(x, false));
                }
                links.push(json!({"templateId": p.id, "newId": lid, "values": vals}));
                plan.templates.push((p.id.clone(), src));
                plan.links.push((p.id.clone(), lid.clone(), pr.clone(), rs.clone()));
            }
        }
    }
    let doc = json!({
        "staticPolicies": if shape == VShape::Concat { json!(concat) } else { J::Object(statics) },
        "templates": templates,
        "templateLinks": links,
    });
    Ok((doc, plan))
}

type Findings = Vec<(String, String, String)>;

fn finding_list<'a, T: Diagnostic + 'a>(it: impl Iterator<Item = &'a T>, id: impl Fn(&T) -> String) -> Findings {
    let mut v: Findings = it.map(|e| (id(e), chain_msg(e), e.code().map(|c| c.to_string()).unwrap_or_default())).collect();
    v.sort();
    v
}

fn ffi_findings(v: &[ffi::ValidationError]) -> Findings {
    let mut out: Findings = v.iter().map(|e| (AsRef::<str>::as_ref(&e.policy_id).to_string(), e.error.message.clone(), e.error.code.clone().unwrap_or_default())).collect();
    out.sort();
    out
}

fn is_success(v: &J) -> Result<bool, String> {
    match v["type"].as_str() {
        Some("success") => Ok(true),
        Some("failure") => {
            let m = err_messages(&v["errors"])?;
            if m.is_empty() {
                Err("failure without errors".into())
            } else {
                Ok(false)
            }
        }
        _ => Err(format!("answer without type tag: {v}")),
    }
}

/// compare a success/failure front-end answer with the oracle's accept/reject
fn accept_cmp(bad: &mut Vec<(String, String)>, what: &str, label: &str, got: Result<J, serde_json::Error>, want: &Result<(), String>) -> &'static str {
    let got_ok = match got {
        Ok(v) => match is_success(&v) {
            Ok(b) => b,
            Err(e) => {
                bad.push((format!("{what}:malformed-answer"), format!("{what} [{label}]: {e}")));
                return "malformed";
            }
        },
        Err(_) => false,
    };
    match (got_ok, want) {
        (true, Err(e)) => bad.push((format!("{what}:accepts-what-api-rejects:{}", label_class(label)), format!("{what} [{label}] succeeds but the API rejects: {e}"))),
        (false, Ok(())) => bad.push((format!("{what}:rejects-what-api-accepts:{}", label_class(label)), format!("{what} [{label}] fails but the API accepts"))),
        _ => {}
    }
    if want.is_ok() {
        "accept"
    } else {
        "reject"
    }
}

fn label_class(l: &str) -> String {
    l.split(':').next().unwrap_or(l).to_string()
}

fn src_policy(s: &Src) -> Result<cedar_policy::Policy, String> {
    match s {
        Src::Text(t) => cedar_policy::Policy::parse(None, t).map_err(|e| e.to_string()),
        Src::Json(j) => cedar_policy::Policy::from_json(None, j.clone()).map_err(|e| e.to_string()),
    }
}

fn src_template(s: &Src) -> Result<cedar_policy::Template, String> {
    match s {
        Src::Text(t) => cedar_policy::Template::parse(None, t).map_err(|e| e.to_string()),
        Src::Json(j) => cedar_policy::Template::from_json(None, j.clone()).map_err(|e| e.to_string()),
    }
}

/// run a typed FFI conversion and serialise its answer the way the bindings see it
fn typed<C: serde::de::DeserializeOwned, A: Serialize>(arg: J, f: impl FnOnce(C) -> A) -> Result<J, String> {
    let c: C = serde_json::from_value(arg).map_err(|e| format!("argument rejected: {e}"))?;
    serde_json::to_value(f(c)).map_err(|e| format!("answer does not serialise: {e}"))
}

/// compare a conversion answer {type: success, <key>: out} with the oracle's result
fn conv_cmp(bad: &mut Vec<(String, String)>, what: &str, got: Result<J, String>, key: &str, want: &Result<J, String>, input: &str) -> &'static str {
    let got = match got {
        Ok(v) => v,
        Err(e) => {
            // the argument did not deserialise: a failure
            if want.is_ok() {
                bad.push((format!("{what}:rejects-what-api-converts"), format!("{what}({input}): {e}, API gives {want:?}")));
            }
            return "reject";
        }
    };
    match (is_success(&got), want) {
        (Err(e), _) => {
            bad.push((format!("{what}:malformed-answer"), format!("{what}({input}): {e}")));
            "malformed"
        }
        (Ok(true), Ok(w)) => {
            if &got[key] != w {
                bad.push((format!("{what}:output-differs"), format!("{what}({input}) gives {} but the API conversion gives {}", got[key], w)));
            }
            "converted"
        }
        (Ok(true), Err(e)) => {
            bad.push((format!("{what}:converts-what-api-rejects"), format!("{what}({input}) gives {} but the API fails: {e}", got[key])));
            "reject"
        }
        (Ok(false), Ok(w)) => {
            bad.push((format!("{what}:rejects-what-api-converts"), format!("{what}({input}) fails ({}) but the API gives {w}", got["errors"])));
            "converted"
        }
        (Ok(false), Err(_)) => "reject",
    }
}

pub fn check_item(ctx: &Ctx, it: &Item, l: &mut Local) -> Vec<(String, String)> {
    let mut bad = Vec::new();
    let case_json = || json!({"kind": "misc", "item": it});
    let key = hash_of(&serde_json::to_string(it).unwrap_or_default());
    match it {
        Item::Validate { pols, schema, mode, shape } => {
            let Ok((pdoc, plan)) = validate_docs(pols, *shape) else { return bad };
            let mut call = json!({"schema": schema.doc(), "policies": pdoc});
            if let Some(m) = mode {
                call["validationSettings"] = json!({"mode": m});
            }
            let Some(got) = ctx.guard("ffi::validate_json", case_json, || ffi::validate_json(call.clone())) else { return bad };
            let Some(got_s) = ctx.guard("ffi::validate_json_str", case_json, || ffi::validate_json_str(&call.to_string())) else { return bad };
            l.transitions += 2;
            let api_mode = match mode.as_deref() {
                None | Some("strict") => cedar_policy::ValidationMode::Strict,
                Some("permissive") => cedar_policy::ValidationMode::Permissive,
                _ => cedar_policy::ValidationMode::Partial,
            };
            let want: Result<(Findings, Findings), String> = (|| {
                let pset = api_pset(&plan)?;
                let s = schema.api()?;
                let res = cedar_policy::Validator::new(s).validate(&pset, api_mode);
                Ok((
                    finding_list(res.validation_errors(), |e| AsRef::<str>::as_ref(e.policy_id()).to_string()),
                    finding_list(res.validation_warnings(), |e| AsRef::<str>::as_ref(e.policy_id()).to_string()),
                ))
            })();
            let tag = format!("{}:{}:{shape:?}", schema.kind(), mode.as_deref().unwrap_or("default"));
            let parse = |r: &Result<J, serde_json::Error>| -> Result<Option<(Findings, Findings)>, String> {
                let v = r.as_ref().map_err(|e| format!("call rejected: {e}"))?;
                match serde_json::from_value::<ffi::ValidationAnswer>(v.clone()).map_err(|e| format!("answer is not a ValidationAnswer: {e}: {v}"))? {
                    ffi::ValidationAnswer::Success { validation_errors, validation_warnings, .. } => Ok(Some((ffi_findings(&validation_errors), ffi_findings(&validation_warnings)))),
                    ffi::ValidationAnswer::Failure { errors, .. } => {
                        if errors.is_empty() {
                            Err("failure without errors".into())
                        } else {
                            Ok(None)
                        }
                    }
                }
            };
            let g = parse(&got);
            let gs = parse(&got_s.map(|s| serde_json::from_str::<J>(&s).unwrap_or(J::Null)));
            if g != gs {
                bad.push((format!("validate:json-vs-str:{tag}"), format!("validate_json and validate_json_str disagree: {g:?} vs {gs:?}")));
            }
            let class = match &want {
                Ok((e, w)) => format!("validate:errors{}/warnings{}", e.len().min(2), w.len().min(2)),
                Err(_) => "validate:failure".to_string(),
            };
            l.case(key, &class, want.is_ok() && !pols.is_empty());
            match (&g, &want) {
                (Err(e), _) => bad.push((format!("validate:malformed-answer:{tag}"), format!("validate_json: {e}"))),
                (Ok(Some((ge, gw))), Ok((we, ww))) => {
                    if ge != we {
                        bad.push((format!("validate:errors-differ:{tag}"), format!("policies {:?}: validate_json errors {ge:?}, Validator::validate errors {we:?}", pols.iter().map(|p| &p.text).collect::<Vec<_>>())));
                    }
                    if gw != ww {
                        bad.push((format!("validate:warnings-differ:{tag}"), format!("policies {:?}: validate_json warnings {gw:?}, Validator::validate warnings {ww:?}", pols.iter().map(|p| &p.text).collect::<Vec<_>>())));
                    }
                }
                (Ok(Some(g)), Err(e)) => bad.push((format!("validate:answers-what-api-rejects:{tag}"), format!("validate_json answers {g:?} but API assembly fails: {e}"))),
                (Ok(None), Ok(w)) => bad.push((format!("validate:fails-what-api-validates:{tag}"), format!("validate_json fails ({:?}) but the API validates: {w:?}", got.as_ref().ok()))),
                (Ok(None), Err(_)) => {}
            }
        }
        Item::Format { text, config } => {
            let mut call = json!({"policyText": text});
            if let Some((lw, iw)) = config {
                call["lineWidth"] = json!(lw);
                call["indentWidth"] = json!(iw);
            }
            let Some(got) = ctx.guard("ffi::format_json", case_json, || ffi::format_json(call.clone())) else { return bad };
            let Some(got_s) = ctx.guard("ffi::format_json_str", case_json, || ffi::format_json_str(&call.to_string())) else { return bad };
            l.transitions += 2;
            let (lw, iw) = config.unwrap_or((80, 2));
            let want = cedar_policy_formatter::policies_str_to_pretty(text, &cedar_policy_formatter::Config { line_width: lw, indent_width: iw }).map_err(|e| e.to_string());
            let parse = |r: Result<J, String>| -> Result<Option<String>, String> {
                let v = r?;
                match serde_json::from_value::<ffi::FormattingAnswer>(v.clone()).map_err(|e| format!("answer is not a FormattingAnswer: {e}: {v}"))? {
                    ffi::FormattingAnswer::Success { formatted_policy } => Ok(Some(formatted_policy)),
                    ffi::FormattingAnswer::Failure { errors } => {
                        if errors.is_empty() {
                            Err("failure without errors".into())
                        } else {
                            Ok(None)
                        }
                    }
                }
            };
            let g = parse(got.map_err(|e| format!("call rejected: {e}")));
            let gs = parse(got_s.map_err(|e| format!("call rejected: {e}")).and_then(|s| serde_json::from_str::<J>(&s).map_err(|e| e.to_string())));
            if g != gs {
                bad.push(("format:json-vs-str".into(), format!("format_json and format_json_str disagree on {text:?}: {g:?} vs {gs:?}")));
            }
            l.case(key, if want.is_ok() { "format:formatted" } else { "format:failure" }, want.is_ok() && !text.is_empty());
            let cfg = if config.is_some() { "config" } else { "defaults" };
            match (&g, &want) {
                (Err(e), _) => bad.push((format!("format:malformed-answer:{cfg}"), format!("format_json: {e}"))),
                (Ok(Some(a)), Ok(b)) => {
                    if a != b {
                        bad.push((format!("format:output-differs:{cfg}"), format!("format_json({text:?}, {config:?}) gives {a:?}, policies_str_to_pretty gives {b:?}")));
                    }
                }
                (Ok(Some(a)), Err(e)) => bad.push((format!("format:formats-what-api-rejects:{cfg}"), format!("format_json({text:?}) gives {a:?}, formatter fails: {e}"))),
                (Ok(None), Ok(b)) => bad.push((format!("format:fails-what-api-formats:{cfg}"), format!("format_json({text:?}, {config:?}) fails, policies_str_to_pretty gives {b:?}"))),
                (Ok(None), Err(_)) => {}
            }
        }
        Item::ParsePolicySet { label, doc, plan } => {
            let Some(got) = ctx.guard("ffi::check_parse_policy_set_json", case_json, || ffi::check_parse_policy_set_json(doc.clone())) else { return bad };
            let Some(got_s) = ctx.guard("ffi::check_parse_policy_set_json_str", case_json, || ffi::check_parse_policy_set_json_str(&doc.to_string())) else { return bad };
            l.transitions += 2;
            let want = api_pset(plan).map(|_| ());
            let c = accept_cmp(&mut bad, "check_parse_policy_set", label, got, &want);
            let _ = accept_cmp(&mut bad, "check_parse_policy_set_str", label, got_s.map(|s| serde_json::from_str::<J>(&s).unwrap_or(J::Null)), &want);
            l.case(key, &format!("parse-policy-set:{c}"), want.is_ok());
        }
        Item::ParseSchema { label, schema } => {
            let Some(got) = ctx.guard("ffi::check_parse_schema_json", case_json, || ffi::check_parse_schema_json(schema.doc())) else { return bad };
            let Some(got_s) = ctx.guard("ffi::check_parse_schema_json_str", case_json, || ffi::check_parse_schema_json_str(&schema.doc().to_string())) else { return bad };
            l.transitions += 2;
            let want = schema.api().map(|_| ());
            let c = accept_cmp(&mut bad, "check_parse_schema", label, got, &want);
            let _ = accept_cmp(&mut bad, "check_parse_schema_str", label, got_s.map(|s| serde_json::from_str::<J>(&s).unwrap_or(J::Null)), &want);
            l.case(key, &format!("parse-schema:{c}"), want.is_ok());
        }
        Item::ParseEntities { label, entities, schema } => {
            let mut call = json!({"entities": entities});
            if let Some(s) = schema {
                call["schema"] = s.doc();
            }
            let Some(got) = ctx.guard("ffi::check_parse_entities_json", case_json, || ffi::check_parse_entities_json(call.clone())) else { return bad };
            let Some(got_s) = ctx.guard("ffi::check_parse_entities_json_str", case_json, || ffi::check_parse_entities_json_str(&call.to_string())) else { return bad };
            l.transitions += 2;
            let want: Result<(), String> = (|| {
                let s = match schema {
                    Some(s) => Some(s.api()?),
                    None => None,
                };
                cedar_policy::Entities::from_json_value(entities.clone(), s.as_ref()).map(|_| ()).map_err(|e| e.to_string())
            })();
            let lab = format!("{label}:{}", schema.as_ref().map(|s| s.kind()).unwrap_or("noschema"));
            let c = accept_cmp(&mut bad, "check_parse_entities", &lab, got, &want);
            let _ = accept_cmp(&mut bad, "check_parse_entities_str", &lab, got_s.map(|s| serde_json::from_str::<J>(&s).unwrap_or(J::Null)), &want);
            l.case(key, &format!("parse-entities:{c}"), want.is_ok());
        }
        Item::ParseContext { label, context, schema, action } => {
            let mut call = json!({"context": context});
            if let Some(s) = schema {
                call["schema"] = s.doc();
            }
            if let Some(a) = action {
                call["action"] = a.clone();
            }
            let Some(got) = ctx.guard("ffi::check_parse_context_json", case_json, || ffi::check_parse_context_json(call.clone())) else { return bad };
            let Some(got_s) = ctx.guard("ffi::check_parse_context_json_str", case_json, || ffi::check_parse_context_json_str(&call.to_string())) else { return bad };
            l.transitions += 2;
            // oracle: the context parses with (schema, action) when both are given, and then is
            // a valid context for that action
            let want: Result<(), String> = (|| {
                let a = match action {
                    Some(a) => Some(cedar_policy::EntityUid::from_json(a.clone()).map_err(|e| format!("action: {e}"))?),
                    None => None,
                };
                let s = match schema {
                    Some(s) => Some(s.api()?),
                    None => None,
                };
                let both = match (&s, &a) {
                    (Some(s), Some(a)) => Some((s, a)),
                    _ => None,
                };
                let c = cedar_policy::Context::from_json_value(context.clone(), both).map_err(|e| e.to_string())?;
                if let Some((s, a)) = both {
                    c.validate(s, a).map_err(|e| e.to_string())?;
                }
                Ok(())
            })();
            let lab = format!("{label}:{}", schema.as_ref().map(|s| s.kind()).unwrap_or("noschema"));
            let c = accept_cmp(&mut bad, "check_parse_context", &lab, got, &want);
            let _ = accept_cmp(&mut bad, "check_parse_context_str", &lab, got_s.map(|s| serde_json::from_str::<J>(&s).unwrap_or(J::Null)), &want);
            l.case(key, &format!("parse-context:{c}"), want.is_ok());
        }
        Item::ParseScope { principal, action, resource, schema } => {
            let call = json!({"principal": uid_js(principal, true), "action": uid_js(action, false), "resource": uid_js(resource, true), "schema": schema.doc()});
            let Some(got) = ctx.guard("ffi::check_parse_scope_variables_json", case_json, || ffi::check_parse_scope_variables_json(call.clone())) else { return bad };
            l.transitions += 1;
            let want: Result<(), String> = (|| {
                let s = schema.api()?;
                cedar_policy::validate_scope_variables(&c_uid(principal), &c_uid(action), &c_uid(resource), &s).map_err(|e| e.to_string())
            })();
            let lab = format!("{}/{}/{}", principal.ty, action.id, resource.ty);
            let c = accept_cmp(&mut bad, "check_parse_scope_variables", &lab, got, &want);
            l.case(key, &format!("parse-scope:{c}"), want.is_ok());
        }
        Item::PolicyToJson { src } => {
            let Some(got) = ctx.guard("ffi::policy_to_json", case_json, || typed(src.to_json(), ffi::policy_to_json)) else { return bad };
            l.transitions += 1;
            let want = src_policy(src).and_then(|p| p.to_json().map_err(|e| e.to_string()));
            let c = conv_cmp(&mut bad, "policy_to_json", got, "json", &want, &src.to_json().to_string());
            l.case(key, &format!("policy_to_json:{c}"), want.is_ok());
        }
        Item::PolicyToText { src } => {
            let Some(got) = ctx.guard("ffi::policy_to_text", case_json, || typed(src.to_json(), ffi::policy_to_text)) else { return bad };
            l.transitions += 1;
            let pol = src_policy(src);
            let want = pol.as_ref().map(|p| json!(p.to_string())).map_err(|e| e.clone());
            let c = conv_cmp(&mut bad, "policy_to_text", got.clone(), "text", &want, &src.to_json().to_string());
            // the text must denote the same policy: re-parse and compare the JSON forms
            if let (Ok(g), Ok(p)) = (&got, &pol) {
                if let Some(t) = g["text"].as_str() {
                    let back = cedar_policy::Policy::parse(None, t).map_err(|e| e.to_string()).and_then(|q| q.to_json().map_err(|e| e.to_string()));
                    let orig = p.to_json().map_err(|e| e.to_string());
                    if back != orig {
                        bad.push(("policy_to_text:denotes-other-policy".into(), format!("policy_to_text({}) = {t:?} re-parses to {back:?}, the input is {orig:?}", src.to_json())));
                    }
                }
            }
            l.case(key, &format!("policy_to_text:{c}"), want.is_ok());
        }
        Item::TemplateToJson { src } => {
            let Some(got) = ctx.guard("ffi::template_to_json", case_json, || typed(src.to_json(), ffi::template_to_json)) else { return bad };
            l.transitions += 1;
            let want = src_template(src).and_then(|p| p.to_json().map_err(|e| e.to_string()));
            let c = conv_cmp(&mut bad, "template_to_json", got, "json", &want, &src.to_json().to_string());
            l.case(key, &format!("template_to_json:{c}"), want.is_ok());
        }
        Item::TemplateToText { src } => {
            let Some(got) = ctx.guard("ffi::template_to_text", case_json, || typed(src.to_json(), ffi::template_to_text)) else { return bad };
            l.transitions += 1;
            let tm = src_template(src);
            let want = tm.as_ref().map(|p| json!(p.to_string())).map_err(|e| e.clone());
            let c = conv_cmp(&mut bad, "template_to_text", got.clone(), "text", &want, &src.to_json().to_string());
            if let (Ok(g), Ok(p)) = (&got, &tm) {
                if let Some(t) = g["text"].as_str() {
                    let back = cedar_policy::Template::parse(None, t).map_err(|e| e.to_string()).and_then(|q| q.to_json().map_err(|e| e.to_string()));
                    let orig = p.to_json().map_err(|e| e.to_string());
                    if back != orig {
                        bad.push(("template_to_text:denotes-other-template".into(), format!("template_to_text({}) = {t:?} re-parses to {back:?}, the input is {orig:?}", src.to_json())));
                    }
                }
            }
            l.case(key, &format!("template_to_text:{c}"), want.is_ok());
        }
        Item::SchemaToText { schema } => {
            let Some(got) = ctx.guard("ffi::schema_to_text", case_json, || typed(schema.doc(), ffi::schema_to_text)) else { return bad };
            l.transitions += 1;
            // oracle: the fragment must also be a complete, valid schema
            let want: Result<J, String> = schema.api().and_then(|_| schema.fragment()).and_then(|f| f.to_cedarschema().map(|s| json!(s)).map_err(|e| e.to_string()));
            let c = conv_cmp(&mut bad, "schema_to_text", got.clone(), "text", &want, &schema.doc().to_string());
            // the printed schema must load to the same schema as the input
            if let (Ok(g), Ok(_)) = (&got, &want) {
                if let Some(t) = g["text"].as_str() {
                    match (cedar_policy::SchemaFragment::from_cedarschema_str(t).map(|x| x.0).map_err(|e| e.to_string()).and_then(|f| f.to_json_value().map_err(|e| e.to_string())), cedar_policy::Schema::from_cedarschema_str(t)) {
                        (Ok(_), Ok(_)) => {}
                        (a, b) => bad.push(("schema_to_text:output-does-not-load".into(), format!("schema_to_text({}) = {t:?} does not load back: {:?} / {:?}", schema.doc(), a.err(), b.err().map(|e| e.to_string())))),
                    }
                }
            }
            l.case(key, &format!("schema_to_text:{c}"), want.is_ok());
        }
        Item::SchemaToJson { schema } => {
            let Some(got) = ctx.guard("ffi::schema_to_json", case_json, || typed(schema.doc(), ffi::schema_to_json)) else { return bad };
            l.transitions += 1;
            let want: Result<J, String> = schema.api().and_then(|_| schema.fragment()).and_then(|f| f.to_json_value().map_err(|e| e.to_string()));
            let c = conv_cmp(&mut bad, "schema_to_json", got, "json", &want, &schema.doc().to_string());
            l.case(key, &format!("schema_to_json:{c}"), want.is_ok());
        }
        Item::TextToParts { texts, sep } => {
            let text = texts.join(sep);
            let Some(got) = ctx.guard("ffi::policy_set_text_to_parts", case_json, || serde_json::to_value(ffi::policy_set_text_to_parts(&text)).map_err(|e| e.to_string())) else { return bad };
            l.transitions += 1;
            // oracle: each element parsed on its own with the id its position gives it
            let want: Result<(Vec<String>, Vec<String>), String> = (|| {
                let mut ps: Vec<(String, String)> = Vec::new();
                let mut ts: Vec<(String, String)> = Vec::new();
                for (i, t) in texts.iter().enumerate() {
                    let id = format!("policy{i}");
                    if t.contains("?principal") || t.contains("?resource") {
                        let tm = cedar_policy::Template::parse(Some(cedar_policy::PolicyId::new(&id)), t).map_err(|e| e.to_string())?;
                        ts.push((id, tm.to_cedar()));
                    } else {
                        let p = cedar_policy::Policy::parse(Some(cedar_policy::PolicyId::new(&id)), t).map_err(|e| e.to_string())?;
                        ps.push((id, p.to_cedar().ok_or("no text")?));
                    }
                }
                ps.sort();
                ts.sort();
                Ok((ps.into_iter().map(|x| x.1).collect(), ts.into_iter().map(|x| x.1).collect()))
            })();
            let class = match (&got, &want) {
                (Err(e), _) => {
                    bad.push(("policy_set_text_to_parts:malformed-answer".into(), e.clone()));
                    "malformed"
                }
                (Ok(g), w) => match (is_success(g), w) {
                    (Err(e), _) => {
                        bad.push(("policy_set_text_to_parts:malformed-answer".into(), e));
                        "malformed"
                    }
                    (Ok(true), Ok((ps, ts))) => {
                        if g["policies"] != json!(ps) || g["policy_templates"] != json!(ts) {
                            bad.push(("policy_set_text_to_parts:output-differs".into(), format!("policy_set_text_to_parts({text:?}) gives policies {} templates {}; parsing the elements one by one gives {ps:?} / {ts:?}", g["policies"], g["policy_templates"])));
                        }
                        "converted"
                    }
                    (Ok(true), Err(e)) => {
                        bad.push(("policy_set_text_to_parts:converts-what-api-rejects".into(), format!("policy_set_text_to_parts({text:?}) succeeds but an element does not parse: {e}")));
                        "reject"
                    }
                    (Ok(false), Ok(_)) => {
                        bad.push(("policy_set_text_to_parts:rejects-what-api-converts".into(), format!("policy_set_text_to_parts({text:?}) fails: {}", g["errors"])));
                        "converted"
                    }
                    (Ok(false), Err(_)) => "reject",
                },
            };
            l.case(key, &format!("text_to_parts:{class}"), want.is_ok() && !texts.is_empty());
        }
    }
    bad
}

pub fn run(ctx: &Ctx, tier: Tier) {
    let its = items(tier);
    let total = its.len();
    let mut per_leg: std::collections::BTreeMap<&'static str, usize> = Default::default();
    for it in &its {
        *per_leg.entry(it.leg()).or_insert(0) += 1;
    }
    ctx.set_info("misc_items", json!(per_leg));
    its.par_chunks(16).enumerate().for_each(|(ci, chunk)| {
        let mut l = Local::default();
        for (j, it) in chunk.iter().enumerate() {
            let res = ctx.guard("C19 misc item", || json!({"kind": "misc", "item": it}), || check_item(ctx, it, &mut l));
            for (fp, what) in res.unwrap_or_default() {
                ctx.violation(fp, what, json!({"kind": "misc", "item": it}));
            }
            let idx = ci * 16 + j;
            if idx % (total / 6).max(1) == 0 {
                ctx.sample(json!({"leg": it.leg(), "item": it}));
            }
        }
        ctx.merge(l);
    });
}
