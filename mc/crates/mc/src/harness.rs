//! Shared exploration harness: counters, violation handling, known findings, evidence.
use serde_json::{json, Value as J};
use std::collections::hash_map::DefaultHasher;
use std::collections::{BTreeMap, HashSet};
use std::hash::{Hash, Hasher};
use std::panic::{catch_unwind, AssertUnwindSafe};
use std::sync::atomic::{AtomicU64, Ordering};
use std::sync::Mutex;
use std::time::Instant;

#[derive(Clone, Copy, Debug, PartialEq, Eq)]
pub enum Tier {
    Quick,
    Thorough,
}

impl Tier {
    pub fn name(self) -> &'static str {
        match self {
            Tier::Quick => "quick",
            Tier::Thorough => "thorough",
        }
    }
    pub fn pick<T>(self, q: T, t: T) -> T {
        match self {
            Tier::Quick => q,
            Tier::Thorough => t,
        }
    }
}

/// output root (evidence/, replays/, known_findings.json); overridable for scratch copies
pub fn verif_root() -> String {
    std::env::var("VERIF_ROOT").unwrap_or_else(|_| "/verif".to_string())
}

#[derive(Clone, Debug)]
pub struct Violation {
    /// stable identification of *what* fails (call site / input class), matched against known_findings.json
    pub fingerprint: String,
    pub what: String,
    pub replay: J,
}

pub struct Ctx {
    pub id: &'static str,
    pub tier: Tier,
    pub seed: u64,
    pub level: &'static str,
    start: Instant,
    pub evaluations: AtomicU64,
    pub transitions: AtomicU64,
    pub states: AtomicU64,
    pub max_depth: AtomicU64,
    /// cases counted in bulk (distinct by construction), see Local::bulk_cases
    bulk: AtomicU64,
    distinct: Mutex<HashSet<u64>>,
    nontrivial: Mutex<HashSet<u64>>,
    outcomes: Mutex<BTreeMap<String, u64>>,
    violations: Mutex<Vec<Violation>>,
    violation_count: AtomicU64,
    samples: Mutex<Vec<J>>,
    pub info: Mutex<BTreeMap<String, J>>,
    caps_hit: Mutex<Vec<String>>,
    panics: Mutex<Vec<String>>,
    known: Vec<Known>,
    /// Some(fingerprint) while replaying a recorded violation by re-running the check
    replay_fp: Option<String>,
    /// known-finding fingerprint -> (first matching violation fingerprint, occurrences)
    known_hits: Mutex<BTreeMap<String, (String, u64)>>,
}

pub fn hash_of<T: Hash>(t: &T) -> u64 {
    let mut h = DefaultHasher::new();
    t.hash(&mut h);
    h.finish()
}

/// stable (seed-independent) hash for file names
pub fn fnv(s: &str) -> u64 {
    let mut h: u64 = 0xcbf29ce484222325;
    for b in s.bytes() {
        h ^= b as u64;
        h = h.wrapping_mul(0x100000001b3);
    }
    h
}

impl Ctx {
    pub fn new(id: &'static str, tier: Tier) -> Ctx {
        let seed = std::env::var("VERIF_SEED").ok().and_then(|s| s.parse::<u64>().ok()).unwrap_or(0);
        Ctx {
            id,
            tier,
            seed,
            level: "model_checking",
            start: Instant::now(),
            evaluations: AtomicU64::new(0),
            transitions: AtomicU64::new(0),
            states: AtomicU64::new(0),
            max_depth: AtomicU64::new(0),
            bulk: AtomicU64::new(0),
            distinct: Mutex::new(HashSet::new()),
            nontrivial: Mutex::new(HashSet::new()),
            outcomes: Mutex::new(BTreeMap::new()),
            violations: Mutex::new(Vec::new()),
            violation_count: AtomicU64::new(0),
            samples: Mutex::new(Vec::new()),
            info: Mutex::new(BTreeMap::new()),
            caps_hit: Mutex::new(Vec::new()),
            panics: Mutex::new(Vec::new()),
            known: if std::env::var("MC_REPLAY_FP").is_ok() { vec![] } else { load_known(id) },
            replay_fp: std::env::var("MC_REPLAY_FP").ok(),
            known_hits: Mutex::new(BTreeMap::new()),
        }
    }

    /// Count one explored case. `key` identifies the case canonically (for distinct counts),
    /// `class` is the oracle outcome class, `nontrivial` by the rule stated for the property.
    pub fn case(&self, key: u64, class: &str, nontrivial: bool) {
        self.evaluations.fetch_add(1, Ordering::Relaxed);
        self.distinct.lock().unwrap().insert(key);
        if nontrivial {
            self.nontrivial.lock().unwrap().insert(key);
        }
        *self.outcomes.lock().unwrap().entry(class.to_string()).or_insert(0) += 1;
    }

    /// Batched variant used by hot loops: merge thread-local counters.
    pub fn merge(&self, l: Local) {
        self.evaluations.fetch_add(l.evaluations, Ordering::Relaxed);
        self.transitions.fetch_add(l.transitions, Ordering::Relaxed);
        self.distinct.lock().unwrap().extend(l.distinct);
        self.nontrivial.lock().unwrap().extend(l.nontrivial);
        self.bulk.fetch_add(l.bulk, Ordering::Relaxed);
        let mut o = self.outcomes.lock().unwrap();
        for (k, v) in l.outcomes {
            *o.entry(k).or_insert(0) += v;
        }
    }

    pub fn calls(&self, n: u64) {
        self.transitions.fetch_add(n, Ordering::Relaxed);
    }

    pub fn sample(&self, s: J) {
        let mut v = self.samples.lock().unwrap();
        if v.len() < 12 {
            v.push(s);
        }
    }
    /// keep first / some later samples: call with index
    pub fn sample_at(&self, idx: usize, total: usize, f: impl FnOnce() -> J) {
        if idx == 0 || idx == total / 2 || idx + 1 == total || (total > 8 && idx % (total / 8).max(1) == 0) {
            self.sample(f());
        }
    }

    pub fn set_info(&self, k: &str, v: J) {
        self.info.lock().unwrap().insert(k.to_string(), v);
    }

    pub fn cap_hit(&self, what: &str) {
        self.caps_hit.lock().unwrap().push(what.to_string());
    }

    pub fn violation(&self, fingerprint: impl Into<String>, what: impl Into<String>, replay: J) {
        self.violation_count.fetch_add(1, Ordering::Relaxed);
        let fingerprint = fingerprint.into();
        // replay-by-re-run: only the recorded fingerprint counts
        if let Some(fp) = &self.replay_fp {
            if *fp != fingerprint {
                return;
            }
        }
        // listed (open) known findings are tallied separately so that they can never crowd an
        // unlisted violation out of the report
        if let Some(k) = self.known.iter().find(|k| k.status == "open" && fingerprint.starts_with(&k.fingerprint)) {
            let mut h = self.known_hits.lock().unwrap();
            let e = h.entry(k.fingerprint.clone()).or_insert_with(|| (fingerprint.clone(), 0));
            e.1 += 1;
            return;
        }
        let mut v = self.violations.lock().unwrap();
        // keep the first occurrence of each fingerprint, and at most 25 in total
        if v.len() < 25 && !v.iter().any(|x| x.fingerprint == fingerprint) {
            v.push(Violation { fingerprint, what: what.into(), replay });
        }
    }

    pub fn violation_seen(&self) -> u64 {
        self.violation_count.load(Ordering::Relaxed)
    }

    /// Run `f`, turning a panic of the code under test into a violation (of the running
    /// property: the check cannot hold on a case it could not finish).
    pub fn guard<T>(&self, what: &str, case: impl Fn() -> J, f: impl FnOnce() -> T) -> Option<T> {
        match catch_unwind(AssertUnwindSafe(f)) {
            Ok(v) => Some(v),
            Err(p) => {
                let msg = panic_msg(&p);
                self.panics.lock().unwrap().push(format!("{what}: {msg}"));
                self.violation(format!("panic:{what}:{}", first_line(&msg)), format!("panic in {what}: {msg}"), case());
                None
            }
        }
    }

    pub fn elapsed(&self) -> f64 {
        self.start.elapsed().as_secs_f64()
    }

    /// Write evidence, print verdict lines, return process exit code.
    pub fn finish(self, rule: &str, bounds: J, assumptions: &[&str], exhaustive: bool) -> i32 {
        let viols = self.violations.lock().unwrap().clone();
        if let Some(fp) = &self.replay_fp {
            // replay mode: no evidence is written; the verdict is whether the recorded failure recurs
            return match viols.first() {
                Some(v) => {
                    println!("replay: the recorded failure [{fp}] recurs:\n  {}", v.what.lines().take(8).collect::<Vec<_>>().join("\n  "));
                    println!("VIOLATION property={} replay={}", self.id, std::env::var("MC_REPLAY_FILE").unwrap_or_default());
                    1
                }
                None => {
                    println!("replay: the recorded failure [{fp}] does not recur on the current tree");
                    0
                }
            };
        }
        let mut unlisted = 0;
        let mut listed = 0;
        let _ = std::fs::create_dir_all(format!("{}/replays/{}", verif_root(), self.id));
        for (kfp, (first, n)) in self.known_hits.lock().unwrap().iter() {
            let what = self.known.iter().find(|k| &k.fingerprint == kfp).map(|k| k.what.clone()).unwrap_or_default();
            println!("KNOWN-FINDING: property={} {} [{} occurrence(s), first: {}]", self.id, what, n, first);
            listed += 1;
        }
        for v in &viols {
            {
                let path = format!("{}/replays/{}/{:016x}.json", verif_root(), self.id, fnv(&v.fingerprint));
                let doc = json!({"property": self.id, "fingerprint": v.fingerprint, "what": v.what, "case": v.replay});
                let _ = std::fs::write(&path, serde_json::to_string_pretty(&doc).unwrap());
                println!("VIOLATION property={} replay={}", self.id, path);
                println!("  what: {}", v.what.lines().take(6).collect::<Vec<_>>().join("\n        "));
                unlisted += 1;
            }
        }
        let outcomes = self.outcomes.lock().unwrap().clone();
        let bulk = self.bulk.load(Ordering::Relaxed);
        let distinct = self.distinct.lock().unwrap().len() as u64 + bulk;
        let nontrivial = self.nontrivial.lock().unwrap().len() as u64 + bulk;
        let evaluations = self.evaluations.load(Ordering::Relaxed);
        let transitions = self.transitions.load(Ordering::Relaxed).max(evaluations);
        let states = self.states.load(Ordering::Relaxed).max(distinct);
        let caps = self.caps_hit.lock().unwrap().clone();
        let samples = self.samples.lock().unwrap().clone();
        let mut coverage = json!({
            "states": states,
            "transitions": transitions,
            "traces_validated_against_impl": transitions,
            "max_depth": self.max_depth.load(Ordering::Relaxed),
            "evaluations": evaluations,
            "distinct_nontrivial": nontrivial,
            "distinct_cases": distinct,
            "rule": rule,
            "distinct_outcomes": outcomes,
            "samples": samples,
            "bounds": bounds,
            "exhaustive": exhaustive && caps.is_empty(),
            "caps_hit": caps,
            "explanation": "states = distinct canonical states/cases explored; transitions = calls into the implementation whose result was compared with the reference model at that step (lock-step conformance, so every trace is validated against the implementation)",
        });
        for (k, v) in self.info.lock().unwrap().iter() {
            coverage.as_object_mut().unwrap().insert(k.clone(), v.clone());
        }
        let ev = json!({
            "property_id": self.id,
            "tier": self.tier.name(),
            "seed": self.seed,
            "level": self.level,
            "coverage": coverage,
            "assumptions": assumptions,
            "wall_s": self.start.elapsed().as_secs_f64(),
            "violations": unlisted,
            "known_findings_reported": listed,
            "panics": self.panics.lock().unwrap().clone(),
        });
        let _ = std::fs::create_dir_all(format!("{}/evidence", verif_root()));
        std::fs::write(format!("{}/evidence/{}.json", verif_root(), self.id), serde_json::to_string_pretty(&ev).unwrap()).expect("write evidence");
        println!(
            "{} {}: evaluations={} distinct={} nontrivial={} transitions={} outcomes={} violations={} known={} wall={:.1}s",
            self.id,
            self.tier.name(),
            evaluations,
            distinct,
            nontrivial,
            transitions,
            outcomes.len(),
            unlisted,
            listed,
            self.start.elapsed().as_secs_f64()
        );
        if unlisted > 0 {
            return 1;
        }
        // vacuity guards: machinery errors, never verdicts
        if evaluations == 0 || nontrivial < 2 {
            eprintln!("MACHINERY ERROR: vacuous exploration (evaluations={evaluations}, nontrivial={nontrivial})");
            return 2;
        }
        if outcomes.len() < 2 {
            eprintln!("MACHINERY ERROR: vacuous exploration (a single outcome class: {:?})", outcomes);
            return 2;
        }
        0
    }
}

#[derive(Default)]
pub struct Local {
    pub evaluations: u64,
    pub transitions: u64,
    pub distinct: Vec<u64>,
    pub nontrivial: Vec<u64>,
    pub outcomes: BTreeMap<String, u64>,
    /// cases counted without storing their keys (distinct by construction, all non-trivial)
    pub bulk: u64,
}

impl Local {
    /// Count `n` cases that are pairwise distinct *by construction* (e.g. the completions of one
    /// (policy set, partial view) pair) without keeping their keys in memory.
    pub fn bulk_cases(&mut self, n: u64, class: &str) {
        self.evaluations += n;
        self.bulk += n;
        match self.outcomes.get_mut(class) {
            Some(c) => *c += n,
            None => {
                self.outcomes.insert(class.to_string(), n);
            }
        }
    }
    pub fn case(&mut self, key: u64, class: &str, nontrivial: bool) {
        self.evaluations += 1;
        self.distinct.push(key);
        if nontrivial {
            self.nontrivial.push(key);
        }
        match self.outcomes.get_mut(class) {
            Some(c) => *c += 1,
            None => {
                self.outcomes.insert(class.to_string(), 1);
            }
        }
    }
}

pub fn panic_msg(p: &Box<dyn std::any::Any + Send>) -> String {
    if let Some(s) = p.downcast_ref::<&str>() {
        s.to_string()
    } else if let Some(s) = p.downcast_ref::<String>() {
        s.clone()
    } else {
        "<non-string panic>".to_string()
    }
}

fn first_line(s: &str) -> String {
    s.lines().next().unwrap_or("").chars().take(120).collect()
}

pub struct Known {
    pub fingerprint: String,
    pub what: String,
    pub status: String,
}

pub fn load_known(id: &str) -> Vec<Known> {
    let path = format!("{}/known_findings.json", verif_root());
    let Ok(txt) = std::fs::read_to_string(&path) else { return vec![] };
    let Ok(j) = serde_json::from_str::<J>(&txt) else {
        eprintln!("MACHINERY ERROR: known_findings.json does not parse");
        std::process::exit(2);
    };
    let mut out = vec![];
    for e in j["findings"].as_array().cloned().unwrap_or_default() {
        if e["property"].as_str() == Some(id) {
            out.push(Known {
                fingerprint: e["fingerprint"].as_str().unwrap_or("").to_string(),
                what: e["what"].as_str().unwrap_or("").to_string(),
                status: e["status"].as_str().unwrap_or("open").to_string(),
            });
        }
    }
    out
}

/// Replay for checks whose cases are not individually serialisable: re-run the check (quick
/// tier) looking only for the fingerprint recorded in the replay file.
/// Returns 1 if it recurs, 0 if not, 2 if the file is not a replay file of property `id`.
pub fn replay_by_rerun(id: &str, path: &str, run: impl FnOnce() -> i32) -> i32 {
    let Some(doc) = std::fs::read_to_string(path).ok().and_then(|s| serde_json::from_str::<J>(&s).ok()) else {
        eprintln!("cannot read replay file {path}");
        return 2;
    };
    let (Some(prop), Some(fp)) = (doc["property"].as_str(), doc["fingerprint"].as_str()) else {
        eprintln!("{path} is not a replay file");
        return 2;
    };
    if prop != id {
        eprintln!("{path} belongs to property {prop}, not {id}");
        return 2;
    }
    println!("replaying [{fp}] by re-running {id} (quick tier); recorded: {}", doc["what"].as_str().unwrap_or("").lines().next().unwrap_or(""));
    std::env::set_var("MC_REPLAY_FP", fp);
    std::env::set_var("MC_REPLAY_FILE", path);
    run()
}

/// Silence the default panic hook while exploring (panics are caught and reported as cases).
pub fn quiet_panics() {
    if std::env::var("MC_LOUD").is_ok() {
        return;
    }
    // panics on the main thread (harness bugs) are still shown; worker panics are caught by `guard`
    std::panic::set_hook(Box::new(|info| {
        if std::thread::current().name() == Some("main") {
            eprintln!("MACHINERY ERROR: harness panic on main thread: {info}");
        }
    }));
}

/// cartesian helper
pub fn product2<A: Clone, B: Clone>(a: &[A], b: &[B]) -> Vec<(A, B)> {
    let mut v = Vec::with_capacity(a.len() * b.len());
    for x in a {
        for y in b {
            v.push((x.clone(), y.clone()));
        }
    }
    v
}

/// all permutations of 0..n (n small)
pub fn permutations(n: usize) -> Vec<Vec<usize>> {
    fn go(cur: &mut Vec<usize>, used: &mut Vec<bool>, n: usize, out: &mut Vec<Vec<usize>>) {
        if cur.len() == n {
            out.push(cur.clone());
            return;
        }
        for i in 0..n {
            if !used[i] {
                used[i] = true;
                cur.push(i);
                go(cur, used, n, out);
                cur.pop();
                used[i] = false;
            }
        }
    }
    let mut out = vec![];
    go(&mut vec![], &mut vec![false; n], n, &mut out);
    out
}
