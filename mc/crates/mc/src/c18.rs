//! C18 — symbolic compilation agrees with evaluation on concrete environments.
//! For every strictly valid policy / pair of policy sets and every conformant concrete
//! environment: compile against the literal SymEnv, the asserts must be constants, and
//! all-true <=> the concrete evaluator's verdict.
use crate::bind::*;
use crate::c03;
use crate::c14;
use crate::harness::*;
use crate::schema::*;
use cedar_policy_core::ast;
use cedar_policy_symcc as symcc;
use rayon::prelude::*;
use refsem::print::Style;
use refsem::*;
use serde_json::json;
use std::str::FromStr;
use symcc::term::{Term, TermPrim};

/// Some(all true) when every assert is a boolean literal, None when one is not a constant
fn all_true(a: &symcc::Asserts) -> Option<bool> {
    let mut all = true;
    for t in a.iter() {
        match t {
            Term::Prim(TermPrim::Bool(b)) => {
                if !*b {
                    all = false;
                }
            }
            _ => return None,
        }
    }
    Some(all)
}

fn lit_uids(e: &E, acc: &mut Vec<Uid>) {
    if let E::Ent(u) = e {
        acc.push(u.clone());
    }
    e.for_children(&mut |c| lit_uids(c, acc));
}

/// fingerprint prefix for a case: "missing-entity:" when the environment has a dangling reference
/// or a policy names an entity literal that has no record in the store (finding F4)
fn mp_of(env_mp: &'static str, pols: &[&Pol], store: &Store, sch: &Schema) -> &'static str {
    if !env_mp.is_empty() {
        return env_mp;
    }
    let mut lits = Vec::new();
    for p in pols {
        for c in p.conjuncts() {
            lit_uids(&c, &mut lits);
        }
    }
    if lits.iter().all(|u| store.ents.contains_key(u) || u.ty == "Action" || sch.ent(&u.ty).map(|d| d.enum_ids.is_some()).unwrap_or(false)) {
        ""
    } else {
        "missing-entity:"
    }
}

fn tn(s: &str) -> cedar_policy::EntityTypeName {
    cedar_policy::EntityTypeName::from_str(s).unwrap()
}

pub fn run(tier: Tier, replay_file: Option<&str>) -> i32 {
    if let Some(p) = replay_file {
        return replay_by_rerun("C18", p, || run(Tier::Quick, None));
    }
    let ctx = Ctx::new("C18", tier);
    quiet_panics();
    let sch = w_schema();
    let Ok(schema) = sch.load_cedar() else {
        eprintln!("MACHINERY ERROR: schema does not load");
        return 2;
    };
    let st = Style::default();
    // strictly valid policies: every accepted candidate of the C03 family, thinned
    let validator = cedar_policy::Validator::new(schema.clone());
    let cands = c03::candidates(Tier::Quick);
    let step = tier.pick(9, 2);
    let mut pols: Vec<(Pol, cedar_policy::Policy)> = Vec::new();
    let mut seen_accepting = 0usize;
    for cnd in &cands {
        let text = cnd.pol.text(&st);
        let Ok(p) = cedar_policy::Policy::parse(Some(cedar_policy::PolicyId::new(&cnd.pol.id)), &text) else { continue };
        let Ok(set) = cedar_policy::PolicySet::from_policies([p.clone()]) else { continue };
        if validator.validate(&set, cedar_policy::ValidationMode::Strict).validation_errors().next().is_some() {
            continue;
        }
        seen_accepting += 1;
        if seen_accepting % step == 0 {
            pols.push((cnd.pol.clone(), p));
        }
    }
    // + every hand-written / compositional policy of the C14 family (ids not starting with `p`), unthinned
    for (ps, _) in c14::policy_sets(Tier::Quick, &schema) {
        if ps.len() == 1 && !ps[0].id.starts_with('p') {
            let text = ps[0].text(&st);
            if let Ok(p) = cedar_policy::Policy::parse(Some(cedar_policy::PolicyId::new(&ps[0].id)), &text) {
                pols.push((ps[0].clone(), p));
            }
        }
    }
    ctx.set_info("policies", json!(pols.len()));
    // environments
    // the C14 store family (all referenced entities usually present) + a cut of the W stores
    // (entities absent, dangling references); odd strides so that no binary choice is frozen
    let mut stores: Vec<Store> = c14::stores(Tier::Quick).into_iter().step_by(tier.pick(3, 1)).collect();
    stores.extend(w_stores(Tier::Quick).into_iter().step_by(tier.pick(17, 5)));
    let mut reqs = c14::requests();
    reqs.extend(w_requests().into_iter().filter(|r| r.principal == crate::world::uz() || r.context.contains_key("col")));
    struct En {
        req: Req,
        creq: cedar_policy::Request,
        cents: cedar_policy::Entities,
        renv: cedar_policy::RequestEnv,
        store: Store,
        /// fingerprint prefix: "missing-entity:" when the environment has a dangling entity
        /// reference (an entity uid in the request or in entity data with no record in the store)
        mp: &'static str,
    }
    fn refs_of(v: &Val, acc: &mut Vec<Uid>) {
        match v {
            Val::Uid(u) => acc.push(u.clone()),
            Val::Set(s) => s.iter().for_each(|x| refs_of(x, acc)),
            Val::Rec(r) => r.values().for_each(|x| refs_of(x, acc)),
            _ => {}
        }
    }
    let closed = |r: &Req, s: &Store, sch: &Schema| -> bool {
        let mut refs = vec![r.principal.clone(), r.resource.clone()];
        r.context.values().for_each(|v| refs_of(v, &mut refs));
        for e in s.ents.values() {
            e.attrs.values().chain(e.tags.values()).for_each(|v| refs_of(v, &mut refs));
            refs.extend(e.parents.iter().cloned());
        }
        refs.iter().all(|u| s.ents.contains_key(u) || u.ty == "Action" || sch.ent(&u.ty).map(|d| d.enum_ids.is_some()).unwrap_or(false))
    };
    let mut envs = Vec::new();
    for s in &stores {
        let Ok(ce) = c_entities_schema(s, &schema) else {
            ctx.violation("precondition:store-rejected", "conformant store rejected", json!({}));
            continue;
        };
        for r in &reqs {
            let Ok(cr) = c_request_schema(r, &schema) else { continue };
            let renv = cedar_policy::RequestEnv::new(tn(&r.principal.ty), c_uid(&r.action), tn(&r.resource.ty));
            let mp = if closed(r, s, &sch) { "" } else { "missing-entity:" };
            envs.push(En { req: r.clone(), creq: cr, cents: ce.clone(), renv, store: with_actions(s, &sch), mp });
        }
    }
    ctx.set_info("environments", json!(envs.len()));
    ctx.set_info("environments_without_dangling_references", json!(envs.iter().filter(|e| e.mp.is_empty()).count()));
    let exts = cedar_policy_core::extensions::Extensions::all_available();
    let auth = cedar_policy::Authorizer::new();
    // ---- single policies ----
    envs.par_iter().enumerate().for_each(|(ei, en)| {
        let mut l = Local::default();
        let cenv = symcc::Env { request: en.creq.clone(), entities: en.cents.clone() };
        let symenv = match symcc::SymEnv::from_concrete_env(&en.renv, &schema, &cenv) {
            Ok(s) => s,
            Err(e) => {
                ctx.violation("symbolize:failed", format!("SymEnv::from_concrete_env failed on a conformant environment {:?}: {e}", en.req), json!({"request": format!("{:?}", en.req), "store": serde_json::to_value(&en.store).unwrap()}));
                return;
            }
        };
        let r: &ast::Request = en.creq.as_ref();
        let ev = cedar_policy_core::evaluator::Evaluator::new(r.clone(), en.cents.as_ref(), exts);
        let mut compiled: Vec<Option<symcc::CompiledPolicy>> = Vec::new();
        for (pol, cp) in &pols {
            let text = pol.text(&st);
            let rep = |x: serde_json::Value| json!({"policy": text, "request": format!("{:?}", en.req), "store": serde_json::to_value(&en.store).unwrap(), "detail": x});
            let head = crate::c02::head(&pol.conds[0].1);
            let mp = mp_of(en.mp, &[pol], &en.store, &sch);
            let comp = ctx.guard("compile", || rep(json!({})), || symcc::CompiledPolicy::compile_with_custom_symenv(cp, &en.renv, &schema, symenv.clone()));
            l.transitions += 1;
            let comp = match comp {
                Some(Ok(c)) => c,
                Some(Err(e)) => {
                    ctx.violation(mp.to_string() + &format!("compile:failed:{head}"), format!("compiling a strictly valid policy failed: {e}: `{text}` env {:?}", en.req), rep(json!({})));
                    compiled.push(None);
                    continue;
                }
                None => {
                    compiled.push(None);
                    continue;
                }
            };
            let outcome = ev.evaluate(cp.as_ref());
            let (errs, sat) = (outcome.is_err(), matches!(outcome, Ok(true)));
            l.case(hash_of(&(ei, &pol.id)), if errs { "err" } else if sat { "sat" } else { "unsat" }, true);
            let checks: [(&str, Option<bool>, bool); 3] = [
                ("never_errors", all_true(symcc::never_errors_asserts(&comp).asserts()), errs),
                ("always_matches", all_true(symcc::always_matches_asserts(&comp).asserts()), !sat),
                ("never_matches", all_true(symcc::never_matches_asserts(&comp).asserts()), sat),
            ];
            for (name, got, refuted_expected) in checks {
                l.transitions += 1;
                match got {
                    None => ctx.violation(mp.to_string() + &format!("{name}:not-constant:{head}"), format!("{name} asserts do not reduce to constants on a literal environment: `{text}` env {:?}", en.req), rep(json!({}))),
                    Some(refuted) => {
                        if refuted != refuted_expected {
                            ctx.violation(
                                mp.to_string() + &format!("{name}:disagrees:{head}"),
                                format!("{name}: asserts say refuted={refuted} but concrete evaluation gives {outcome:?} (expected refuted={refuted_expected}): `{text}` env {:?}", en.req),
                                rep(json!({})),
                            );
                        }
                    }
                }
            }
            compiled.push(Some(comp));
        }
        // ---- pairs of single policies: matches_{equivalent, implies, disjoint} ----
        let n = pols.len();
        for i in (0..n).step_by(tier.pick(5, 2)) {
            for d in [1usize, 7] {
                let j = (i + d) % n;
                let (Some(a), Some(b_)) = (&compiled[i], &compiled[j]) else { continue };
                let mp2 = mp_of(en.mp, &[&pols[i].0, &pols[j].0], &en.store, &sch);
                let sa = matches!(ev.evaluate(pols[i].1.as_ref()), Ok(true));
                let sb = matches!(ev.evaluate(pols[j].1.as_ref()), Ok(true));
                let rep = || json!({"policy1": pols[i].0.text(&st), "policy2": pols[j].0.text(&st), "request": format!("{:?}", en.req), "store": serde_json::to_value(&en.store).unwrap()});
                let checks: [(&str, Option<bool>, bool); 3] = [
                    ("matches_equivalent", all_true(symcc::matches_equivalent_asserts(a, b_).asserts()), sa != sb),
                    ("matches_implies", all_true(symcc::matches_implies_asserts(a, b_).asserts()), sa && !sb),
                    ("matches_disjoint", all_true(symcc::matches_disjoint_asserts(a, b_).asserts()), sa && sb),
                ];
                l.case(hash_of(&(ei, i, j, "pair")), "policy-pair", true);
                for (name, got, exp) in checks {
                    l.transitions += 1;
                    match got {
                        None => ctx.violation(mp2.to_string() + &format!("{name}:not-constant"), format!("{name} asserts are not constants"), rep()),
                        Some(g) => {
                            if g != exp {
                                ctx.violation(mp2.to_string() + &format!("{name}:disagrees"), format!("{name}: asserts refuted={g}, concrete matches are {sa}/{sb} (expected refuted={exp})"), rep());
                            }
                        }
                    }
                }
            }
        }
        ctx.merge(l);
    });
    // ---- policy sets ----
    let psets = c14::policy_sets(Tier::Quick, &schema);
    let pstep = tier.pick(4, 1);
    let psets: Vec<&(Vec<Pol>, cedar_policy::PolicySet)> = psets.iter().step_by(pstep).collect();
    ctx.set_info("policy_sets", json!(psets.len()));
    envs.par_iter().enumerate().for_each(|(ei, en)| {
        if ei % tier.pick(3, 1) != 0 {
            return;
        }
        let mut l = Local::default();
        let cenv = symcc::Env { request: en.creq.clone(), entities: en.cents.clone() };
        let Ok(symenv) = symcc::SymEnv::from_concrete_env(&en.renv, &schema, &cenv) else { return };
        let mut comp: Vec<Option<(symcc::CompiledPolicySet, bool)>> = Vec::new();
        for (pols_, pset) in psets.iter().map(|x| (&x.0, &x.1)) {
            let text: Vec<String> = pols_.iter().map(|p| p.text(&st)).collect();
            let mp3 = mp_of(en.mp, &pols_.iter().collect::<Vec<_>>(), &en.store, &sch);
            let rep = || json!({"policies": text, "request": format!("{:?}", en.req), "store": serde_json::to_value(&en.store).unwrap()});
            let c = ctx.guard("compile set", || rep(), || symcc::CompiledPolicySet::compile_with_custom_symenv(pset, &en.renv, &schema, symenv.clone()));
            l.transitions += 1;
            match c {
                Some(Ok(c)) => {
                    let allow = auth.is_authorized(&en.creq, pset, &en.cents).decision() == cedar_policy::Decision::Allow;
                    l.case(hash_of(&(ei, &text)), if allow { "set-allows" } else { "set-denies" }, true);
                    for (name, got, exp) in [("always_allows", all_true(symcc::always_allows_asserts(&c).asserts()), !allow), ("always_denies", all_true(symcc::always_denies_asserts(&c).asserts()), allow)] {
                        l.transitions += 1;
                        match got {
                            None => ctx.violation(mp3.to_string() + &format!("{name}:not-constant"), format!("{name} asserts are not constants for {text:?}"), rep()),
                            Some(g) => {
                                if g != exp {
                                    ctx.violation(mp3.to_string() + &format!("{name}:disagrees"), format!("{name}: asserts refuted={g} but the concrete decision is allow={allow}: {text:?} env {:?}", en.req), rep());
                                }
                            }
                        }
                    }
                    comp.push(Some((c, allow)));
                }
                Some(Err(e)) => {
                    ctx.violation("compile-set:failed", format!("compiling a strictly valid policy set failed: {e}: {text:?}"), rep());
                    comp.push(None);
                }
                None => comp.push(None),
            }
        }
        let n = comp.len();
        for i in 0..n {
            for d in [1usize, 3] {
                let j = (i + d) % n;
                let (Some((a, aa)), Some((b_, ab))) = (&comp[i], &comp[j]) else { continue };
                let mp4 = mp_of(en.mp, &psets[i].0.iter().chain(psets[j].0.iter()).collect::<Vec<_>>(), &en.store, &sch);
                let rep = || json!({"policies1": psets[i].0.iter().map(|p| p.text(&st)).collect::<Vec<_>>(), "policies2": psets[j].0.iter().map(|p| p.text(&st)).collect::<Vec<_>>(), "request": format!("{:?}", en.req), "store": serde_json::to_value(&en.store).unwrap()});
                l.case(hash_of(&(ei, i, j, "setpair")), "set-pair", true);
                for (name, got, exp) in [
                    ("implies", all_true(symcc::implies_asserts(a, b_).asserts()), *aa && !*ab),
                    ("equivalent", all_true(symcc::equivalent_asserts(a, b_).asserts()), aa != ab),
                    ("disjoint", all_true(symcc::disjoint_asserts(a, b_).asserts()), *aa && *ab),
                ] {
                    l.transitions += 1;
                    match got {
                        None => ctx.violation(mp4.to_string() + &format!("{name}:not-constant"), format!("{name} asserts are not constants"), rep()),
                        Some(g) => {
                            if g != exp {
                                ctx.violation(mp4.to_string() + &format!("{name}:disagrees"), format!("{name}: asserts refuted={g}, concrete decisions allow={aa}/{ab} (expected refuted={exp})"), rep());
                            }
                        }
                    }
                }
            }
        }
        ctx.merge(l);
    });
    for (p, _) in pols.iter().step_by((pols.len() / 5).max(1)) {
        ctx.sample(json!({"policy": p.text(&st)}));
    }
    ctx.finish(
        "strictly valid policies of the C03 family (thinned) x conformant concrete environments of universe W: SymEnv::from_concrete_env + compile_with_custom_symenv, then never_errors / always_matches / never_matches and the pairwise matches_* asserts; strictly valid policy sets (C14 family) and pairs of them: always_allows / always_denies / implies / equivalent / disjoint; every assert must be a literal and all-true must coincide with the concrete evaluator/authorizer verdict; case = (policy or pair or set, environment); all non-trivial",
        json!({"tier": tier.name()}),
        &["says nothing about non-literal terms or the SMT encoding (no solver in this family)", "concrete verdicts come from the real evaluator/authorizer (checked against the reference in C01/C02)"],
        true,
    )
}
