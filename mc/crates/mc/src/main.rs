//! `mc <Cxx> --tier quick|thorough [--replay FILE]`
//! exit 0 held / 1 + VIOLATION line / 2 machinery error (never a verdict)
#![allow(dead_code)]
mod bind;
mod harness;
mod world;
#[cfg(any(feature = "c16", feature = "c17"))]
mod lvl;
#[cfg(any(feature = "c03", feature = "c10", feature = "c11", feature = "c13", feature = "c14", feature = "c15", feature = "c16", feature = "c17", feature = "c18"))]
mod schema;
#[cfg(any(feature = "c05", feature = "c06"))]
mod progs;
#[cfg(feature = "c01")]
mod c01;
#[cfg(feature = "c02")]
mod c02;
#[cfg(feature = "c03")]
mod c03;
#[cfg(feature = "c04")]
mod c04;
#[cfg(feature = "c05")]
mod c05;
#[cfg(feature = "c06")]
mod c06;
#[cfg(feature = "c07")]
mod c07;
#[cfg(feature = "c08")]
mod c08;
#[cfg(feature = "c09")]
mod c09;
#[cfg(feature = "c10")]
mod c10;
#[cfg(feature = "c11")]
mod c11;
#[cfg(feature = "c12")]
mod c12;
#[cfg(feature = "c13")]
mod c13;
#[cfg(feature = "c14")]
mod c14;
#[cfg(feature = "c15")]
mod c15;
#[cfg(feature = "c16")]
mod c16;
#[cfg(feature = "c17")]
mod c17;
#[cfg(feature = "c18")]
mod c18;
#[cfg(feature = "c19")]
mod c19;
#[cfg(feature = "c20")]
mod c20;

use harness::Tier;

fn main() {
    let args: Vec<String> = std::env::args().collect();
    if args.len() < 2 {
        eprintln!("usage: mc <Cxx> --tier quick|thorough [--replay FILE]");
        std::process::exit(2);
    }
    let id = args[1].as_str();
    let mut tier = match std::env::var("VERIF_TIER").ok().as_deref() {
        Some("thorough") => Tier::Thorough,
        _ => Tier::Quick,
    };
    let mut replay: Option<String> = None;
    let mut i = 2;
    while i < args.len() {
        match args[i].as_str() {
            "--tier" => {
                i += 1;
                tier = match args.get(i).map(|s| s.as_str()) {
                    Some("quick") => Tier::Quick,
                    Some("thorough") => Tier::Thorough,
                    _ => {
                        eprintln!("bad tier");
                        std::process::exit(2)
                    }
                };
            }
            "--replay" => {
                i += 1;
                replay = args.get(i).cloned();
            }
            _ => {}
        }
        i += 1;
    }
    let code = match id {
        #[cfg(feature = "c01")]
        "C01" => c01::run(tier, replay.as_deref()),
        #[cfg(feature = "c02")]
        "C02" => c02::run(tier, replay.as_deref()),
        #[cfg(feature = "c03")]
        "C03" => c03::run(tier, replay.as_deref()),
        #[cfg(feature = "c04")]
        "C04" => c04::run(tier, replay.as_deref()),
        #[cfg(feature = "c05")]
        "C05" => c05::run(tier, replay.as_deref()),
        #[cfg(feature = "c06")]
        "C06" => c06::run(tier, replay.as_deref()),
        #[cfg(feature = "c07")]
        "C07" => c07::run(tier, replay.as_deref()),
        #[cfg(feature = "c08")]
        "C08" => c08::run(tier, replay.as_deref()),
        #[cfg(feature = "c09")]
        "C09" => c09::run(tier, replay.as_deref()),
        #[cfg(feature = "c10")]
        "C10" => c10::run(tier, replay.as_deref()),
        #[cfg(feature = "c11")]
        "C11" => c11::run(tier, replay.as_deref()),
        #[cfg(feature = "c12")]
        "C12" => c12::run(tier, replay.as_deref()),
        #[cfg(feature = "c13")]
        "C13" => c13::run(tier, replay.as_deref()),
        #[cfg(feature = "c14")]
        "C14" => c14::run(tier, replay.as_deref()),
        #[cfg(feature = "c15")]
        "C15" => c15::run(tier, replay.as_deref()),
        #[cfg(feature = "c16")]
        "C16" => c16::run(tier, replay.as_deref()),
        #[cfg(feature = "c17")]
        "C17" => c17::run(tier, replay.as_deref()),
        #[cfg(feature = "c18")]
        "C18" => c18::run(tier, replay.as_deref()),
        #[cfg(feature = "c19")]
        "C19" => c19::run(tier, replay.as_deref()),
        #[cfg(feature = "c20")]
        "C20" => c20::run(tier, replay.as_deref()),
        _ => {
            eprintln!("unknown or not compiled-in check {id}");
            2
        }
    };
    std::process::exit(code);
}
