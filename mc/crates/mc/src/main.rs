//! `mc <Cxx> --tier quick|thorough [--replay FILE]`
//! exit 0 held / 1 + VIOLATION line / 2 machinery error (never a verdict)
mod bind;
mod harness;
mod world;
mod c02;

use harness::Tier;

fn main() {
    let args: Vec<String> = std::env::args().collect();
    if args.len() < 2 {
        eprintln!("usage: mc <Cxx> --tier quick|thorough [--replay FILE]");
        std::process::exit(2);
    }
    let id = args[1].as_str();
    let mut tier = match std::env::var("VERIF_TIER").ok().as_deref() {
        Some("thorough") => Tier::Thorough,
        _ => Tier::Quick,
    };
    let mut replay: Option<String> = None;
    let mut i = 2;
    while i < args.len() {
        match args[i].as_str() {
            "--tier" => {
                i += 1;
                tier = match args.get(i).map(|s| s.as_str()) {
                    Some("quick") => Tier::Quick,
                    Some("thorough") => Tier::Thorough,
                    _ => {
                        eprintln!("bad tier");
                        std::process::exit(2)
                    }
                };
            }
            "--replay" => {
                i += 1;
                replay = args.get(i).cloned();
            }
            _ => {}
        }
        i += 1;
    }
    let _ = replay;
    let code = match id {
        "C02" => c02::run(tier),
        _ => {
            eprintln!("unknown check {id}");
            2
        }
    };
    std::process::exit(code);
}
