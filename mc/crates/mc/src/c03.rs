//! C03 — strict validation is sound and not vacuous. Three nested bounded spaces:
//! policies over the schema vocabulary x request environments x conformant stores.
use crate::bind::*;
use crate::harness::*;
use crate::schema::*;
use crate::world::*;
use cedar_policy_core::ast;
use cedar_policy_core::validator::typecheck::{PolicyCheck, Typechecker};
use cedar_policy_core::validator::types::{BoolType, EntityKind, RequestEnv, Type};
use cedar_policy_core::validator::ValidationMode as CoreMode;
use rayon::prelude::*;
use refsem::print::Style;
use refsem::*;
use serde_json::json;
use std::collections::{BTreeMap, HashMap};
use std::sync::atomic::{AtomicU64, Ordering};
use std::str::FromStr;
use std::sync::Arc;

fn v(x: Var) -> E {
    E::Var(x)
}
fn p() -> E {
    v(Var::Principal)
}
fn r() -> E {
    v(Var::Resource)
}
fn c() -> E {
    v(Var::Context)
}

/// atoms of the schema vocabulary (typed by the comment)
pub fn atoms() -> Vec<E> {
    vec![
        // Long
        E::attr(p(), "age"),
        E::attr(c(), "n"),
        E::attr(E::attr(r(), "meta"), "rev"), // optional, nested
        E::Long(1),
        E::bin(BinOp::GetTag, r(), E::str("n")),
        // String
        E::attr(p(), "nick"), // optional
        E::str("al"),
        E::bin(BinOp::GetTag, p(), E::str("t1")),
        // Bool
        E::attr(p(), "k y"), // optional
        E::attr(E::attr(r(), "meta"), "pub"),
        E::attr(c(), "flag"), // optional
        E::Bool(true),
        E::Bool(false),
        // entities
        p(),
        r(),
        v(Var::Action),
        E::attr(p(), "mgr"), // optional
        E::attr(r(), "owner"),
        E::attr(c(), "who"), // optional
        E::attr(c(), "col"), // optional enum
        E::Ent(ua()),
        E::Ent(uz()),
        E::Ent(gg()),
        E::Ent(dd()),
        E::ent("Color", "red"),
        E::ent("Color", "blue"), // undeclared enum id
        E::Ent(view()),
        E::ent("Nope", "x"), // undeclared type
        // sets / records / ext
        E::attr(r(), "labels"),
        E::Set(vec![E::str("x")]),
        E::Set(vec![]),
        E::attr(p(), "cols"), // optional
        E::attr(r(), "meta"),
        c(),
        E::attr(r(), "ip"), // optional ext
        E::ext("ip", vec![E::str("10.0.0.1")]),
        E::ext("decimal", vec![E::str("1.0")]),
        // undeclared accesses
        E::attr(p(), "missing"),
        E::attr(c(), "missing"),
        E::attr(E::attr(p(), "mgr"), "age"), // deref of optional
        E::attr(E::attr(r(), "owner"), "age"),
    ]
}

/// guards, each with the optional accesses it makes safe
pub fn guards() -> Vec<E> {
    vec![
        E::has(p(), "nick"),
        E::has(p(), "mgr"),
        E::has(E::attr(r(), "meta"), "rev"),
        E::has(r(), "ip"),
        E::has(c(), "who"),
        E::has(c(), "flag"),
        E::has(p(), "k y"),
        E::bin(BinOp::HasTag, p(), E::str("t1")),
        E::bin(BinOp::HasTag, r(), E::str("n")),
        E::Has(b(p()), vec!["mgr".into(), "nick".into()]),
        E::has(p(), "cols"),
        E::bin(BinOp::HasTag, p(), E::attr(p(), "nick")), // computed key (needs nick)
    ]
}

/// boolean accesses that need the guard with the same index in `guards()`
pub fn guarded() -> Vec<E> {
    let eq = |a: E, b_: E| E::bin(BinOp::Eq, a, b_);
    vec![
        eq(E::attr(p(), "nick"), E::str("al")),
        eq(E::attr(p(), "mgr"), E::Ent(ub())),
        E::bin(BinOp::Gt, E::attr(E::attr(r(), "meta"), "rev"), E::Long(1)),
        E::ext("isIpv4", vec![E::attr(r(), "ip")]),
        eq(E::attr(c(), "who"), p()),
        E::attr(c(), "flag"),
        E::attr(p(), "k y"),
        eq(E::bin(BinOp::GetTag, p(), E::str("t1")), E::str("x")),
        E::bin(BinOp::Gt, E::bin(BinOp::GetTag, r(), E::str("n")), E::Long(0)),
        eq(E::attr(E::attr(p(), "mgr"), "nick"), E::str("al")),
        E::bin(BinOp::Contains, E::attr(p(), "cols"), E::ent("Color", "red")),
        eq(E::bin(BinOp::GetTag, p(), E::attr(p(), "nick")), E::str("x")),
    ]
}

/// unguarded, always-safe boolean expressions
pub fn safe() -> Vec<E> {
    vec![
        E::bin(BinOp::Gt, E::attr(p(), "age"), E::Long(1)),
        E::attr(E::attr(r(), "meta"), "pub"),
        E::bin(BinOp::Eq, E::attr(r(), "owner"), p()),
        E::bin(BinOp::In, p(), E::Ent(gg())),
        E::bin(BinOp::Contains, E::attr(r(), "labels"), E::str("x")),
        E::bin(BinOp::Lt, E::attr(c(), "n"), E::Long(3)),
        E::bin(BinOp::Eq, p(), E::Ent(ua())),
        E::Bool(true),
        E::Bool(false),
        E::bin(BinOp::Eq, E::bin(BinOp::Add, E::attr(c(), "n"), E::Long(1)), E::Long(2)), // may overflow
        E::bin(BinOp::Gt, E::attr(E::attr(r(), "owner"), "age"), E::Long(1)),              // owner may be missing
    ]
}

/// the documented guard shapes (must be accepted when the guard matches the access)
fn must_accept_shapes(g: &E, a: &E, u: &E) -> Vec<E> {
    vec![
        E::and(g.clone(), a.clone()),
        E::ite(g.clone(), a.clone(), E::Bool(false)),
        E::and(g.clone(), E::and(u.clone(), a.clone())),
        E::and(E::and(u.clone(), g.clone()), a.clone()),
        E::ite(g.clone(), E::and(u.clone(), a.clone()), u.clone()),
    ]
}

/// shapes where acceptance would be unsound or is left open; whatever the validator says,
/// soundness is checked on the accepted ones
fn open_shapes(g: &E, a: &E, u: &E, h: &E) -> Vec<E> {
    vec![
        E::or(g.clone(), a.clone()),
        E::and(E::or(g.clone(), E::Bool(true)), a.clone()),
        E::and(E::or(g.clone(), u.clone()), a.clone()),
        E::and(E::not(g.clone()), a.clone()),
        E::ite(g.clone(), u.clone(), a.clone()),
        E::ite(E::not(g.clone()), u.clone(), a.clone()),
        E::and(g.clone(), E::and(h.clone(), a.clone())),
        E::or(E::and(g.clone(), u.clone()), a.clone()),
        E::or(u.clone(), E::and(g.clone(), a.clone())),
        E::and(E::and(g.clone(), u.clone()), a.clone()),
        E::and(E::ite(u.clone(), g.clone(), E::Bool(false)), a.clone()),
        E::and(E::ite(u.clone(), g.clone(), E::Bool(true)), a.clone()),
        E::and(E::ite(g.clone(), E::Bool(true), u.clone()), a.clone()),
        E::and(a.clone(), g.clone()),
        E::and(E::bin(BinOp::Eq, g.clone(), E::Bool(true)), a.clone()),
        E::and(E::or(g.clone(), h.clone()), a.clone()),
        E::and(E::and(g.clone(), h.clone()), a.clone()),
        E::ite(E::and(g.clone(), h.clone()), a.clone(), u.clone()),
        E::ite(E::or(g.clone(), h.clone()), a.clone(), u.clone()),
        E::and(E::not(E::not(g.clone())), a.clone()),
        // `!G || A` is semantically safe but not among the documented guard patterns: left open
        E::or(E::not(g.clone()), a.clone()),
    ]
}

#[derive(Clone, Debug, serde::Serialize, serde::Deserialize)]
pub struct Cand {
    pub pol: Pol,
    /// Some(_) when the policy comes from the type-directed generator and MUST be accepted
    pub must_accept: bool,
}

fn scoped(e: E, action: &AS, k: usize, must: bool) -> Cand {
    let mut pol = Pol::simple(&format!("c{k}"), if k % 5 == 0 { Effect::Forbid } else { Effect::Permit }, None);
    pol.action = action.clone();
    if k % 3 == 0 {
        pol.conds = vec![(false, E::not(e))];
    } else {
        pol.conds = vec![(true, e)];
    }
    Cand { pol, must_accept: must }
}

pub fn candidates(tier: Tier) -> Vec<Cand> {
    let mut out = Vec::new();
    let at = atoms();
    let gs = guards();
    let ga = guarded();
    let sf = safe();
    let view_scope = AS::Eq(view());
    let mut k = 0usize;
    let mut push = |e: E, must: bool, out: &mut Vec<Cand>, scope: &AS| {
        k += 1;
        out.push(scoped(e, scope, k, must));
    };
    // --- type-directed, must be accepted ---
    for (i, g) in gs.iter().enumerate() {
        // the computed-key hasTag guard needs its own guard
        if i == 11 {
            for s in must_accept_shapes(&E::and(gs[0].clone(), g.clone()), &ga[i], &sf[0]) {
                push(s, true, &mut out, &view_scope);
            }
            continue;
        }
        for (ui, u) in sf.iter().enumerate() {
            if ui == 7 || ui == 8 {
                continue; // literal true/false change the typing of && / if (left open below)
            }
            for s in must_accept_shapes(g, &ga[i], u) {
                push(s, true, &mut out, &view_scope);
            }
        }
    }
    for u in &sf {
        push(u.clone(), true, &mut out, &view_scope);
        for w in &sf {
            if matches!(u, E::Bool(_)) || matches!(w, E::Bool(_)) {
                continue;
            }
            push(E::and(u.clone(), w.clone()), true, &mut out, &view_scope);
            push(E::or(u.clone(), w.clone()), true, &mut out, &view_scope);
            push(E::ite(u.clone(), w.clone(), u.clone()), true, &mut out, &view_scope);
        }
    }
    // --- guard shapes, open ---
    for (i, g) in gs.iter().enumerate() {
        for (j, a) in ga.iter().enumerate() {
            // quick: matching guard, the neighbouring guard and one far guard; thorough: all pairs
            if tier == Tier::Quick && !(j == i || j == (i + 1) % ga.len() || j == (i + 5) % ga.len()) {
                continue;
            }
            let h = &gs[(i + 3) % gs.len()];
            for (ui, u) in sf.iter().enumerate() {
                if tier == Tier::Quick && !(ui == 0 || ui == 7 || ui == 8) {
                    continue;
                }
                for s in open_shapes(g, a, u, h) {
                    push(s, false, &mut out, &view_scope);
                }
                if i != j {
                    for s in must_accept_shapes(g, a, u) {
                        push(s, false, &mut out, &view_scope);
                    }
                }
            }
        }
    }
    // --- a guard of one kind (attribute / tag) in front of an access of the other kind with the
    // same name (after hand mutant c03_tag_capability_is_attribute_capability) ---
    {
        let eq = |a: E, b_: E| E::bin(BinOp::Eq, a, b_);
        let confusable: Vec<(E, E)> = vec![
            (E::has(p(), "nick"), eq(E::bin(BinOp::GetTag, p(), E::str("nick")), E::str("x"))),
            (E::has(r(), "ip"), E::bin(BinOp::Gt, E::bin(BinOp::GetTag, r(), E::str("ip")), E::Long(0))),
            (E::bin(BinOp::HasTag, p(), E::str("nick")), eq(E::attr(p(), "nick"), E::str("al"))),
            (E::bin(BinOp::HasTag, p(), E::str("mgr")), eq(E::attr(p(), "mgr"), E::Ent(ub()))),
            (E::bin(BinOp::HasTag, r(), E::str("ip")), E::ext("isIpv4", vec![E::attr(r(), "ip")])),
        ];
        for (g, a) in &confusable {
            for s in must_accept_shapes(g, a, &sf[0]) {
                push(s, false, &mut out, &view_scope);
            }
            push(E::and(E::and(g.clone(), sf[1].clone()), a.clone()), false, &mut out, &view_scope);
        }
    }
    // --- general depth 1/2 over the vocabulary ---
    let bin_ops = [BinOp::Eq, BinOp::Neq, BinOp::Lt, BinOp::Le, BinOp::Add, BinOp::Mul, BinOp::In, BinOp::Contains, BinOp::ContainsAll, BinOp::ContainsAny, BinOp::GetTag, BinOp::HasTag];
    for x in &at {
        push(x.clone(), false, &mut out, &view_scope);
        push(E::not(x.clone()), false, &mut out, &view_scope);
        push(E::bin(BinOp::Eq, E::Neg(b(x.clone())), E::Long(1)), false, &mut out, &view_scope);
        push(E::IsEmpty(b(x.clone())), false, &mut out, &view_scope);
        push(E::Like(b(x.clone()), vec![Pat::Char('a'), Pat::Star]), false, &mut out, &view_scope);
        for t in ["User", "Group", "Doc", "Color", "Nope"] {
            push(E::Is(b(x.clone()), t.into()), false, &mut out, &view_scope);
            push(E::IsIn(b(x.clone()), t.into(), b(E::Ent(gg()))), false, &mut out, &view_scope);
        }
        for a in ["age", "nick", "mgr", "meta", "rev", "missing"] {
            push(E::has(x.clone(), a), false, &mut out, &view_scope);
        }
        push(E::ext("isIpv4", vec![x.clone()]), false, &mut out, &view_scope);
        push(E::ext("lessThan", vec![x.clone(), E::ext("decimal", vec![E::str("1.0")])]), false, &mut out, &view_scope);
        for y in &at {
            for op in bin_ops {
                push(E::bin(op, x.clone(), y.clone()), false, &mut out, &view_scope);
            }
            push(E::bin(BinOp::Contains, E::Set(vec![x.clone()]), y.clone()), false, &mut out, &view_scope);
            push(E::bin(BinOp::Eq, E::ite(E::attr(E::attr(r(), "meta"), "pub"), x.clone(), y.clone()), x.clone()), false, &mut out, &view_scope);
            push(E::bin(BinOp::Eq, E::Rec(vec![("f".into(), x.clone())]), E::Rec(vec![("f".into(), y.clone())])), false, &mut out, &view_scope);
        }
    }
    // --- every extension function over extension-typed and wrongly typed operands ---
    {
        let xs = [
            E::ext("ip", vec![E::str("10.0.0.1")]),
            E::ext("decimal", vec![E::str("1.5")]),
            E::ext("datetime", vec![E::str("2024-01-01")]),
            E::ext("duration", vec![E::str("1h")]),
            E::Long(1),
            E::str("10.0.0.1"),
            p(),
            E::attr(c(), "n"),
        ];
        for (name, arity) in refsem::ext::EXT_FUNCS {
            for x in &xs {
                if *arity == 1 {
                    // boolean-valued observers directly, others through `==` with themselves
                    let call = E::ext(name, vec![x.clone()]);
                    push(call.clone(), false, &mut out, &view_scope);
                    push(E::bin(BinOp::Eq, call.clone(), call.clone()), false, &mut out, &view_scope);
                    push(E::bin(BinOp::Lt, call.clone(), E::Long(5)), false, &mut out, &view_scope);
                } else {
                    for y in &xs {
                        let call = E::ext(name, vec![x.clone(), y.clone()]);
                        push(call.clone(), false, &mut out, &view_scope);
                        push(E::bin(BinOp::Eq, call.clone(), call.clone()), false, &mut out, &view_scope);
                    }
                }
            }
        }
        // < and <= on extension values
        for x in &xs {
            for y in &xs {
                push(E::bin(BinOp::Lt, x.clone(), y.clone()), false, &mut out, &view_scope);
                push(E::bin(BinOp::Ge, x.clone(), y.clone()), false, &mut out, &view_scope);
            }
        }
    }
    // --- comparisons between set-typed attributes of different element types (all of them are
    // inhabited by the empty set, so none of these may be typed False) ---
    {
        let cols = E::attr(p(), "cols"); // Set<Color>, optional
        let eds = E::attr(r(), "eds"); // Set<User>, optional
        let labels = E::attr(r(), "labels"); // Set<String>
        let g = |body: E| E::and(E::has(p(), "cols"), E::and(E::has(r(), "eds"), body));
        let sets = [cols.clone(), eds.clone(), labels.clone(), E::Set(vec![]), E::Set(vec![E::Ent(ua())]), E::Set(vec![E::ent("Color", "red")])];
        for x in &sets {
            for y in &sets {
                for op in [BinOp::Eq, BinOp::Neq, BinOp::ContainsAll, BinOp::ContainsAny] {
                    push(g(E::bin(op, x.clone(), y.clone())), false, &mut out, &view_scope);
                    push(g(E::not(E::bin(op, x.clone(), y.clone()))), false, &mut out, &view_scope);
                }
                push(g(E::ite(E::bin(BinOp::Eq, x.clone(), y.clone()), E::attr(E::attr(r(), "meta"), "pub"), E::Bool(true))), false, &mut out, &view_scope);
            }
            push(g(E::IsEmpty(b(x.clone()))), false, &mut out, &view_scope);
            push(g(E::bin(BinOp::Contains, x.clone(), p())), false, &mut out, &view_scope);
            push(g(E::bin(BinOp::In, p(), x.clone())), false, &mut out, &view_scope);
        }
    }
    // --- other scopes: edit (resource Doc | Group), action groups, unconstrained action ---
    let edit_scope = AS::Eq(edit());
    let scopes = [edit_scope, AS::In(readers()), AS::InList(vec![view(), edit()]), AS::Any];
    let res_acc = [
        E::bin(BinOp::Eq, E::attr(r(), "owner"), p()),
        E::and(E::Is(b(r()), "Doc".into()), E::bin(BinOp::Eq, E::attr(r(), "owner"), p())),
        E::and(E::Is(b(r()), "Group".into()), E::bin(BinOp::Eq, E::attr(r(), "owner"), p())),
        E::or(E::Is(b(r()), "Group".into()), E::attr(E::attr(r(), "meta"), "pub")),
        E::ite(E::Is(b(r()), "Doc".into()), E::attr(E::attr(r(), "meta"), "pub"), E::bin(BinOp::In, p(), r())),
        E::bin(BinOp::In, r(), E::Ent(gh())),
        E::bin(BinOp::Lt, E::attr(c(), "n"), E::Long(3)),
        E::and(E::bin(BinOp::Eq, v(Var::Action), E::Ent(view())), E::bin(BinOp::Lt, E::attr(c(), "n"), E::Long(3))),
        E::and(E::bin(BinOp::In, v(Var::Action), E::Ent(readers())), E::bin(BinOp::Lt, E::attr(c(), "n"), E::Long(3))),
        E::or(E::bin(BinOp::Neq, v(Var::Action), E::Ent(view())), E::has(c(), "n")),
        E::bin(BinOp::In, v(Var::Action), E::Set(vec![E::Ent(view()), E::Ent(edit())])),
        E::has(c(), "n"),
        E::bin(BinOp::Gt, E::attr(p(), "age"), E::Long(1)),
        E::and(E::Is(b(p()), "User".into()), E::bin(BinOp::Gt, E::attr(p(), "age"), E::Long(1))),
        E::Is(b(p()), "Color".into()),
        E::IsIn(b(r()), "Pal".into(), b(E::ent("Color", "red"))),
        E::bin(BinOp::In, r(), E::ent("Color", "green")),
        E::bin(BinOp::HasTag, r(), E::str("t")),
        E::and(E::bin(BinOp::HasTag, r(), E::str("t")), E::bin(BinOp::Eq, E::bin(BinOp::GetTag, r(), E::str("t")), E::ent("Color", "red"))),
    ];
    for sc in &scopes {
        for e in &res_acc {
            push(e.clone(), false, &mut out, sc);
        }
    }
    out
}

// ---------- value ∈ static type ----------

pub fn val_in_type(val: &Val, t: &Type) -> bool {
    match (val, t) {
        (_, Type::Never) => false,
        (Val::Bool(_), Type::Bool(BoolType::AnyBool)) => true,
        (Val::Bool(x), Type::Bool(BoolType::True)) => *x,
        (Val::Bool(x), Type::Bool(BoolType::False)) => !*x,
        (Val::Long(_), Type::Long) => true,
        (Val::Str(_), Type::String) => true,
        (Val::Uid(_), Type::Entity(EntityKind::AnyEntity)) => true,
        (Val::Uid(u), Type::Entity(EntityKind::Entity(lub))) => match lub.get_single_entity() {
            Some(et) => et.to_string() == u.ty,
            None => true, // a proper LUB: its members are not observable through the public API
        },
        (Val::Set(s), Type::Set { element_type }) => match element_type {
            Some(et) => s.iter().all(|x| val_in_type(x, et)),
            None => true,
        },
        (Val::Rec(m), Type::Record { attrs, open_attributes }) => {
            for (k, at) in attrs.iter() {
                match m.get(k.as_str()) {
                    Some(x) => {
                        if !val_in_type(x, &at.attr_type) {
                            return false;
                        }
                    }
                    None => {
                        if at.is_required {
                            return false;
                        }
                    }
                }
            }
            if matches!(open_attributes, cedar_policy_core::validator::types::OpenTag::ClosedAttributes) {
                for k in m.keys() {
                    if attrs.get_attr(k).is_none() {
                        return false;
                    }
                }
            }
            true
        }
        (Val::Ext(x), Type::ExtensionType { name }) => {
            let n = name.to_string();
            matches!((x, n.as_str()), (ExtVal::Decimal(_), "decimal") | (ExtVal::Ip(_), "ipaddr") | (ExtVal::Datetime(_), "datetime") | (ExtVal::Duration(_), "duration"))
        }
        _ => false,
    }
}

/// Walk the typed AST in evaluation order; every *reached* sub-expression's value must inhabit
/// its static type. Returns the first offending (expression text, value, type).
fn walk(t: &ast::Expr<Option<Type>>, env: &Env, bad: &mut Option<String>) -> R {
    use ast::ExprKind as K;
    let e = match abs_expr(t) {
        Ok(e) => e,
        Err(_) => return Err(ErrClass::Other),
    };
    let val = refsem::eval(&e, env);
    if let (Ok(v), Some(ty)) = (&val, t.data()) {
        if !val_in_type(v, ty) && bad.is_none() {
            *bad = Some(format!("sub-expression `{}` evaluates to {:?} which does not inhabit its static type {}", refsem::print::text(&e, &Style::default()), v, ty));
        }
    }
    // recurse into the children that are actually evaluated
    match t.expr_kind() {
        K::And { left, right } => {
            if let Ok(Val::Bool(true)) = walk(left, env, bad) {
                let _ = walk(right, env, bad);
            }
        }
        K::Or { left, right } => {
            if let Ok(Val::Bool(false)) = walk(left, env, bad) {
                let _ = walk(right, env, bad);
            }
        }
        K::If { test_expr, then_expr, else_expr } => match walk(test_expr, env, bad) {
            Ok(Val::Bool(true)) => {
                let _ = walk(then_expr, env, bad);
            }
            Ok(Val::Bool(false)) => {
                let _ = walk(else_expr, env, bad);
            }
            _ => {}
        },
        K::UnaryApp { arg, .. } => {
            let _ = walk(arg, env, bad);
        }
        K::BinaryApp { arg1, arg2, .. } => {
            if walk(arg1, env, bad).is_ok() {
                let _ = walk(arg2, env, bad);
            }
        }
        K::ExtensionFunctionApp { args, .. } => {
            for a in args.iter() {
                if walk(a, env, bad).is_err() {
                    break;
                }
            }
        }
        K::GetAttr { expr, .. } | K::HasAttr { expr, .. } | K::Like { expr, .. } | K::Is { expr, .. } => {
            let _ = walk(expr, env, bad);
        }
        K::Set(v) => {
            for a in v.iter() {
                if walk(a, env, bad).is_err() {
                    break;
                }
            }
        }
        K::Record(m) => {
            for (_, a) in m.iter() {
                if walk(a, env, bad).is_err() {
                    break;
                }
            }
        }
        _ => {}
    }
    val
}

pub struct Accepted {
    pub cand: Cand,
    pub text: String,
    pub ast: ast::Policy,
    /// typed condition per (principal type, action id, resource type)
    pub typed: HashMap<(String, String, String), ast::Expr<Option<Type>>>,
    pub impossible: bool,
}

pub struct World {
    pub sch: Schema,
    pub schema: cedar_policy::Schema,
    /// (reference request, reference store incl. action entities, cedar request, cedar entities)
    pub envs: Vec<(Req, Arc<Store>, cedar_policy::Request, Arc<cedar_policy::Entities>)>,
}

pub fn world(tier: Tier, ctx: &Ctx) -> Option<World> {
    let sch = w_schema();
    let schema = match sch.load_cedar() {
        Ok(s) => s,
        Err(e) => {
            eprintln!("MACHINERY ERROR: schema does not load: {e}");
            return None;
        }
    };
    let mut reqs = w_requests();
    reqs.extend(crate::c11::base_requests().into_iter().filter(|r| r.action.id == "paint"));
    let mut stores = w_stores(tier);
    stores.push(crate::c11::rich_store());
    let mut envs = Vec::new();
    let creqs: Vec<Option<cedar_policy::Request>> = reqs
        .iter()
        .map(|r| match c_request_schema(r, &schema) {
            Ok(x) => Some(x),
            Err(e) => {
                // precondition by the library itself: conformant-by-construction data must be accepted
                ctx.violation("precondition:request-rejected", format!("conformant request rejected: {r:?}: {e}"), json!({"req": format!("{r:?}")}));
                None
            }
        })
        .collect();
    for s in &stores {
        let ce = match c_entities_schema(s, &schema) {
            Ok(x) => Arc::new(x),
            Err(e) => {
                ctx.violation("precondition:store-rejected", format!("conformant store rejected: {e}"), json!({"store": serde_json::to_value(s).unwrap()}));
                continue;
            }
        };
        let rs = Arc::new(with_actions(s, &sch));
        for (i, r) in reqs.iter().enumerate() {
            if let Some(cr) = &creqs[i] {
                envs.push((r.clone(), rs.clone(), cr.clone(), ce.clone()));
            }
        }
    }
    Some(World { sch, schema, envs })
}

pub fn analyse(cand: &Cand, w: &World, ctx: &Ctx, l: &mut Local) -> Option<Accepted> {
    let text = cand.pol.text(&Style::default());
    let pol = match cedar_policy::Policy::parse(Some(cedar_policy::PolicyId::new(&cand.pol.id)), &text) {
        Ok(p) => p,
        Err(e) => {
            ctx.violation("gen:text-rejected", format!("{text}: {e}"), json!({"text": text}));
            return None;
        }
    };
    let pset = cedar_policy::PolicySet::from_policies([pol.clone()]).ok()?;
    let validator = cedar_policy::Validator::new(w.schema.clone());
    let strict = validator.validate(&pset, cedar_policy::ValidationMode::Strict);
    let permissive = validator.validate(&pset, cedar_policy::ValidationMode::Permissive);
    l.transitions += 2;
    let strict_ok = strict.validation_errors().next().is_none();
    let permissive_ok = permissive.validation_errors().next().is_none();
    let impossible = strict.validation_warnings().any(|w| matches!(w, cedar_policy::ValidationWarning::ImpossiblePolicy(_)));
    let class = match (strict_ok, impossible) {
        (true, false) => "accepted",
        (true, true) => "accepted-impossible",
        (false, _) => "rejected",
    };
    l.case(hash_of(&cand.pol), class, true);
    if strict_ok && !permissive_ok {
        ctx.violation("strict-not-permissive", format!("accepted in strict mode but rejected in permissive mode: {text}"), json!({"cand": serde_json::to_value(cand).unwrap()}));
    }
    if cand.must_accept && !strict_ok {
        let errs: Vec<String> = strict.validation_errors().map(|e| e.to_string()).collect();
        ctx.violation(format!("vacuity:rejected:{}", crate::c02::head(&cand.pol.conds[0].1)), format!("type-directed policy rejected by strict validation: {text}: {errs:?}"), json!({"cand": serde_json::to_value(cand).unwrap()}));
    }
    if !strict_ok {
        return None;
    }
    // typed ASTs per request environment
    let core_schema: &cedar_policy_core::validator::ValidatorSchema = w.schema.as_ref();
    let tc = Typechecker::new(core_schema, CoreMode::Strict);
    let apol: &ast::Policy = pol.as_ref();
    let mut typed = HashMap::new();
    for (renv, check) in tc.typecheck_by_request_env(apol.template()) {
        l.transitions += 1;
        if let RequestEnv::DeclaredAction { principal, action, resource, .. } = renv {
            let key = (principal.to_string(), AsRef::<str>::as_ref(action.eid()).to_string(), resource.to_string());
            match check {
                PolicyCheck::Success(t) | PolicyCheck::Irrelevant(_, t) => {
                    typed.insert(key, t);
                }
                PolicyCheck::Fail(_) => {
                    ctx.violation("typecheck-disagrees", format!("Validator accepted `{text}` but typecheck_by_request_env fails for env {key:?}"), json!({"cand": serde_json::to_value(cand).unwrap()}));
                }
            }
        }
    }
    Some(Accepted { cand: cand.clone(), text, ast: apol.clone(), typed, impossible })
}

/// templates: scope forms with slots x bodies, each linked with two bindings
pub fn template_candidates() -> Vec<(Cand, (Option<Uid>, Option<Uid>))> {
    let gs = guards();
    let ga = guarded();
    let sf = safe();
    let mut bodies: Vec<(E, bool)> = Vec::new();
    for i in [0usize, 2, 4, 7] {
        bodies.push((E::and(gs[i].clone(), ga[i].clone()), true));
        bodies.push((ga[i].clone(), false));
        bodies.push((E::and(E::or(gs[i].clone(), E::Bool(true)), ga[i].clone()), false));
        bodies.push((E::ite(gs[i].clone(), sf[0].clone(), ga[i].clone()), false));
    }
    for u in [0usize, 2, 3, 5] {
        bodies.push((sf[u].clone(), true));
    }
    let pscopes = [PR::Eq(Ref::Slot), PR::In(Ref::Slot), PR::IsIn("User".into(), Ref::Slot), PR::Any];
    let rscopes = [PR::Any, PR::Eq(Ref::Slot), PR::In(Ref::Slot), PR::IsIn("Doc".into(), Ref::Slot)];
    let mut out = Vec::new();
    let mut k = 0usize;
    for ps in &pscopes {
        for rs in &rscopes {
            if *ps == PR::Any && *rs == PR::Any {
                continue;
            }
            for (body, must) in &bodies {
                k += 1;
                let mut pol = Pol::simple(&format!("t{k}"), if k % 4 == 0 { Effect::Forbid } else { Effect::Permit }, Some(body.clone()));
                pol.action = AS::Eq(view());
                pol.principal = ps.clone();
                pol.resource = rs.clone();
                let pb = |x: Uid| if pol.principal_slot() { Some(x) } else { None };
                let rb = |x: Uid| if pol.resource_slot() { Some(x) } else { None };
                // principal-side bindings: the user itself / a group it may be in; resource-side: the doc / its group
                let binds = [(pb(if matches!(ps, PR::Eq(_)) { ua() } else { gg() }), rb(if matches!(rs, PR::Eq(_)) { dd() } else { gg() })), (pb(ub()), rb(gh()))];
                for bnd in binds {
                    // must-accept only for bindings of the slot's natural type
                    let natural = bnd.0.as_ref().map(|u| if matches!(ps, PR::Eq(_)) { u.ty == "User" } else { u.ty == "Group" }).unwrap_or(true)
                        && bnd.1.as_ref().map(|u| if matches!(rs, PR::Eq(_)) { u.ty == "Doc" } else { u.ty == "Group" }).unwrap_or(true);
                    out.push((Cand { pol: pol.clone(), must_accept: *must && natural }, bnd));
                }
            }
        }
    }
    out
}

pub fn analyse_template(cand: &Cand, bind: &(Option<Uid>, Option<Uid>), w: &World, ctx: &Ctx, l: &mut Local) -> Option<Accepted> {
    let text = cand.pol.text(&Style::default());
    let tid = cedar_policy::PolicyId::new(format!("T-{}", cand.pol.id));
    let lid = cedar_policy::PolicyId::new(&cand.pol.id);
    let t = match cedar_policy::Template::parse(Some(tid.clone()), &text) {
        Ok(t) => t,
        Err(e) => {
            ctx.violation("gen:template-rejected", format!("{text}: {e}"), json!({"text": text}));
            return None;
        }
    };
    let mut pset = cedar_policy::PolicySet::new();
    pset.add_template(t).ok()?;
    let mut m = HashMap::new();
    if let Some(pu) = &bind.0 {
        m.insert(cedar_policy::SlotId::principal(), c_uid(pu));
    }
    if let Some(ru) = &bind.1 {
        m.insert(cedar_policy::SlotId::resource(), c_uid(ru));
    }
    if let Err(e) = pset.link(tid, lid, m) {
        ctx.violation("gen:link-failed", format!("{text}: {e}"), json!({"text": text}));
        return None;
    }
    let validator = cedar_policy::Validator::new(w.schema.clone());
    let strict = validator.validate(&pset, cedar_policy::ValidationMode::Strict);
    let permissive = validator.validate(&pset, cedar_policy::ValidationMode::Permissive);
    l.transitions += 2;
    let strict_ok = strict.validation_errors().next().is_none();
    let impossible = strict.validation_warnings().any(|w| matches!(w, cedar_policy::ValidationWarning::ImpossiblePolicy(_)));
    l.case(hash_of(&(&cand.pol, bind)), if strict_ok { "template-accepted" } else { "template-rejected" }, true);
    let rep = || json!({"template": text, "binding": format!("{bind:?}")});
    if strict_ok && permissive.validation_errors().next().is_some() {
        ctx.violation("strict-not-permissive", format!("template+link accepted in strict mode but rejected in permissive mode: {text} {bind:?}"), rep());
    }
    if cand.must_accept && !strict_ok {
        let errs: Vec<String> = strict.validation_errors().map(|e| e.to_string()).collect();
        ctx.violation("vacuity:template-rejected", format!("type-directed template (linked with {bind:?}) rejected by strict validation: {text}: {errs:?}"), rep());
    }
    if !strict_ok {
        return None;
    }
    let aset: &ast::PolicySet = pset.as_ref();
    let linked = aset.policies().next()?.clone();
    // the reference policy is the textual substitution of the binding into the template
    let subst = cand.pol.substitute(&cand.pol.id, bind.0.as_ref(), bind.1.as_ref());
    Some(Accepted { cand: Cand { pol: subst, must_accept: cand.must_accept }, text: format!("{text} linked with {bind:?}"), ast: linked, typed: HashMap::new(), impossible })
}

fn replay(path: &str) -> i32 {
    let Some(doc) = std::fs::read_to_string(path).ok().and_then(|s| serde_json::from_str::<serde_json::Value>(&s).ok()) else {
        eprintln!("cannot read {path}");
        return 2;
    };
    let Ok(cand) = serde_json::from_value::<Cand>(doc["case"]["cand"].clone()) else {
        eprintln!("replay file holds no C03 candidate");
        return 2;
    };
    let ctx = Ctx::new("C03", Tier::Quick);
    let Some(w) = world(Tier::Quick, &ctx) else { return 2 };
    let mut l = Local::default();
    println!("replaying {}", cand.pol.text(&Style::default()));
    let acc = analyse(&cand, &w, &ctx, &mut l);
    if let Some(a) = &acc {
        let exts = cedar_policy_core::extensions::Extensions::all_available();
        for (ei, (req, store, creq, cents)) in w.envs.iter().enumerate() {
            let r: &ast::Request = creq.as_ref();
            let ev = cedar_policy_core::evaluator::Evaluator::new(r.clone(), cents.as_ref().as_ref(), exts);
            check_on_env(a, ei, req, store, &ev, &ctx, &mut l);
        }
    }
    if ctx.violation_seen() > 0 {
        println!("VIOLATION property=C03 replay={path}");
        1
    } else {
        println!("no violation on replay (accepted={})", acc.is_some());
        0
    }
}

fn check_on_env(a: &Accepted, ei: usize, req: &Req, store: &Store, ev: &cedar_policy_core::evaluator::Evaluator<'_>, ctx: &Ctx, l: &mut Local) {
    // only environments of the policy's action are informative
    let applies = match &a.cand.pol.action {
        AS::Any => true,
        AS::Eq(u) => *u == req.action,
        AS::In(u) => *u == req.action || store.reach(&req.action).contains(u),
        AS::InList(us) => us.iter().any(|u| *u == req.action || store.reach(&req.action).contains(u)),
    };
    if !applies {
        return;
    }
    let got = ev.evaluate(&a.ast);
    l.transitions += 1;
    let head = crate::c02::head(&a.cand.pol.conds[0].1);
    let renv = Env::new(req, store);
    let expect = a.cand.pol.eval(&renv);
    let cls = match &got {
        Ok(true) => "sat",
        Ok(false) => "unsat",
        Err(_) => "err",
    };
    l.case(hash_of(&(&a.cand.pol.id, ei)), cls, true);
    let rep = || json!({"cand": serde_json::to_value(&a.cand).unwrap(), "env": ei, "request": format!("{req:?}")});
    match &got {
        Ok(bv) => {
            if a.impossible && *bv {
                ctx.violation(format!("impossible-policy-satisfied:{head}"), format!("policy flagged impossible is satisfied: {} on env#{ei} {req:?}", a.text), rep());
            }
            if expect != Ok(*bv) {
                ctx.violation(format!("evaluator-vs-reference:{head}"), format!("{}: cedar {got:?} reference {expect:?} env#{ei}", a.text), rep());
            }
        }
        Err(e) => {
            let cl = class_of(e);
            if !matches!(cl, ErrClass::EntityMissing | ErrClass::Overflow | ErrClass::Extension) {
                ctx.violation(format!("unsound:{cl:?}:{head}"), format!("strict-valid policy fails with a {cl:?} error on a conformant environment: {} env#{ei} {req:?}: {e}", a.text), rep());
            }
            if expect != Err(cl) {
                ctx.violation(format!("evaluator-vs-reference:{head}"), format!("{}: cedar {got:?} reference {expect:?} env#{ei}", a.text), rep());
            }
        }
    }
    // typed-AST walk
    let key = (req.principal.ty.clone(), req.action.id.clone(), req.resource.ty.clone());
    if let Some(t) = a.typed.get(&key) {
        let mut bad = None;
        let _ = walk(t, &renv, &mut bad);
        if let Some(b) = bad {
            ctx.violation(format!("static-type-not-inhabited:{head}"), format!("{} env#{ei} {req:?}: {b}", a.text), rep());
        }
    }
}

/// Actions whose group lives in ANOTHER namespace (after seed C03-b2): the typechecker decides
/// `action in <literals>` statically from the schema's action hierarchy, and what it then
/// skips must really be unreachable. Self-contained world in Cedar schema syntax; oracle: a
/// strictly valid policy evaluates without any error on every conformant request (the bodies
/// hold no arithmetic, so every evaluation error is a type / attribute error).
fn cross_namespace_actions(ctx: &Ctx) {
    const SCHEMA: &str = r#"
namespace NS1 { action all; action none; }
namespace NS2 {
  entity User = { age: Long, nick?: String };
  entity Doc;
  action view in [NS1::Action::"all"] appliesTo { principal: [User], resource: [Doc] };
  action look in [Action::"local"] appliesTo { principal: [User], resource: [Doc] };
  action local in [NS1::Action::"all"];
  action edit appliesTo { principal: [User], resource: [Doc] };
}
"#;
    let Ok((schema, _)) = cedar_policy::Schema::from_cedarschema_str(SCHEMA) else {
        ctx.violation("gen:ns-schema-rejected", "cross-namespace schema rejected", json!({}));
        return;
    };
    let validator = cedar_policy::Validator::new(schema.clone());
    let groups = ["NS1::Action::\"all\"", "NS1::Action::\"none\"", "NS2::Action::\"local\"", "[NS1::Action::\"all\"]", "[NS2::Action::\"edit\", NS1::Action::\"all\"]", "[NS1::Action::\"none\", NS2::Action::\"local\"]"];
    let unsafe_tail = ["principal.nick like \"a*\"", "principal.nick == \"al\""];
    let mut pols: Vec<String> = Vec::new();
    for g in groups {
        for t in unsafe_tail {
            pols.push(format!("permit(principal, action in {g}, resource) when {{ {t} }};"));
            pols.push(format!("permit(principal, action, resource) when {{ action in {g} && {t} }};"));
            pols.push(format!("permit(principal, action, resource) when {{ !(action in {g}) || {t} }};"));
            pols.push(format!("permit(principal, action, resource) when {{ if action in {g} then {t} else true }};"));
            pols.push(format!("permit(principal, action, resource) when {{ if action in {g} then true else {t} }};"));
            pols.push(format!("permit(principal, action, resource) unless {{ action in {g} }} when {{ {t} }};"));
            pols.push(format!("forbid(principal, action, resource) when {{ (action in {g} || principal.age > 1) && {t} }};"));
            pols.push(format!("permit(principal, action in {g}, resource) when {{ principal has nick && {t} }};"));
        }
    }
    let ents_json = json!([
        {"uid": {"type": "NS2::User", "id": "a"}, "attrs": {"age": 3, "nick": "al"}, "parents": []},
        {"uid": {"type": "NS2::User", "id": "b"}, "attrs": {"age": 0}, "parents": []},
        {"uid": {"type": "NS2::Doc", "id": "d"}, "attrs": {}, "parents": []}
    ]);
    let Ok(ents) = cedar_policy::Entities::from_json_value(ents_json, Some(&schema)) else {
        ctx.violation("gen:ns-entities-rejected", "cross-namespace entities rejected", json!({}));
        return;
    };
    let uid = |s: &str| cedar_policy::EntityUid::from_str(s).unwrap();
    let auth = cedar_policy::Authorizer::new();
    let mut l = Local::default();
    for text in &pols {
        let Ok(p) = cedar_policy::Policy::parse(Some(cedar_policy::PolicyId::new("ns")), text) else {
            ctx.violation("gen:ns-policy-rejected", text.clone(), json!({}));
            continue;
        };
        let Ok(set) = cedar_policy::PolicySet::from_policies([p]) else { continue };
        l.transitions += 1;
        let valid = validator.validate(&set, cedar_policy::ValidationMode::Strict).validation_errors().next().is_none();
        l.case(hash_of(&("ns", text)), if valid { "ns:accepted" } else { "ns:rejected" }, valid);
        if !valid {
            continue;
        }
        for pr in ["NS2::User::\"a\"", "NS2::User::\"b\""] {
            for act in ["NS2::Action::\"view\"", "NS2::Action::\"look\"", "NS2::Action::\"edit\""] {
                let Ok(req) = cedar_policy::Request::new(uid(pr), uid(act), uid("NS2::Doc::\"d\""), cedar_policy::Context::empty(), Some(&schema)) else {
                    ctx.violation("gen:ns-request-rejected", format!("{pr} {act}"), json!({}));
                    continue;
                };
                let r = auth.is_authorized(&req, &set, &ents);
                l.transitions += 1;
                l.case(hash_of(&("ns", text, pr, act)), "ns:evaluated", true);
                let first_err: Option<String> = r.diagnostics().errors().next().map(|e| e.to_string());
                if let Some(e) = first_err {
                    ctx.violation(
                        "soundness:cross-namespace-action-group",
                        format!("strictly valid policy errors on a conformant request ({pr}, {act}): {e}: `{text}`"),
                        json!({"policy": text, "principal": pr, "action": act, "schema": SCHEMA}),
                    );
                }
            }
        }
    }
    ctx.merge(l);
}

/// The precondition of the property is what the LIBRARY accepts (after seed C03-b1): requests
/// and entity data that are just outside conformance are offered to schema-based validation;
/// whatever it accepts counts as an environment, and strictly valid policies must then
/// evaluate without type / attribute errors on it. (On a correct tree every probe is rejected.)
fn acceptance_probes(ctx: &Ctx) {
    const SCHEMA: &str = r#"
entity User = { age: Long, nick?: String, tag?: String };
entity Doc;
action view appliesTo { principal: [User], resource: [Doc], context: { level: Long, note?: String, more?: Long } };
"#;
    let Ok((schema, _)) = cedar_policy::Schema::from_cedarschema_str(SCHEMA) else {
        ctx.violation("gen:probe-schema-rejected", "probe schema rejected", json!({}));
        return;
    };
    let validator = cedar_policy::Validator::new(schema.clone());
    let pol_texts = [
        "permit(principal, action, resource) when { context has extra && context.extra > 0 };",
        "permit(principal, action, resource) when { context has note && context.note like \"a*\" };",
        "permit(principal, action, resource) when { context has more && context.more > 0 };",
        "permit(principal, action, resource) when { context.level > 0 };",
        "permit(principal, action, resource) when { principal has extra && principal.extra > 0 };",
        "permit(principal, action, resource) when { principal has nick && principal.nick like \"a*\" };",
        "permit(principal, action, resource) when { principal.age > 0 };",
    ];
    let mut set = cedar_policy::PolicySet::new();
    for (i, t) in pol_texts.iter().enumerate() {
        match cedar_policy::Policy::parse(Some(cedar_policy::PolicyId::new(format!("probe{i}"))), *t) {
            Ok(p) => {
                let _ = set.add(p);
            }
            Err(e) => ctx.violation("gen:probe-policy-rejected", format!("{t}: {e}"), json!({})),
        }
    }
    if validator.validate(&set, cedar_policy::ValidationMode::Strict).validation_errors().next().is_some() {
        ctx.violation("gen:probe-policies-invalid", "probe policies are not strictly valid", json!({}));
        return;
    }
    let good_ents = json!([{"uid": {"type": "User", "id": "a"}, "attrs": {"age": 3}, "parents": []}, {"uid": {"type": "Doc", "id": "d"}, "attrs": {}, "parents": []}]);
    let ent_probes = vec![
        json!([{"uid": {"type": "User", "id": "a"}, "attrs": {"age": 3, "extra": "x"}, "parents": []}, {"uid": {"type": "Doc", "id": "d"}, "attrs": {}, "parents": []}]),
        json!([{"uid": {"type": "User", "id": "a"}, "attrs": {"age": 3, "nick": 7}, "parents": []}, {"uid": {"type": "Doc", "id": "d"}, "attrs": {}, "parents": []}]),
        json!([{"uid": {"type": "User", "id": "a"}, "attrs": {"age": "3"}, "parents": []}, {"uid": {"type": "Doc", "id": "d"}, "attrs": {}, "parents": []}]),
        json!([{"uid": {"type": "User", "id": "a"}, "attrs": {"age": 3, "nick": "al", "extra": "x"}, "parents": []}, {"uid": {"type": "Doc", "id": "d"}, "attrs": {}, "parents": []}]),
        json!([{"uid": {"type": "User", "id": "a"}, "attrs": {"extra": 1, "other": 2}, "parents": []}, {"uid": {"type": "Doc", "id": "d"}, "attrs": {}, "parents": []}]),
    ];
    let ctx_probes = vec![
        json!({"level": 1, "extra": "x"}),
        json!({"level": 1, "extra": "x", "other": 1}),
        json!({"level": 1, "note": 3}),
        json!({"level": 1, "more": "m"}),
        json!({"level": "1"}),
        json!({"extra": 1}),
        json!({"level": 1, "note": "n", "more": 1, "extra": "x"}),
        json!({"level": 1, "note": "n", "extra": "x"}),
    ];
    let uid = |s: &str| cedar_policy::EntityUid::from_str(s).unwrap();
    let auth = cedar_policy::Authorizer::new();
    let mut l = Local::default();
    // (entities, context) pairs: good entities x every context probe, every entity probe x a good context
    let mut envs: Vec<(serde_json::Value, serde_json::Value, String)> = Vec::new();
    for (i, c) in ctx_probes.iter().enumerate() {
        envs.push((good_ents.clone(), c.clone(), format!("context-probe-{i}")));
    }
    for (i, e) in ent_probes.iter().enumerate() {
        envs.push((e.clone(), json!({"level": 1}), format!("entity-probe-{i}")));
    }
    envs.push((good_ents.clone(), json!({"level": 1}), "control".into()));
    for (ej, cj, name) in envs {
        l.transitions += 2;
        let ents = cedar_policy::Entities::from_json_value(ej.clone(), Some(&schema));
        // the context through the typed constructor path (pairs), validated by Request::new
        let c = cedar_policy::Context::from_json_value(cj.clone(), None);
        let (Ok(ents), Ok(c)) = (ents, c) else {
            l.case(hash_of(&("probe", &name)), "probe:rejected", name != "control");
            if name == "control" {
                ctx.violation("gen:probe-control-rejected", "the conformant control environment is rejected", json!({}));
            }
            continue;
        };
        let Ok(req) = cedar_policy::Request::new(uid("User::\"a\""), uid("Action::\"view\""), uid("Doc::\"d\""), c, Some(&schema)) else {
            l.case(hash_of(&("probe", &name)), "probe:rejected", true);
            continue;
        };
        l.case(hash_of(&("probe", &name)), if name == "control" { "probe:control" } else { "probe:accepted-by-the-library" }, true);
        let r = auth.is_authorized(&req, &set, &ents);
        l.transitions += 1;
        let first_err: Option<String> = r.diagnostics().errors().next().map(|e| e.to_string());
        if let Some(e) = first_err {
            ctx.violation(
                format!("soundness:environment-accepted-by-the-library:{}", name.split('-').next().unwrap_or("")),
                format!("schema-based validation accepted environment `{name}` (context {cj}, entities {ej}) and a strictly valid policy then fails: {e}"),
                json!({"context": cj, "entities": ej, "schema": SCHEMA, "policies": pol_texts}),
            );
        }
    }
    ctx.merge(l);
}

pub fn run(tier: Tier, replay_file: Option<&str>) -> i32 {
    if let Some(p) = replay_file {
        return replay(p);
    }
    let ctx = Ctx::new("C03", tier);
    quiet_panics();
    let Some(w) = world(tier, &ctx) else { return 2 };
    let cands = candidates(tier);
    ctx.set_info("candidate_policies", json!(cands.len()));
    ctx.set_info("environments", json!(w.envs.len()));
    // phase 1: validate + typecheck every candidate
    let accepted: Vec<Accepted> = cands
        .par_chunks(64)
        .flat_map_iter(|chunk| {
            let mut l = Local::default();
            let mut acc = Vec::new();
            for cand in chunk {
                if let Some(Some(a)) = ctx.guard("C03 validate", || serde_json::to_value(cand).unwrap(), || analyse(cand, &w, &ctx, &mut l)) {
                    acc.push(a);
                }
            }
            ctx.merge(l);
            acc
        })
        .collect();
    // templates, each linked (slots in ==, in, is..in scope positions)
    let mut accepted = accepted;
    {
        let tcands = template_candidates();
        ctx.set_info("template_link_candidates", json!(tcands.len()));
        let mut l = Local::default();
        let mut n_acc = 0;
        for (cand, bind) in &tcands {
            if let Some(Some(a)) = ctx.guard("C03 validate template", || serde_json::to_value(cand).unwrap(), || analyse_template(cand, bind, &w, &ctx, &mut l)) {
                n_acc += 1;
                accepted.push(a);
            }
        }
        ctx.set_info("template_links_accepted", json!(n_acc));
        ctx.merge(l);
    }
    ctx.set_info("accepted_policies", json!(accepted.len()));
    ctx.set_info("must_accept_policies", json!(cands.iter().filter(|c| c.must_accept).count()));
    for a in accepted.iter().step_by((accepted.len() / 6).max(1)) {
        ctx.sample(json!({"accepted": a.text, "impossible": a.impossible}));
    }
    // phase 2: every accepted policy on every conformant environment
    let exts = cedar_policy_core::extensions::Extensions::all_available();
    let done = AtomicU64::new(0);
    w.envs.par_iter().enumerate().for_each(|(ei, (req, store, creq, cents))| {
        let mut l = Local::default();
        let r: &ast::Request = creq.as_ref();
        let ev = cedar_policy_core::evaluator::Evaluator::new(r.clone(), cents.as_ref().as_ref(), exts);
        for a in &accepted {
            ctx.guard("C03 evaluate", || json!({"cand": serde_json::to_value(&a.cand).unwrap(), "env": ei}), || check_on_env(a, ei, req, store, &ev, &ctx, &mut l));
        }
        done.fetch_add(1, Ordering::Relaxed);
        ctx.merge(l);
    });
    let _ = BTreeMap::<u8, u8>::new();
    cross_namespace_actions(&ctx);
    acceptance_probes(&ctx);
    ctx.finish(
        "policies over the vocabulary of schema W: type-directed must-accept set (documented guard shapes), open guard shapes (guard x access x shape), all depth-1/2 operator applications over 41 typed atoms, other action scopes; every strictly accepted policy is evaluated on every conformant (request, store) of the small universe with a typed-AST walk; case = candidate policy, and (accepted policy, environment); all non-trivial",
        json!({"atoms": atoms().len(), "guards": guards().len(), "tier": tier.name()}),
        &["environments are used only if the library's own request/entity validation accepts them (conformant-by-construction ones must be)", "value-in-type oracle val_in_type; members of proper entity LUBs are not observable (strict mode has none)", "templates are not covered in this check"],
        true,
    )
}
