//! C20 entry points and downstream pipelines. Every call into cedar goes through `Run::call`
//! (catch_unwind + stage log); every Ok object continues down the pipeline; every Err / warning
//! is rendered with Display, Debug, miette's graphical handler and the FFI `DetailedError`
//! conversion.
#![allow(deprecated)]
use super::gen::*;
use cedar_policy::ffi;
use cedar_policy::proto::traits::Protobuf;
use cedar_policy::*;
use cedar_policy_formatter::{policies_str_to_pretty, Config};
use miette::Diagnostic;
use serde_json::{json, Value as J};
use std::collections::{BTreeMap, HashMap, HashSet};
use std::os::unix::fs::FileExt;
use std::panic::{catch_unwind, AssertUnwindSafe};
use std::str::FromStr;

// ---------------------------------------------------------------------------------------------
// runner
// ---------------------------------------------------------------------------------------------
#[derive(Clone, Debug)]
pub struct Panic {
    pub label: &'static str,
    pub msg: String,
    pub loc: String,
}

pub struct Run {
    pub calls: u64,
    /// per entry point: (ok, err)
    pub outcomes: BTreeMap<&'static str, (u64, u64)>,
    pub any_ok: bool,
    pub panics: Vec<Panic>,
    /// single-case mode: the label of every call is written here before the call
    pub stage_log: Option<std::fs::File>,
    pub stage_trace: Vec<&'static str>,
    pub trace: bool,
}

thread_local! {
    static LAST_PANIC_LOC: std::cell::RefCell<String> = const { std::cell::RefCell::new(String::new()) };
    static HANDLER: miette::GraphicalReportHandler = miette::GraphicalReportHandler::new();
}

pub fn install_panic_hook() {
    std::panic::set_hook(Box::new(|info| {
        let loc = info.location().map(|l| format!("{}:{}:{}", l.file(), l.line(), l.column())).unwrap_or_default();
        LAST_PANIC_LOC.with(|c| *c.borrow_mut() = loc);
    }));
}

impl Run {
    pub fn new() -> Run {
        Run { calls: 0, outcomes: BTreeMap::new(), any_ok: false, panics: vec![], stage_log: None, stage_trace: vec![], trace: false }
    }

    pub fn call<T>(&mut self, label: &'static str, f: impl FnOnce() -> T) -> Option<T> {
        self.calls += 1;
        if let Some(l) = &self.stage_log {
            let mut buf = [b' '; 160];
            let b = label.as_bytes();
            let n = b.len().min(159);
            buf[..n].copy_from_slice(&b[..n]);
            buf[159] = b'\n';
            let _ = l.write_at(&buf, 0);
        }
        if self.trace {
            self.stage_trace.push(label);
        }
        match catch_unwind(AssertUnwindSafe(f)) {
            Ok(v) => Some(v),
            Err(p) => {
                let msg = crate::harness::panic_msg(&p);
                let loc = LAST_PANIC_LOC.with(|c| c.borrow().clone());
                self.panics.push(Panic { label, msg, loc });
                None
            }
        }
    }
    pub fn ok(&mut self, label: &'static str) {
        self.outcomes.entry(label).or_insert((0, 0)).0 += 1;
        self.any_ok = true;
    }
    pub fn err(&mut self, label: &'static str) {
        self.outcomes.entry(label).or_insert((0, 0)).1 += 1;
    }
}

fn graphical(e: &dyn Diagnostic) -> usize {
    HANDLER.with(|h| {
        let mut s = String::new();
        let _ = h.render_report(&mut s, e);
        s.len()
    })
}

fn detailed<E: Diagnostic + ?Sized>(e: &E) -> usize {
    let d = ffi::DetailedError::from(e);
    d.message.len() + d.source_locations.len() + d.related.len()
}

/// render an error / warning that implements miette::Diagnostic
macro_rules! render {
    ($run:ident, $label:literal, $e:expr) => {{
        let e_ref = &$e;
        $run.call(concat!($label, " => Display"), || e_ref.to_string().len());
        $run.call(concat!($label, " => Debug"), || format!("{:?}", e_ref).len());
        $run.call(concat!($label, " => miette graphical"), || graphical(e_ref));
        $run.call(concat!($label, " => ffi::DetailedError"), || detailed(e_ref));
    }};
}

/// render an error that is only std::error::Error
macro_rules! render_plain {
    ($run:ident, $label:literal, $e:expr) => {{
        let e_ref = &$e;
        $run.call(concat!($label, " => Display"), || e_ref.to_string().len());
        $run.call(concat!($label, " => Debug"), || format!("{:?}", e_ref).len());
    }};
}

/// render a miette::Report
macro_rules! render_report {
    ($run:ident, $label:literal, $e:expr) => {{
        let e_ref: &miette::Report = &$e;
        $run.call(concat!($label, " => Display"), || e_ref.to_string().len());
        $run.call(concat!($label, " => Debug"), || format!("{:?}", e_ref).len());
        $run.call(concat!($label, " => miette graphical"), || graphical(e_ref.as_ref()));
        $run.call(concat!($label, " => ffi::DetailedError"), || {
            let d: &dyn Diagnostic = e_ref.as_ref();
            detailed(d)
        });
    }};
}

/// call an entry point returning Result<T, E: Diagnostic>
macro_rules! ep {
    ($run:ident, $label:literal, $call:expr, $ok:pat => $okb:expr) => {
        match $run.call($label, || $call) {
            Some(Ok($ok)) => {
                $run.ok($label);
                let _ = $okb;
            }
            Some(Err(e)) => {
                $run.err($label);
                render!($run, $label, e);
            }
            None => {}
        }
    };
}

/// call an entry point returning Result<T, E: Error> (no Diagnostic)
macro_rules! epp {
    ($run:ident, $label:literal, $call:expr, $ok:pat => $okb:expr) => {
        match $run.call($label, || $call) {
            Some(Ok($ok)) => {
                $run.ok($label);
                let _ = $okb;
            }
            Some(Err(e)) => {
                $run.err($label);
                render_plain!($run, $label, e);
            }
            None => {}
        }
    };
}

/// downstream call whose Err is a Diagnostic (not an entry point: not classified)
macro_rules! down {
    ($run:ident, $label:literal, $call:expr, $ok:pat => $okb:expr) => {
        match $run.call($label, || $call) {
            Some(Ok($ok)) => {
                let _ = $okb;
            }
            Some(Err(e)) => {
                render!($run, $label, e);
            }
            None => {}
        }
    };
}
macro_rules! downp {
    ($run:ident, $label:literal, $call:expr, $ok:pat => $okb:expr) => {
        match $run.call($label, || $call) {
            Some(Ok($ok)) => {
                let _ = $okb;
            }
            Some(Err(e)) => {
                render_plain!($run, $label, e);
            }
            None => {}
        }
    };
}

// ---------------------------------------------------------------------------------------------
// fixtures
// ---------------------------------------------------------------------------------------------
pub const SCHEMA_TEXT: &str = r#"entity User in [Group] = { age: Long, nick?: String, mgr?: User, "prénom"?: String } tags String;
entity Group in [Group];
entity Doc in [Group] = { owner: User, labels: Set<String>, meta: { pub: Bool, rev?: Long }, ip?: ipaddr } tags Long;
entity Color enum ["red", "green"];
namespace NS { entity Thing; }
action readers;
action view in [readers] appliesTo { principal: [User], resource: [Doc], context: { n: Long, who?: User } };
action edit appliesTo { principal: [User], resource: [Doc] };
action "afficher–tout" appliesTo { principal: [User], resource: [Doc], context: { "clé"?: Long } };
"#;

/// richer Cedar schema text used as a substitution seed
pub const SCHEMA_SEED_TEXT: &str = r#"@doc("ns")
namespace NS {
  type T = { a: Long, b?: Set<String> };
  entity Thing in [Thing] = { t: T, "k y"?: __cedar::ipaddr, "dé"?: Long } tags String;
  entity Color enum ["red", "green"];
  @a("b") action "do", view2 in [Action::"all"] appliesTo { principal: [Thing], resource: [Thing, Color], context: { n: Long, who?: Thing } };
  action all;
}
entity User in [Group] = { age: Long, mgr?: User };
entity Group;
type U = User;
action view appliesTo { principal: User, resource: [Group], context: { u: U, d: decimal } };
"#;

pub const ENTITIES_JSON: &str = r#"[
 {"uid":{"type":"User","id":"a"},"attrs":{"age":21,"nick":"al","mgr":{"__entity":{"type":"User","id":"b"}}},"parents":[{"type":"Group","id":"g"}],"tags":{"t1":"x"}},
 {"uid":{"type":"User","id":"b"},"attrs":{"age":40},"parents":[]},
 {"uid":{"type":"Group","id":"g"},"attrs":{},"parents":[{"type":"Group","id":"h"}]},
 {"uid":{"type":"Group","id":"h"},"attrs":{},"parents":[]},
 {"uid":{"type":"Doc","id":"d"},"attrs":{"owner":{"__entity":{"type":"User","id":"a"}},"labels":["x","y"],"meta":{"pub":true,"rev":3},"ip":{"__extn":{"fn":"ip","arg":"10.0.0.1"}}},"parents":[{"type":"Group","id":"h"}],"tags":{"n":1}}
]"#;

pub const ENTITY_JSON: &str = r#"{"uid":{"type":"Doc","id":"d"},"attrs":{"owner":{"__entity":{"type":"User","id":"a"}},"labels":["x","y"],"meta":{"pub":true,"rev":3},"ip":{"__extn":{"fn":"ip","arg":"10.0.0.1"}},"dec":{"__extn":{"fn":"decimal","arg":"1.5"}}},"parents":[{"type":"Group","id":"h"}],"tags":{"n":1}}"#;

pub const CONTEXT_JSON: &str = r#"{"n":1,"who":{"__entity":{"type":"User","id":"a"}}}"#;
pub const CONTEXT_SEED_JSON: &str = r#"{"n":1,"who":{"__entity":{"type":"User","id":"a"}},"s":[1,"x",{"a":true}],"ip":{"__extn":{"fn":"ip","arg":"::1"}},"r":{"k y":{"__extn":{"fn":"isInRange","args":[{"fn":"ip","arg":"10.0.0.1"},{"fn":"ip","arg":"10.0.0.0/8"}]}}}}"#;

pub const POLICIES_TEXT: &str = r#"@id("p0")
permit(principal in Group::"g", action in [Action::"view", Action::"edit"], resource is Doc in Group::"h")
when { principal.age >= 18 && resource.owner == principal || context.n < -1 * 2 + 3 }
unless { resource has meta.pub && resource.labels.contains("x") || principal.nick like "a*\*b" || ip("10.0.0.1").isInRange(ip("10.0.0.0/8")) };
// second
forbid(principal == User::"a", action, resource)
when { if context has who then context.who == principal else {a: [1, "s"], "b c": decimal("1.5")}.a.isEmpty() };
"#;

/// the policies of the policy-set seeds (JSON and protobuf); the template and a link are added
pub const SMALL_POLICIES_TEXT: &str = r#"@id("s0") permit(principal in Group::"g", action, resource) when { principal.age > 1 && resource.labels.contains("x") };
forbid(principal, action == Action::"edit", resource is Doc) unless { context has n && -context.n < 1 || ip("::1").isLoopback() };"#;

pub const SMALL_ENTITIES_JSON: &str = r#"[
 {"uid":{"type":"User","id":"a"},"attrs":{"age":21,"mgr":{"__entity":{"type":"User","id":"b"}}},"parents":[{"type":"Group","id":"g"}],"tags":{"t1":"x"}},
 {"uid":{"type":"Group","id":"g"},"attrs":{},"parents":[]},
 {"uid":{"type":"Doc","id":"d"},"attrs":{"owner":{"__entity":{"type":"User","id":"a"}},"labels":["x"],"ip":{"__extn":{"fn":"ip","arg":"10.0.0.1"}}},"parents":[{"type":"Group","id":"g"}],"tags":{"n":1}}
]"#;

pub const TEMPLATE_TEXT: &str = r#"@a("b") permit(principal == ?principal, action == Action::"view", resource in ?resource) when { resource.owner == principal && principal.hasTag("t1") };"#;

pub const FIXED_PSET_TEXT: &str = r#"@id("p0") permit(principal in Group::"g", action == Action::"view", resource) when { principal.age >= 18 && resource.owner == principal && context.n > 0 };
@id("p1") forbid(principal, action, resource) when { resource has ip && resource.ip.isLoopback() } unless { principal has nick && principal.nick like "a*" };
@id("p2") permit(principal, action, resource) when { context has k && context.k == 1 };
@id("p3") permit(principal, action == Action::"afficher-tout", resource) when { principal.prenom == "x" || resource.ownr == principal || principal is Usr };
@id("p4") forbid(principal, action == Action::"view", resource) when { context.cle > 0 && Colour::"red" == Color::"rouge" };
"#;

pub const EXPR_TEXT: &str = r#"if principal.age >= 18 && [1, -2].contains(context.n) then {a: "s\n", "b c": ip("::1")}.a like "s*" else User::"a" in [Group::"g"] || principal has mgr.age"#;

pub struct Fix {
    pub schema: Schema,
    pub frag: SchemaFragment,
    pub validator: Validator,
    pub entities: Entities,
    pub pset: PolicySet,
    pub reqs: Vec<Request>,
    pub partial_req: Request,
    pub ua: EntityUid,
    pub uz: EntityUid,
    pub gh: EntityUid,
    pub view: EntityUid,
    pub edit: EntityUid,
    pub dd: EntityUid,
    pub ctx: Context,
    pub authorizer: Authorizer,
    pub tpe_req: Option<PartialRequest>,
    pub tpe_entities: Option<PartialEntities>,
    pub cfg: Config,
    pub cfg_narrow: Config,
    pub schema_json: J,
}

fn uid(s: &str) -> Result<EntityUid, String> {
    EntityUid::from_str(s).map_err(|e| format!("fixture uid {s}: {e}"))
}

impl Fix {
    pub fn new() -> Result<Fix, String> {
        let (schema, _) = Schema::from_cedarschema_str(SCHEMA_TEXT).map_err(|e| format!("fixture schema: {e}"))?;
        let (frag, _) = SchemaFragment::from_cedarschema_str(SCHEMA_TEXT).map_err(|e| format!("fixture fragment: {e}"))?;
        let entities = Entities::from_json_str(ENTITIES_JSON, Some(&schema)).map_err(|e| format!("fixture entities: {e}"))?;
        let pset = PolicySet::from_str(FIXED_PSET_TEXT).map_err(|e| format!("fixture policies: {e}"))?;
        let (ua, uz, gh, view, edit, dd) = (uid("User::\"a\"")?, uid("User::\"z\"")?, uid("Group::\"h\"")?, uid("Action::\"view\"")?, uid("Action::\"edit\"")?, uid("Doc::\"d\"")?);
        let ctx = Context::from_json_str(CONTEXT_JSON, None).map_err(|e| format!("fixture context: {e}"))?;
        let r1 = Request::new(ua.clone(), view.clone(), dd.clone(), ctx.clone(), Some(&schema)).map_err(|e| format!("fixture request: {e}"))?;
        let r2 = Request::new(uz.clone(), edit.clone(), dd.clone(), Context::empty(), None).map_err(|e| format!("fixture request: {e}"))?;
        let partial_req = Request::builder().action(view.clone()).resource(dd.clone()).context(ctx.clone()).build();
        let tpe_req = PartialRequest::new(
            PartialEntityUid::from_concrete(ua.clone()),
            view.clone(),
            PartialEntityUid::new(EntityTypeName::from_str("Doc").map_err(|e| e.to_string())?, None),
            Some(ctx.clone()),
            &schema,
        )
        .ok();
        let tpe_entities = PartialEntities::from_concrete(entities.clone(), &schema).ok();
        let schema_json = frag.clone().to_json_value().map_err(|e| format!("fixture schema json: {e}"))?;
        Ok(Fix {
            validator: Validator::new(schema.clone()),
            schema,
            frag,
            entities,
            pset,
            reqs: vec![r1, r2],
            partial_req,
            ua,
            uz,
            gh,
            view,
            edit,
            dd,
            ctx,
            authorizer: Authorizer::new(),
            tpe_req,
            tpe_entities,
            cfg: Config::default(),
            cfg_narrow: Config { line_width: 12, indent_width: 5 },
            schema_json,
        })
    }
}

// ---------------------------------------------------------------------------------------------
// seed documents (built once by the parent, shipped to the children through a file so that all
// processes sweep byte-identical documents)
// ---------------------------------------------------------------------------------------------
pub struct Seed {
    pub name: String,
    pub bytes: Vec<u8>,
    pub route: u64,
    /// "text" | "json" | "proto"
    pub kind: String,
}

pub fn seeds_to_json(seeds: &[Seed]) -> J {
    J::Array(seeds.iter().map(|s| json!({"name": s.name, "hex": hex(&s.bytes), "route": s.route, "kind": s.kind})).collect())
}

pub fn seeds_from_json(j: &J) -> Option<Vec<Seed>> {
    let mut v = vec![];
    for s in j.as_array()? {
        v.push(Seed { name: s["name"].as_str()?.to_string(), bytes: unhex(s["hex"].as_str()?)?, route: s["route"].as_u64()?, kind: s["kind"].as_str()?.to_string() });
    }
    Some(v)
}

pub fn hex(b: &[u8]) -> String {
    let mut s = String::with_capacity(b.len() * 2);
    for x in b {
        s.push_str(&format!("{x:02x}"));
    }
    s
}

pub fn unhex(s: &str) -> Option<Vec<u8>> {
    if s.len() % 2 != 0 {
        return None;
    }
    (0..s.len() / 2).map(|i| u8::from_str_radix(s.get(2 * i..2 * i + 2)?, 16).ok()).collect()
}

/// Build all seed documents; every seed must be accepted by its home entry point (checked by the
/// caller through `check_seeds`).
pub fn build_seeds() -> Result<Vec<Seed>, String> {
    let fx = Fix::new()?;
    let mut v: Vec<Seed> = vec![];
    let mut text = |name: &str, s: &str, route: u64| v.push(Seed { name: name.into(), bytes: s.as_bytes().to_vec(), route, kind: "text".into() });
    text("policy-text", POLICIES_TEXT, R_POLICY);
    text("template-text", TEMPLATE_TEXT, R_POLICY);
    // names that ALMOST match the (partly non-ASCII) names of the fixture schema: exercises the
    // "did you mean" machinery of validation errors (after seed C20-a2)
    text("near-miss-policy-text", FIXED_PSET_TEXT, R_POLICY);
    text("expr-text", EXPR_TEXT, R_EXPR);
    text("cedarschema-text", SCHEMA_SEED_TEXT, R_CSCHEMA);
    text("euid-text", "NS::Thing::\"a\\n\\u{e9}\"", R_NAME | R_EXPR);

    let e = |what: &str, m: String| format!("seed {what}: {m}");
    // JSON seeds derived through the implementation's own converters
    let pols = PolicySet::from_str(POLICIES_TEXT).map_err(|x| e("policies", x.to_string()))?;
    let p0 = pols.policies().next().ok_or("no policy")?.clone();
    let est_policy = p0.to_json().map_err(|x| e("est", x.to_string()))?;
    let tmpl = Template::parse(Some(PolicyId::new("t0")), TEMPLATE_TEXT).map_err(|x| e("template", x.to_string()))?;
    let est_template = tmpl.to_json().map_err(|x| e("est template", x.to_string()))?;
    let mut full = PolicySet::from_str(SMALL_POLICIES_TEXT).map_err(|x| e("policies", x.to_string()))?;
    full.add_template(tmpl.clone()).map_err(|x| e("add_template", x.to_string()))?;
    let mut vals = HashMap::new();
    vals.insert(SlotId::principal(), fx.ua.clone());
    vals.insert(SlotId::resource(), fx.gh.clone());
    full.link(PolicyId::new("t0"), PolicyId::new("l0"), vals).map_err(|x| e("link", x.to_string()))?;
    let pset_json = full.clone().to_json().map_err(|x| e("pset json", x.to_string()))?;
    let (seed_frag, _) = SchemaFragment::from_cedarschema_str(SCHEMA_SEED_TEXT).map_err(|x| e("schema seed", x.to_string()))?;
    let schema_json = seed_frag.clone().to_json_value().map_err(|x| e("schema json", x.to_string()))?;
    let small_schema_json = fx.frag.clone().to_json_value().map_err(|x| e("schema json", x.to_string()))?;
    let entities_json: J = serde_json::from_str(ENTITIES_JSON).map_err(|x| e("entities", x.to_string()))?;
    let entity_json: J = serde_json::from_str(ENTITY_JSON).map_err(|x| e("entity", x.to_string()))?;
    let context_json: J = serde_json::from_str(CONTEXT_SEED_JSON).map_err(|x| e("context", x.to_string()))?;
    let small_entities = json!([entities_json[0].clone(), entities_json[2].clone(), entities_json[3].clone(), entities_json[4].clone(), entities_json[1].clone()]);
    let short_policy = "permit(principal in Group::\"g\", action, resource) when { principal.age > 1 };";
    let short_est = Policy::parse(None, "forbid(principal, action, resource) unless { context.n == 1 };").map_err(|x| e("short", x.to_string()))?.to_json().map_err(|x| e("short", x.to_string()))?;
    let ffi_pset = json!({
        "staticPolicies": {"p0": short_policy, "p1": short_est},
        "templates": {"t0": TEMPLATE_TEXT},
        "templateLinks": [{"templateId": "t0", "newId": "l0", "values": {"?principal": {"type": "User", "id": "a"}, "?resource": {"type": "Group", "id": "h"}}}]
    });
    let pj = json!({"type": "User", "id": "a"});
    let aj = json!({"type": "Action", "id": "view"});
    let rj = json!({"type": "Doc", "id": "d"});
    let cj: J = serde_json::from_str(CONTEXT_JSON).map_err(|x| e("context", x.to_string()))?;
    let mut js = |name: &str, j: &J, route: u64| v.push(Seed { name: name.into(), bytes: serde_json::to_vec(j).unwrap_or_default(), route, kind: "json".into() });
    js("est-policy", &est_policy, R_J_POLICY);
    js("est-template", &est_template, R_J_POLICY);
    js("policy-set-json", &pset_json, R_J_PSET);
    js("schema-json", &schema_json, R_J_SCHEMA);
    js("entities-json", &entities_json, R_J_ENTITIES);
    js("entity-json", &entity_json, R_J_ENTITY);
    js("context-json", &context_json, R_J_CONTEXT);
    js("context-json-conforming", &cj, R_J_CONTEXT);
    js("euid-json", &json!({"__entity": {"type": "NS::Thing", "id": "a"}}), R_J_EUID);
    js("ffi-policy-set", &ffi_pset, R_J_PSET);
    js(
        "ffi-authorization-call",
        &json!({"principal": pj, "action": aj, "resource": rj, "context": cj, "schema": SCHEMA_TEXT, "validateRequest": true, "policies": ffi_pset, "entities": small_entities}),
        R_J_AUTH,
    );
    js(
        "ffi-stateful-authorization-call",
        &json!({"principal": pj, "action": aj, "resource": rj, "context": cj, "preparsedSchemaName": "fixed", "validateRequest": true, "preparsedPolicySetId": "fixed", "entities": small_entities}),
        R_J_AUTH,
    );
    js("ffi-validation-call", &json!({"validationSettings": {"mode": "strict"}, "schema": small_schema_json, "policies": ffi_pset}), R_J_VALIDATE);
    js("ffi-formatting-call", &json!({"policyText": POLICIES_TEXT, "lineWidth": 40, "indentWidth": 2}), R_J_FORMAT);
    js("ffi-entities-parsing-call", &json!({"entities": small_entities, "schema": small_schema_json}), R_J_CHECK);
    js("ffi-context-parsing-call", &json!({"context": cj, "schema": SCHEMA_TEXT, "action": aj}), R_J_CHECK);
    js("ffi-scope-variables-call", &json!({"principal": pj, "action": aj, "resource": rj, "schema": SCHEMA_TEXT}), R_J_CHECK);

    // protobuf seeds
    let expr = Expression::from_str(EXPR_TEXT).map_err(|x| e("expr", x.to_string()))?;
    let (seed_schema, _) = Schema::from_cedarschema_str(SCHEMA_SEED_TEXT).map_err(|x| e("schema seed", x.to_string()))?;
    let ent = Entity::from_json_str(ENTITY_JSON, None).map_err(|x| e("entity", x.to_string()))?;
    let mut pb = |name: &str, r: Result<Vec<u8>, cedar_policy::proto::traits::EncodeError>| -> Result<(), String> {
        let bytes = r.map_err(|x| format!("seed {name}: {x}"))?;
        v.push(Seed { name: name.into(), bytes, route: R_PROTO, kind: "proto".into() });
        Ok(())
    };
    pb("proto-policy-set", full.encode())?;
    pb("proto-template", tmpl.encode())?;
    pb("proto-expression", expr.encode())?;
    pb("proto-schema", seed_schema.encode())?;
    let small_ents = Entities::from_json_str(SMALL_ENTITIES_JSON, None).map_err(|x| e("small entities", x.to_string()))?;
    pb("proto-entities", small_ents.encode())?;
    pb("proto-entity", ent.encode())?;
    pb("proto-request", fx.reqs[0].encode())?;
    pb("proto-entity-type-name", EntityTypeName::from_str("NS::Thing").map_err(|x| x.to_string())?.encode())?;
    Ok(v)
}

// ---------------------------------------------------------------------------------------------
// dispatcher
// ---------------------------------------------------------------------------------------------
pub fn run_case(run: &mut Run, fx: &Fix, bytes: &[u8], route: u64) {
    let s = String::from_utf8_lossy(bytes);
    let s: &str = &s;
    if route & R_POLICY != 0 {
        ep_policy_text(run, fx, s, route & R_POLICY_FFI != 0);
    }
    if route & R_EXPR != 0 {
        ep_expr_text(run, fx, s);
    }
    if route & R_NAME != 0 {
        ep_name_text(run, fx, s);
    }
    if route & (R_NAME | R_EXT) != 0 {
        ep_ext_text(run, fx, s);
    }
    if route & R_CSCHEMA != 0 {
        ep_cschema_text(run, fx, s, route & R_CSCHEMA_FFI != 0);
    }
    if route & R_JSON != 0 {
        ep_json(run, fx, s, route);
    }
    if route & R_PROTO != 0 {
        ep_proto(run, fx, bytes);
    }
    if route & R_FILE != 0 {
        ep_file(run, fx, bytes);
    }
}

// ---------------------------------------------------------------------------------------------
// Cedar policy text
// ---------------------------------------------------------------------------------------------
fn ep_policy_text(run: &mut Run, fx: &Fix, s: &str, full: bool) {
    // the policy-set pipeline (print, convert, link, validate, authorize, format, protobuf) runs
    // on the parsed set; the single policy / template objects get their own conversions
    let mut set_ok = false;
    ep!(run, "PolicySet::from_str", PolicySet::from_str(s), ps => { set_ok = true; pipe_pset(run, fx, &ps, true) });
    ep!(run, "Policy::parse", Policy::parse(Some(PolicyId::new("pid")), s), p => pipe_policy(run, fx, &p, false));
    ep!(run, "Template::parse", Template::parse(Some(PolicyId::new("tid")), s), t => pipe_template(run, fx, &t, false));
    // the formatter parses with the same parser first: on unparsable text it is only run in the
    // `full` route
    if set_ok || full {
        format_text(run, fx, s);
    }
    if !full {
        return;
    }
    ep!(run, "Policy::from_str", Policy::from_str(s), p => pipe_policy(run, fx, &p, true));
    ep!(run, "Template::from_str", Template::from_str(s), t => pipe_template(run, fx, &t, true));
    // FFI wrappers taking policy text
    run.call("ffi::policy_set_text_to_parts", || format!("{:?}", ffi::policy_set_text_to_parts(s)).len());
    run.call("ffi::policy_to_json(text)", || format!("{:?}", ffi::policy_to_json(ffi::Policy::Cedar(s.to_string()))).len());
    run.call("ffi::policy_to_text(text)", || format!("{:?}", ffi::policy_to_text(ffi::Policy::Cedar(s.to_string()))).len());
    run.call("ffi::template_to_json(text)", || format!("{:?}", ffi::template_to_json(ffi::Template::Cedar(s.to_string()))).len());
    run.call("ffi::template_to_text(text)", || format!("{:?}", ffi::template_to_text(ffi::Template::Cedar(s.to_string()))).len());
    epp!(run, "ffi::check_parse_policy_set_json(text)", ffi::check_parse_policy_set_json(json!({"staticPolicies": s, "templates": {"t0": s}})), v => v.is_object());
    epp!(run, "ffi::format_json(text)", ffi::format_json(json!({"policyText": s, "lineWidth": 40, "indentWidth": 3})), v => v.is_object());
    epp!(run, "ffi::is_authorized_json(text)", ffi::is_authorized_json(json!({
        "principal": {"type": "User", "id": "a"}, "action": {"type": "Action", "id": "view"}, "resource": {"type": "Doc", "id": "d"},
        "context": {"n": 1}, "policies": {"staticPolicies": s}, "entities": []
    })), v => v.is_object());
    epp!(run, "ffi::validate_json(text)", ffi::validate_json(json!({"schema": fx.schema_json.clone(), "policies": {"staticPolicies": {"p": s}, "templates": {"t": s}}})), v => v.is_object());
}

fn format_text(run: &mut Run, fx: &Fix, s: &str) {
    match run.call("policies_str_to_pretty", || policies_str_to_pretty(s, &fx.cfg)) {
        Some(Ok(_out)) => {
            run.ok("policies_str_to_pretty");
            match run.call("policies_str_to_pretty(narrow)", || policies_str_to_pretty(s, &fx.cfg_narrow)) {
                Some(Err(e)) => render_report!(run, "policies_str_to_pretty(narrow)", e),
                _ => {}
            }
        }
        Some(Err(e)) => {
            run.err("policies_str_to_pretty");
            render_report!(run, "policies_str_to_pretty", e);
        }
        None => {}
    }
}

fn link_vals(fx: &Fix, slots: &[SlotId]) -> HashMap<SlotId, EntityUid> {
    let mut m = HashMap::new();
    for s in slots {
        if *s == SlotId::principal() {
            m.insert(s.clone(), fx.ua.clone());
        } else {
            m.insert(s.clone(), fx.gh.clone());
        }
    }
    m
}

fn render_validation(run: &mut Run, r: &ValidationResult) {
    run.call("ValidationResult => Display", || r.to_string().len());
    run.call("ValidationResult => Debug", || format!("{r:?}").len());
    run.call("ValidationResult => miette graphical", || graphical(r));
    for e in r.validation_errors() {
        render!(run, "ValidationError", *e);
        run.call("ValidationError::policy_id", || e.policy_id().to_string().len());
    }
    for w in r.validation_warnings() {
        render!(run, "ValidationWarning", *w);
    }
}

/// the downstream pipeline of a policy set
pub fn pipe_pset(run: &mut Run, fx: &Fix, ps: &PolicySet, deep: bool) {
    let text = run.call("PolicySet::to_string", || ps.to_string());
    run.call("PolicySet::to_cedar", || ps.to_cedar().map(|s| s.len()));
    down!(run, "PolicySet::to_json", ps.clone().to_json(), v => {
        down!(run, "PolicySet::from_json_value(to_json)", PolicySet::from_json_value(v), p2 => { run.call("PolicySet::to_string(from to_json)", || p2.to_string().len()); });
    });
    down!(run, "PolicySet::to_pst", ps.to_pst(), p => {
        run.call("pst::PolicySet => Debug", || format!("{p:?}").len());
        down!(run, "PolicySet::from_pst", PolicySet::from_pst(p), p2 => { run.call("PolicySet::to_string(from_pst)", || p2.to_string().len()); });
    });
    run.call("PolicySet accessors", || {
        let mut n = ps.num_of_policies() + ps.num_of_templates() + ps.is_empty() as usize;
        for p in ps.policies() {
            n += ps.policy(p.id()).is_some() as usize + ps.annotation(p.id(), "id").map_or(0, |s| s.len());
        }
        for t in ps.templates() {
            n += ps.template(t.id()).is_some() as usize + ps.template_annotation(t.id(), "id").map_or(0, |s| s.len());
        }
        n + ps.unknown_entities().len()
    });
    if deep {
        let pols: Vec<Policy> = ps.policies().cloned().collect();
        for p in pols.iter().take(4) {
            pipe_policy(run, fx, p, false);
        }
        let tmpls: Vec<Template> = ps.templates().cloned().collect();
        for t in tmpls.iter().take(4) {
            pipe_template(run, fx, t, false);
        }
        // link every template with well-formed values, and once with missing values
        if !tmpls.is_empty() {
            let mut linked = ps.clone();
            for (i, t) in tmpls.iter().take(4).enumerate() {
                let slots: Vec<SlotId> = t.slots().cloned().collect();
                let vals = link_vals(fx, &slots);
                let new_id = PolicyId::new(format!("c20-link-{i}"));
                down!(run, "PolicySet::link", linked.link(t.id().clone(), new_id.clone(), vals), () => ());
                down!(run, "PolicySet::link(no values)", linked.link(t.id().clone(), PolicyId::new(format!("c20-bad-{i}")), HashMap::new()), () => ());
                run.call("PolicySet::get_linked_policies", || linked.get_linked_policies(t.id().clone()).map(|i| i.count()).unwrap_or(0));
            }
            pipe_pset(run, fx, &linked, false);
            for i in 0..tmpls.len().min(4) {
                down!(run, "PolicySet::unlink", linked.unlink(PolicyId::new(format!("c20-link-{i}"))), p => { run.call("Policy::to_string(unlinked)", || p.to_string().len()); });
            }
            for t in tmpls.iter().take(4) {
                down!(run, "PolicySet::remove_template", linked.remove_template(t.id().clone()), t2 => { run.call("Template::to_string(removed)", || t2.to_string().len()); });
            }
        }
    }
    // validation: strict, permissive, partial, with levels
    for (mode, label) in [(ValidationMode::Strict, "Validator::validate(strict)"), (ValidationMode::Permissive, "Validator::validate(permissive)"), (ValidationMode::Partial, "Validator::validate(partial)")] {
        if let Some(r) = run.call(label, || fx.validator.validate(ps, mode)) {
            render_validation(run, &r);
        }
    }
    for (mode, lvl, label) in [(ValidationMode::Strict, 0u32, "Validator::validate_with_level(strict,0)"), (ValidationMode::Permissive, 1, "Validator::validate_with_level(permissive,1)")] {
        if let Some(r) = run.call(label, || fx.validator.validate_with_level(ps, mode, lvl)) {
            render_validation(run, &r);
        }
    }
    // authorization on fixed requests
    for req in &fx.reqs {
        if let Some(resp) = run.call("Authorizer::is_authorized", || fx.authorizer.is_authorized(req, ps, &fx.entities)) {
            run.call("Response => Debug", || format!("{:?} {:?}", resp.decision(), resp.diagnostics().reason().count()).len());
            for e in resp.diagnostics().errors() {
                render!(run, "AuthorizationError", *e);
            }
        }
    }
    if let Some(presp) = run.call("Authorizer::is_authorized_partial", || fx.authorizer.is_authorized_partial(&fx.partial_req, ps, &fx.entities)) {
        run.call("PartialResponse accessors", || {
            let mut n = presp.decision().is_some() as usize;
            n += presp.all_residuals().map(|p| p.to_string().len()).sum::<usize>();
            n += presp.nontrivial_residuals().count() + presp.definitely_satisfied().count() + presp.definitely_errored().count();
            n += presp.may_be_determining().count() + presp.must_be_determining().count() + presp.unknown_entities().len();
            n
        });
        let bind = RestrictedExpression::new_entity_uid(fx.ua.clone());
        down!(run, "PartialResponse::reauthorize_with_bindings", presp.reauthorize_with_bindings([("principal", &bind)], &fx.authorizer, &fx.entities), r2 => { run.call("PartialResponse::decision(reauthorized)", || r2.decision().is_some()); });
        run.call("PartialResponse::concretize", || format!("{:?}", presp.clone().concretize().decision()).len());
    }
    // type-aware partial evaluation and batched evaluation
    if let (Some(preq), Some(pents)) = (&fx.tpe_req, &fx.tpe_entities) {
        match run.call("PolicySet::tpe", || {
            ps.tpe(preq, pents, &fx.schema).map(|r| {
                let mut n = r.decision().is_some() as usize;
                n += r.residual_policies().map(|p| p.to_string().len()).sum::<usize>();
                n += r.policy_set().to_string().len();
                n
            })
        }) {
            Some(Err(e)) => render!(run, "PolicySet::tpe", e),
            _ => {}
        }
    }
    {
        let mut loader = TestEntityLoader::new(&fx.entities);
        downp!(run, "PolicySet::is_authorized_batched", ps.is_authorized_batched(&fx.reqs[0], &fx.schema, &mut loader, 4), d => { let _ = d; });
    }
    down!(run, "compute_entity_manifest", compute_entity_manifest(&fx.validator, ps), m => { run.call("EntityManifest => Debug", || format!("{m:?}").len()); });
    // formatting of the printed form
    if let (Some(t), true) = (&text, deep) {
        match run.call("policies_str_to_pretty(PolicySet::to_string)", || policies_str_to_pretty(t, &fx.cfg)) {
            Some(Err(e)) => render_report!(run, "policies_str_to_pretty(PolicySet::to_string)", e),
            _ => {}
        }
        down!(run, "PolicySet::from_str(PolicySet::to_string)", PolicySet::from_str(t), p2 => { let _ = p2; });
    }
    // protobuf
    downp!(run, "PolicySet::encode", ps.encode(), bytes => {
        downp!(run, "PolicySet::decode(encode)", <PolicySet as Protobuf>::decode(&bytes[..]), p2 => { run.call("PolicySet::to_string(decoded)", || p2.to_string().len()); });
    });
    // merge into a fixed set
    let mut merged = fx.pset.clone();
    down!(run, "PolicySet::merge(rename)", merged.merge(ps, true), m => { let _ = m; });
    let mut merged2 = fx.pset.clone();
    down!(run, "PolicySet::merge", merged2.merge(ps, false), m => { let _ = m; });
}

fn pipe_policy(run: &mut Run, fx: &Fix, p: &Policy, as_set: bool) {
    run.call("Policy::to_string", || p.to_string().len());
    run.call("Policy::to_cedar", || p.to_cedar().map(|s| s.len()));
    down!(run, "Policy::to_json", p.to_json(), v => {
        down!(run, "Policy::from_json(to_json)", Policy::from_json(None, v), p2 => { run.call("Policy::to_string(from to_json)", || p2.to_string().len()); });
    });
    down!(run, "Policy::to_pst", p.to_pst(), q => {
        run.call("pst::Policy => Debug", || format!("{q:?}").len());
        down!(run, "Policy::from_pst", Policy::from_pst(q), p2 => { run.call("Policy::to_string(from_pst)", || p2.to_string().len()); });
    });
    run.call("Policy accessors", || {
        let mut n = p.annotations().map(|(k, v)| k.len() + v.len()).sum::<usize>();
        n += format!("{:?} {:?} {:?} {:?}", p.principal_constraint(), p.action_constraint(), p.resource_constraint(), p.effect()).len();
        n += p.entity_literals().len() + p.is_static() as usize + p.has_non_scope_constraint() as usize;
        n += p.template_id().is_some() as usize + p.template_links().map_or(0, |m| m.len());
        n += p.unknown_entities().len() + p.annotation("id").map_or(0, |s| s.len());
        n += p.get_valid_request_envs(&fx.schema).count();
        n += p.new_id(PolicyId::new("other")).id().to_string().len();
        n
    });
    down!(run, "Policy::sub_entity_literals", p.sub_entity_literals(BTreeMap::from([(fx.ua.clone(), fx.uz.clone())])), p2 => { run.call("Policy::to_string(substituted)", || p2.to_string().len()); });
    if as_set {
        down!(run, "PolicySet::from_policies", PolicySet::from_policies([p.clone()]), ps => pipe_pset(run, fx, &ps, false));
    }
}

fn pipe_template(run: &mut Run, fx: &Fix, t: &Template, as_set: bool) {
    run.call("Template::to_string", || t.to_string().len());
    run.call("Template::to_cedar", || t.to_cedar().len());
    down!(run, "Template::to_json", t.to_json(), v => {
        down!(run, "Template::from_json(to_json)", Template::from_json(None, v), t2 => { run.call("Template::to_string(from to_json)", || t2.to_string().len()); });
    });
    down!(run, "Template::to_pst", t.to_pst(), q => {
        run.call("pst::Template => Debug", || format!("{q:?}").len());
        down!(run, "Template::from_pst", Template::from_pst(q), t2 => { run.call("Template::to_string(from_pst)", || t2.to_string().len()); });
    });
    run.call("Template accessors", || {
        let mut n = t.annotations().map(|(k, v)| k.len() + v.len()).sum::<usize>();
        n += format!("{:?} {:?} {:?} {:?}", t.principal_constraint(), t.action_constraint(), t.resource_constraint(), t.effect()).len();
        n += t.slots().count() + t.has_non_scope_constraint() as usize + t.annotation("id").map_or(0, |s| s.len());
        n += t.get_valid_request_envs(&fx.schema).count();
        n += t.new_id(PolicyId::new("other")).id().to_string().len();
        n
    });
    downp!(run, "Template::encode", t.encode(), bytes => {
        downp!(run, "Template::decode(encode)", <Template as Protobuf>::decode(&bytes[..]), t2 => { run.call("Template::to_string(decoded)", || t2.to_string().len()); });
    });
    if as_set {
        let mut ps = PolicySet::new();
        down!(run, "PolicySet::add_template", ps.add_template(t.clone()), () => pipe_pset(run, fx, &ps, true));
    }
}

// ---------------------------------------------------------------------------------------------
// expressions, names
// ---------------------------------------------------------------------------------------------
fn pipe_eval_result(run: &mut Run, v: &EvalResult) {
    run.call("EvalResult => Display", || v.to_string().len());
    run.call("EvalResult => Debug", || format!("{v:?}").len());
    run.call("Expression::from(EvalResult)", || Expression::from(v.clone()).to_string().len());
}

fn pipe_expr(run: &mut Run, fx: &Fix, e: &Expression) {
    let text = run.call("Expression::to_string", || e.to_string());
    run.call("Expression => Debug", || format!("{e:?}").len());
    for req in &fx.reqs {
        down!(run, "eval_expression", eval_expression(req, &fx.entities, e), v => pipe_eval_result(run, &v));
    }
    if let Some(t) = text {
        down!(run, "Expression::from_str(to_string)", Expression::from_str(&t), e2 => { let _ = e2; });
        // as a policy condition: validation and authorization of the printed form
        let pol = format!("permit(principal, action, resource) when {{ {t} }};");
        down!(run, "PolicySet::from_str(when { Expression::to_string })", PolicySet::from_str(&pol), ps => pipe_pset(run, fx, &ps, false));
    }
    downp!(run, "Expression::encode", e.encode(), bytes => {
        downp!(run, "Expression::decode(encode)", <Expression as Protobuf>::decode(&bytes[..]), e2 => { run.call("Expression::to_string(decoded)", || e2.to_string().len()); });
    });
}

fn pipe_rexpr(run: &mut Run, fx: &Fix, r: &RestrictedExpression) {
    run.call("RestrictedExpression => Debug", || format!("{r:?}").len());
    down!(run, "Context::from_pairs", Context::from_pairs([("k".to_string(), r.clone())]), c => pipe_context(run, fx, &c));
    down!(run, "Entity::new", Entity::new(fx.uz.clone(), HashMap::from([("k".to_string(), r.clone())]), HashSet::from([fx.gh.clone()])), ent => pipe_entity(run, fx, &ent));
    down!(run, "Entity::new_with_tags", Entity::new_with_tags(fx.uz.clone(), [("k".to_string(), r.clone())], [fx.gh.clone()], [("t".to_string(), r.clone())]), ent => { let _ = ent; });
}

fn ep_expr_text(run: &mut Run, fx: &Fix, s: &str) {
    ep!(run, "Expression::from_str", Expression::from_str(s), e => pipe_expr(run, fx, &e));
    ep!(run, "RestrictedExpression::from_str", RestrictedExpression::from_str(s), r => pipe_rexpr(run, fx, &r));
}

fn pipe_euid(run: &mut Run, u: &EntityUid) {
    run.call("EntityUid accessors", || u.to_string().len() + format!("{u:?}").len() + u.type_name().to_string().len() + u.id().escaped().len() + u.id().unescaped().len());
    down!(run, "EntityUid::to_json_value", u.to_json_value(), v => {
        down!(run, "EntityUid::from_json(to_json_value)", EntityUid::from_json(v), u2 => { let _ = u2; });
    });
}

fn pipe_type_name(run: &mut Run, t: &EntityTypeName) {
    run.call("EntityTypeName accessors", || t.to_string().len() + t.basename().len() + t.namespace().len() + t.namespace_components().count());
    downp!(run, "EntityTypeName::encode", t.encode(), bytes => {
        downp!(run, "EntityTypeName::decode(encode)", <EntityTypeName as Protobuf>::decode(&bytes[..]), t2 => { let _ = t2; });
    });
}

fn ep_name_text(run: &mut Run, _fx: &Fix, s: &str) {
    ep!(run, "EntityUid::from_str", EntityUid::from_str(s), u => pipe_euid(run, &u));
    ep!(run, "EntityTypeName::from_str", EntityTypeName::from_str(s), t => {
        pipe_type_name(run, &t);
        run.call("EntityUid::from_type_name_and_id", || EntityUid::from_type_name_and_id(t.clone(), EntityId::new(s)).to_string().len());
    });
    ep!(run, "EntityNamespace::from_str", EntityNamespace::from_str(s), n => {
        run.call("EntityNamespace::to_string", || n.to_string().len());
        downp!(run, "EntityNamespace::encode", n.encode(), bytes => {
            downp!(run, "EntityNamespace::decode(encode)", <EntityNamespace as Protobuf>::decode(&bytes[..]), n2 => { let _ = n2; });
        });
    });
    run.call("EntityId::from_str", || EntityId::from_str(s).map(|i| i.escaped().len() + i.unescaped().len()).unwrap_or(0));
    run.call("PolicyId::from_str", || PolicyId::from_str(s).map(|i| i.to_string().len()).unwrap_or(0));
}

fn ep_ext_text(run: &mut Run, fx: &Fix, s: &str) {
    // extension constructors from arbitrary strings (evaluated through Context / eval_expression)
    for (i, r) in [RestrictedExpression::new_ip(s), RestrictedExpression::new_decimal(s), RestrictedExpression::new_datetime(s), RestrictedExpression::new_duration(s), RestrictedExpression::new_string(s.to_string())].into_iter().enumerate() {
        match i {
            0 => ep!(run, "Context::from_pairs(new_ip)", Context::from_pairs([("k".to_string(), r)]), c => pipe_context(run, fx, &c)),
            1 => ep!(run, "Context::from_pairs(new_decimal)", Context::from_pairs([("k".to_string(), r)]), c => pipe_context(run, fx, &c)),
            2 => ep!(run, "Context::from_pairs(new_datetime)", Context::from_pairs([("k".to_string(), r)]), c => pipe_context(run, fx, &c)),
            3 => ep!(run, "Context::from_pairs(new_duration)", Context::from_pairs([("k".to_string(), r)]), c => pipe_context(run, fx, &c)),
            _ => ep!(run, "Context::from_pairs(new_string)", Context::from_pairs([("k".to_string(), r)]), c => pipe_context(run, fx, &c)),
        }
    }
    for e in [Expression::new_ip(s), Expression::new_decimal(s), Expression::new_datetime(s), Expression::new_duration(s)] {
        run.call("Expression::to_string(ext constructor)", || e.to_string().len());
        down!(run, "eval_expression(ext constructor)", eval_expression(&fx.reqs[0], &fx.entities, &e), v => pipe_eval_result(run, &v));
    }
}

// ---------------------------------------------------------------------------------------------
// schemas
// ---------------------------------------------------------------------------------------------
fn render_schema_warnings(run: &mut Run, ws: Vec<SchemaWarning>) {
    for w in ws {
        render!(run, "SchemaWarning", w);
    }
}

pub fn pipe_schema(run: &mut Run, fx: &Fix, schema: &Schema) {
    run.call("Schema accessors", || {
        let mut n = schema.principals().count() + schema.resources().count() + schema.entity_types().count() + schema.action_groups().count();
        let actions: Vec<EntityUid> = schema.actions().cloned().collect();
        for a in actions.iter().take(8) {
            n += schema.principals_for_action(a).map_or(0, |i| i.count()) + schema.resources_for_action(a).map_or(0, |i| i.count());
            n += schema.ancestors(a.type_name()).map_or(0, |i| i.count());
        }
        n += schema.request_envs().take(64).map(|e| format!("{e:?}").len()).sum::<usize>();
        n += format!("{schema:?}").len();
        n
    });
    down!(run, "Schema::action_entities", schema.action_entities(), es => {
        down!(run, "Entities::to_json_value(action entities)", es.to_json_value(), v => { let _ = v; });
    });
    let v = run.call("Validator::new", || Validator::new(schema.clone()));
    if let Some(v) = v {
        for (mode, label) in [(ValidationMode::Strict, "Validator(schema)::validate(strict)"), (ValidationMode::Permissive, "Validator(schema)::validate(permissive)")] {
            if let Some(r) = run.call(label, || v.validate(&fx.pset, mode)) {
                render_validation(run, &r);
            }
        }
        if let Some(r) = run.call("Validator(schema)::validate_with_level(strict,1)", || v.validate_with_level(&fx.pset, ValidationMode::Strict, 1)) {
            render_validation(run, &r);
        }
    }
    down!(run, "Entities::from_json_str(fixed, schema)", Entities::from_json_str(ENTITIES_JSON, Some(schema)), es => { let _ = es; });
    down!(run, "Context::from_json_str(fixed, schema)", Context::from_json_str(CONTEXT_JSON, Some((schema, &fx.view))), c => { let _ = c; });
    down!(run, "Request::new(fixed, schema)", Request::new(fx.ua.clone(), fx.view.clone(), fx.dd.clone(), fx.ctx.clone(), Some(schema)), r => { let _ = r; });
    down!(run, "validate_scope_variables", validate_scope_variables(&fx.ua, &fx.view, &fx.dd, schema), () => ());
    downp!(run, "Schema::encode", schema.encode(), bytes => {
        downp!(run, "Schema::decode(encode)", <Schema as Protobuf>::decode(&bytes[..]), s2 => { run.call("Schema::request_envs(decoded)", || s2.request_envs().take(64).count()); });
    });
}

pub fn pipe_fragment(run: &mut Run, fx: &Fix, frag: &SchemaFragment) {
    down!(run, "SchemaFragment::to_cedarschema", frag.to_cedarschema(), text => {
        down!(run, "SchemaFragment::from_cedarschema_str(to_cedarschema)", SchemaFragment::from_cedarschema_str(&text).map(|(f, w)| (f, w.collect::<Vec<_>>())), (f2, ws) => { let _ = f2; render_schema_warnings(run, ws); });
    });
    down!(run, "SchemaFragment::to_json_string", frag.to_json_string(), text => {
        down!(run, "SchemaFragment::from_json_str(to_json_string)", SchemaFragment::from_json_str(&text), f2 => { let _ = f2; });
    });
    down!(run, "SchemaFragment::to_json_value", frag.clone().to_json_value(), v => { let _ = v; });
    run.call("SchemaFragment accessors", || {
        let mut n = format!("{frag:?}").len();
        let nss: Vec<Option<EntityNamespace>> = frag.namespaces().collect();
        for ns in nss {
            if let Some(ns) = ns {
                n += frag.namespace_annotations(ns.clone()).map_or(0, |i| i.count());
                n += frag.namespace_annotation(ns, "doc").map_or(0, |s| s.len());
            }
        }
        n
    });
    down!(run, "Schema::try_from(SchemaFragment)", TryInto::<Schema>::try_into(frag.clone()), s => pipe_schema(run, fx, &s));
    down!(run, "Schema::from_schema_fragments", Schema::from_schema_fragments([frag.clone(), fx.frag.clone()]), s => { let _ = s; });
}

fn ep_cschema_text(run: &mut Run, fx: &Fix, s: &str, full: bool) {
    ep!(run, "Schema::from_cedarschema_str", Schema::from_cedarschema_str(s).map(|(x, w)| (x, w.collect::<Vec<_>>())), (schema, ws) => { render_schema_warnings(run, ws); pipe_schema(run, fx, &schema); });
    ep!(run, "SchemaFragment::from_cedarschema_str", SchemaFragment::from_cedarschema_str(s).map(|(x, w)| (x, w.collect::<Vec<_>>())), (frag, ws) => { render_schema_warnings(run, ws); pipe_fragment(run, fx, &frag); });
    ep!(run, "schema_str_to_json_with_resolved_types", schema_str_to_json_with_resolved_types(s), (v, ws) => { let _ = v; render_schema_warnings(run, ws); });
    if !full {
        return;
    }
    ep!(run, "Schema::from_str", Schema::from_str(s), x => { let _ = x; });
    ep!(run, "SchemaFragment::from_str", SchemaFragment::from_str(s), x => { let _ = x; });
    run.call("ffi::check_parse_schema(text)", || format!("{:?}", ffi::check_parse_schema(ffi::Schema::Cedar(s.to_string()))).len());
    run.call("ffi::schema_to_json(text)", || format!("{:?}", ffi::schema_to_json(ffi::Schema::Cedar(s.to_string()))).len());
    run.call("ffi::schema_to_text(text)", || format!("{:?}", ffi::schema_to_text(ffi::Schema::Cedar(s.to_string()))).len());
    run.call("ffi::schema_to_json_with_resolved_types", || format!("{:?}", ffi::schema_to_json_with_resolved_types(s)).len());
    epp!(run, "ffi::validate_json(schema text)", ffi::validate_json(json!({"schema": s, "policies": {"staticPolicies": FIXED_PSET_TEXT}})), v => v.is_object());
    run.call("ffi::preparse_schema(text)", || format!("{:?}", ffi::preparse_schema("c20".to_string(), ffi::Schema::Cedar(s.to_string()))).len());
}

// ---------------------------------------------------------------------------------------------
// entities, contexts
// ---------------------------------------------------------------------------------------------
fn pipe_entity(run: &mut Run, fx: &Fix, e: &Entity) {
    run.call("Entity accessors", || {
        let mut n = e.to_string().len() + format!("{e:?}").len() + e.uid().to_string().len();
        let names: Vec<String> = e.attrs().map(|(k, _)| k.to_string()).collect();
        for k in &names {
            n += match e.attr(k) {
                Some(Ok(v)) => v.to_string().len(),
                Some(Err(x)) => x.to_string().len(),
                None => 0,
            };
        }
        n += e.tags().map(|(k, v)| k.len() + v.map_or(0, |v| v.to_string().len())).sum::<usize>();
        n += e.tag("t1").is_some() as usize;
        n
    });
    down!(run, "Entity::to_json_string", e.to_json_string(), text => {
        down!(run, "Entity::from_json_str(to_json_string)", Entity::from_json_str(&text, None), e2 => { run.call("Entity::deep_eq", || e2.deep_eq(e)); });
    });
    down!(run, "Entity::to_json_value", e.to_json_value(), v => { let _ = v; });
    downp!(run, "Entity::encode", e.encode(), bytes => {
        downp!(run, "Entity::decode(encode)", <Entity as Protobuf>::decode(&bytes[..]), e2 => { run.call("Entity::to_string(decoded)", || e2.to_string().len()); });
    });
    down!(run, "Entities::from_entities([entity], schema)", Entities::from_entities([e.clone()], Some(&fx.schema)), es => { let _ = es; });
    down!(run, "Entities::upsert_entities([entity])", fx.entities.clone().upsert_entities([e.clone()], None), es => pipe_entities(run, fx, &es, false));
    run.call("Entity::into_inner", || {
        let (u, a, p) = e.clone().into_inner();
        u.to_string().len() + a.len() + p.len()
    });
}

pub fn pipe_entities(run: &mut Run, fx: &Fix, es: &Entities, deep: bool) {
    down!(run, "Entities::to_json_value", es.to_json_value(), v => {
        down!(run, "Entities::from_json_value(to_json_value)", Entities::from_json_value(v, None), e2 => { run.call("Entities::deep_eq", || e2.deep_eq(es)); });
    });
    down!(run, "Entities::write_to_json", es.write_to_json(Vec::new()), () => ());
    run.call("Entities::to_dot_str", || es.to_dot_str().len());
    run.call("Entities accessors", || {
        let mut n = es.len() + es.is_empty() as usize + format!("{es:?}").len();
        let uids: Vec<EntityUid> = es.iter().map(|e| e.uid()).collect();
        for a in uids.iter().take(6) {
            n += es.get(a).is_some() as usize;
            n += es.ancestors(a).map_or(0, |i| i.count());
            for b in uids.iter().take(6) {
                n += es.is_ancestor_of(a, b) as usize;
            }
            n += es.is_ancestor_of(a, &fx.gh) as usize + es.is_ancestor_of(&fx.ua, a) as usize;
        }
        n
    });
    if deep {
        let ents: Vec<Entity> = es.iter().take(4).cloned().collect();
        for e in &ents {
            pipe_entity(run, fx, e);
        }
    }
    for req in &fx.reqs {
        if let Some(resp) = run.call("Authorizer::is_authorized(entities)", || fx.authorizer.is_authorized(req, &fx.pset, es)) {
            for e in resp.diagnostics().errors() {
                render!(run, "AuthorizationError", *e);
            }
        }
    }
    run.call("Authorizer::is_authorized_partial(entities)", || fx.authorizer.is_authorized_partial(&fx.partial_req, &fx.pset, es).decision().is_some());
    down!(run, "Entities::from_entities(schema)", Entities::from_entities(es.iter().cloned(), Some(&fx.schema)), e2 => { let _ = e2; });
    down!(run, "Entities::add_entities(fixed)", fx.entities.clone().add_entities(es.iter().cloned(), None), e2 => { let _ = e2; });
    down!(run, "Entities::upsert_entities(fixed, schema)", fx.entities.clone().upsert_entities(es.iter().cloned(), Some(&fx.schema)), e2 => { let _ = e2; });
    down!(run, "Entities::remove_entities", es.clone().remove_entities([fx.ua.clone(), fx.gh.clone()]), e2 => { run.call("Entities::to_dot_str(removed)", || e2.to_dot_str().len()); });
    run.call("Entities::partial", || es.clone().partial().len());
    down!(run, "PartialEntities::from_concrete", PartialEntities::from_concrete(es.clone(), &fx.schema), pe => { let _ = pe; });
    downp!(run, "Entities::encode", es.encode(), bytes => {
        downp!(run, "Entities::decode(encode)", <Entities as Protobuf>::decode(&bytes[..]), e2 => { run.call("Entities::len(decoded)", || e2.len()); });
    });
    {
        let mut loader = TestEntityLoader::new(es);
        downp!(run, "PolicySet::is_authorized_batched(entities)", fx.pset.is_authorized_batched(&fx.reqs[0], &fx.schema, &mut loader, 4), d => { let _ = d; });
    }
}

fn pipe_context(run: &mut Run, fx: &Fix, c: &Context) {
    run.call("Context accessors", || c.to_string().len() + format!("{c:?}").len() + c.get("k").map_or(0, |v| v.to_string().len()) + c.get("n").is_some() as usize + c.clone().into_iter().count());
    down!(run, "Context::to_json_value", c.to_json_value(), v => {
        down!(run, "Context::from_json_value(to_json_value)", Context::from_json_value(v, None), c2 => { let _ = c2; });
    });
    down!(run, "Context::validate", c.validate(&fx.schema, &fx.view), () => ());
    down!(run, "Context::merge", c.clone().merge(fx.ctx.clone()), c2 => { let _ = c2; });
    down!(run, "Request::new(context)", Request::new(fx.ua.clone(), fx.view.clone(), fx.dd.clone(), c.clone(), None), req => {
        run.call("Request => Display", || req.to_string().len());
        if let Some(resp) = run.call("Authorizer::is_authorized(context)", || fx.authorizer.is_authorized(&req, &fx.pset, &fx.entities)) {
            for e in resp.diagnostics().errors() {
                render!(run, "AuthorizationError", *e);
            }
        }
        downp!(run, "Request::encode", req.encode(), bytes => {
            downp!(run, "Request::decode(encode)", <Request as Protobuf>::decode(&bytes[..]), r2 => { run.call("Request::to_string(decoded)", || r2.to_string().len()); });
        });
    });
    down!(run, "Request::new(context, schema)", Request::new(fx.ua.clone(), fx.view.clone(), fx.dd.clone(), c.clone(), Some(&fx.schema)), r => { let _ = r; });
    down!(run, "PartialRequest::new(context)", PartialRequest::new(PartialEntityUid::from_concrete(fx.ua.clone()), fx.view.clone(), PartialEntityUid::from_concrete(fx.dd.clone()), Some(c.clone()), &fx.schema), r => { let _ = r; });
}

// ---------------------------------------------------------------------------------------------
// JSON entry points
// ---------------------------------------------------------------------------------------------
fn ep_json(run: &mut Run, fx: &Fix, s: &str, route: u64) {
    // entry points that take a serde_json::Value need the text to be JSON at all
    let val: Option<J> = if route & (R_J_POLICY | R_J_EUID | R_J_CHECK | R_J_ENTITIES) != 0 { serde_json::from_str(s).ok() } else { None };
    if route & R_J_POLICY != 0 {
        if let Some(v) = &val {
            ep!(run, "Policy::from_json", Policy::from_json(Some(PolicyId::new("pj")), v.clone()), p => pipe_policy(run, fx, &p, true));
            ep!(run, "Template::from_json", Template::from_json(Some(PolicyId::new("tj")), v.clone()), t => pipe_template(run, fx, &t, true));
        }
        epp!(run, "serde_json::from_str::<ffi::Policy>", serde_json::from_str::<ffi::Policy>(s), p => {
            run.call("ffi::policy_to_text", || format!("{:?}", ffi::policy_to_text(p.clone())).len());
            run.call("ffi::policy_to_json", || format!("{:?}", ffi::policy_to_json(p.clone())).len());
            run.call("ffi::Policy::get_valid_request_envs", || match p.clone().get_valid_request_envs(ffi::Schema::Cedar(SCHEMA_TEXT.to_string())) { Ok((a, b, c)) => a.count() + b.count() + c.count(), Err(e) => format!("{e:?}").len() });
        });
        epp!(run, "serde_json::from_str::<ffi::Template>", serde_json::from_str::<ffi::Template>(s), t => {
            run.call("ffi::template_to_text", || format!("{:?}", ffi::template_to_text(t.clone())).len());
            run.call("ffi::template_to_json", || format!("{:?}", ffi::template_to_json(t.clone())).len());
        });
    }
    if route & R_J_PSET != 0 {
        ep!(run, "PolicySet::from_json_str", PolicySet::from_json_str(s), ps => pipe_pset(run, fx, &ps, true));
        epp!(run, "ffi::check_parse_policy_set_json_str", ffi::check_parse_policy_set_json_str(s), out => out.len());
        epp!(run, "serde_json::from_str::<ffi::PolicySet>", serde_json::from_str::<ffi::PolicySet>(s), p => {
            run.call("ffi::preparse_policy_set", || format!("{:?}", ffi::preparse_policy_set("c20".to_string(), p.clone())).len());
            match run.call("ffi::PolicySet::parse", || p.clone().parse()) {
                Some(Ok(ps)) => pipe_pset(run, fx, &ps, true),
                Some(Err(es)) => for e in es { render_report!(run, "ffi::PolicySet::parse", e); },
                None => {}
            }
        });
    }
    if route & R_J_SCHEMA != 0 {
        ep!(run, "Schema::from_json_str", Schema::from_json_str(s), schema => pipe_schema(run, fx, &schema));
        ep!(run, "SchemaFragment::from_json_str", SchemaFragment::from_json_str(s), frag => pipe_fragment(run, fx, &frag));
        epp!(run, "ffi::check_parse_schema_json_str", ffi::check_parse_schema_json_str(s), out => out.len());
        epp!(run, "serde_json::from_str::<ffi::Schema>", serde_json::from_str::<ffi::Schema>(s), sc => {
            run.call("ffi::schema_to_text", || format!("{:?}", ffi::schema_to_text(sc.clone())).len());
            run.call("ffi::schema_to_json", || format!("{:?}", ffi::schema_to_json(sc.clone())).len());
            run.call("ffi::preparse_schema", || format!("{:?}", ffi::preparse_schema("c20".to_string(), sc.clone())).len());
        });
    }
    if route & R_J_ENTITIES != 0 {
        ep!(run, "Entities::from_json_str", Entities::from_json_str(s, None), es => pipe_entities(run, fx, &es, true));
        ep!(run, "Entities::from_json_str(schema)", Entities::from_json_str(s, Some(&fx.schema)), es => pipe_entities(run, fx, &es, false));
        ep!(run, "Entities::add_entities_from_json_str", fx.entities.clone().add_entities_from_json_str(s, None), es => { let _ = es; });
        ep!(run, "Entities::add_entities_from_json_str(schema)", fx.entities.clone().add_entities_from_json_str(s, Some(&fx.schema)), es => { let _ = es; });
        if let Some(v) = &val {
            ep!(run, "PartialEntities::from_json_value", PartialEntities::from_json_value(v.clone(), &fx.schema), pe => {
                if let Some(preq) = &fx.tpe_req {
                    match run.call("PolicySet::tpe(partial entities)", || fx.pset.tpe(preq, &pe, &fx.schema).map(|r| r.decision().is_some())) {
                        Some(Err(e)) => render!(run, "PolicySet::tpe(partial entities)", e),
                        _ => {}
                    }
                }
            });
        }
    }
    if route & R_J_ENTITY != 0 {
        ep!(run, "Entity::from_json_str", Entity::from_json_str(s, None), e => pipe_entity(run, fx, &e));
        ep!(run, "Entity::from_json_str(schema)", Entity::from_json_str(s, Some(&fx.schema)), e => pipe_entity(run, fx, &e));
    }
    if route & R_J_CONTEXT != 0 {
        ep!(run, "Context::from_json_str", Context::from_json_str(s, None), c => pipe_context(run, fx, &c));
        ep!(run, "Context::from_json_str(schema)", Context::from_json_str(s, Some((&fx.schema, &fx.view))), c => pipe_context(run, fx, &c));
    }
    if route & R_J_EUID != 0 {
        if let Some(v) = &val {
            ep!(run, "EntityUid::from_json", EntityUid::from_json(v.clone()), u => pipe_euid(run, &u));
        }
    }
    if route & R_J_AUTH != 0 {
        epp!(run, "ffi::is_authorized_json_str", ffi::is_authorized_json_str(s), out => out.len());
        epp!(run, "ffi::is_authorized_partial_json_str", ffi::is_authorized_partial_json_str(s), out => out.len());
        epp!(run, "serde_json::from_str::<ffi::StatefulAuthorizationCall>", serde_json::from_str::<ffi::StatefulAuthorizationCall>(s), call => {
            run.call("ffi::stateful_is_authorized", || format!("{:?}", ffi::stateful_is_authorized(call)).len());
        });
    }
    if route & R_J_VALIDATE != 0 {
        epp!(run, "ffi::validate_json_str", ffi::validate_json_str(s), out => out.len());
    }
    if route & R_J_FORMAT != 0 {
        epp!(run, "ffi::format_json_str", ffi::format_json_str(s), out => out.len());
    }
    if route & R_J_CHECK != 0 {
        epp!(run, "ffi::check_parse_entities_json_str", ffi::check_parse_entities_json_str(s), out => out.len());
        epp!(run, "ffi::check_parse_context_json_str", ffi::check_parse_context_json_str(s), out => out.len());
        if let Some(v) = &val {
            epp!(run, "ffi::check_parse_scope_variables_json", ffi::check_parse_scope_variables_json(v.clone()), out => out.is_object());
        }
    }
}

/// register the fixed preparsed schema / policy set used by the stateful FFI call
pub fn preparse_fixed(run: &mut Run) {
    run.call("ffi::preparse_schema(fixed)", || format!("{:?}", ffi::preparse_schema("fixed".to_string(), ffi::Schema::Cedar(SCHEMA_TEXT.to_string()))).len());
    run.call("ffi::preparse_policy_set(fixed)", || match serde_json::from_value::<ffi::PolicySet>(json!({"staticPolicies": FIXED_PSET_TEXT})) {
        Ok(p) => format!("{:?}", ffi::preparse_policy_set("fixed".to_string(), p)).len(),
        Err(_) => 0,
    });
}

// ---------------------------------------------------------------------------------------------
// protobuf and reader-based entry points
// ---------------------------------------------------------------------------------------------
fn ep_proto(run: &mut Run, fx: &Fix, b: &[u8]) {
    epp!(run, "PolicySet::decode", <PolicySet as Protobuf>::decode(b), ps => pipe_pset(run, fx, &ps, true));
    epp!(run, "PolicySet::decode_unchecked", <PolicySet as Protobuf>::decode_unchecked(b), ps => { run.call("PolicySet::to_string(decode_unchecked)", || ps.to_string().len()); });
    epp!(run, "Template::decode", <Template as Protobuf>::decode(b), t => pipe_template(run, fx, &t, true));
    epp!(run, "Expression::decode", <Expression as Protobuf>::decode(b), e => pipe_expr(run, fx, &e));
    epp!(run, "Expression::decode_unchecked", <Expression as Protobuf>::decode_unchecked(b), e => { run.call("Expression::to_string(decode_unchecked)", || e.to_string().len()); });
    epp!(run, "Schema::decode", <Schema as Protobuf>::decode(b), s => pipe_schema(run, fx, &s));
    epp!(run, "Schema::decode_unchecked", <Schema as Protobuf>::decode_unchecked(b), s => { run.call("Schema::request_envs(decode_unchecked)", || s.request_envs().take(64).count()); });
    epp!(run, "Entities::decode", <Entities as Protobuf>::decode(b), es => pipe_entities(run, fx, &es, true));
    epp!(run, "Entities::decode_unchecked", <Entities as Protobuf>::decode_unchecked(b), es => { run.call("Entities::to_dot_str(decode_unchecked)", || es.to_dot_str().len()); });
    epp!(run, "Entity::decode", <Entity as Protobuf>::decode(b), e => pipe_entity(run, fx, &e));
    epp!(run, "Request::decode", <Request as Protobuf>::decode(b), req => {
        run.call("Request => Display", || req.to_string().len() + format!("{req:?}").len());
        run.call("Authorizer::is_authorized(decoded request)", || format!("{:?}", fx.authorizer.is_authorized(&req, &fx.pset, &fx.entities).decision()).len());
        run.call("Authorizer::is_authorized_partial(decoded request)", || fx.authorizer.is_authorized_partial(&req, &fx.pset, &fx.entities).decision().is_some());
        if let Some(c) = req.context() { pipe_context(run, fx, c); }
    });
    epp!(run, "EntityTypeName::decode", <EntityTypeName as Protobuf>::decode(b), t => pipe_type_name(run, &t));
    epp!(run, "EntityNamespace::decode", <EntityNamespace as Protobuf>::decode(b), n => { run.call("EntityNamespace::to_string", || n.to_string().len()); });
}

fn ep_file(run: &mut Run, fx: &Fix, b: &[u8]) {
    ep!(run, "Entities::from_json_file", Entities::from_json_file(b, None), es => pipe_entities(run, fx, &es, false));
    ep!(run, "Entity::from_json_file", Entity::from_json_file(b, None), e => pipe_entity(run, fx, &e));
    ep!(run, "Context::from_json_file", Context::from_json_file(b, None), c => pipe_context(run, fx, &c));
    ep!(run, "Schema::from_json_file", Schema::from_json_file(b), s => pipe_schema(run, fx, &s));
    ep!(run, "SchemaFragment::from_json_file", SchemaFragment::from_json_file(b), f => pipe_fragment(run, fx, &f));
    ep!(run, "Schema::from_cedarschema_file", Schema::from_cedarschema_file(b).map(|(x, w)| (x, w.collect::<Vec<_>>())), (s, ws) => { render_schema_warnings(run, ws); pipe_schema(run, fx, &s); });
    ep!(run, "SchemaFragment::from_cedarschema_file", SchemaFragment::from_cedarschema_file(b).map(|(x, w)| (x, w.collect::<Vec<_>>())), (f, ws) => { render_schema_warnings(run, ws); pipe_fragment(run, fx, &f); });
    ep!(run, "PolicySet::from_json_file", PolicySet::from_json_file(b), ps => pipe_pset(run, fx, &ps, false));
    ep!(run, "Entities::add_entities_from_json_file", fx.entities.clone().add_entities_from_json_file(b, None), es => { let _ = es; });
}
