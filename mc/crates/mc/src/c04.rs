//! C04 — hierarchy membership equals parent-reachability after any store history.
//!
//! Three exhaustive parts, all over a universe of n uids of one entity type (quick n = 3,
//! thorough n = 4) plus one never-stored uid used only in queries:
//!  1. explicit-state BFS (stateright) over `cedar_policy::Entities`: every transition calls the
//!     real API once (`from_entities` / `add_entities` / `upsert_entities` / `remove_entities`,
//!     batches of size 1 and ordered size 2, duplicates inside a batch, self-parents, dangling
//!     parents) in lock-step with the reference model (uid -> direct parents, refsem::Store);
//!  2. `from_entities` on EVERY parent graph over the universe (every stored subset, every parent
//!     assignment incl. self-parents, hence cycles of every length <= n) in every insertion order;
//!  3. core-level `TCComputation::EnforceAlreadyComputed` on hand-built stores of 3 entities with
//!     every combination of parent edges and claimed indirect edges.
//!
//! The state of the BFS is the canonical form read back FROM THE IMPLEMENTATION (sorted uid ->
//! (direct parents, indirect ancestors)) together with the model; the real object built by the
//! history rides along in the state (it is not hashable) and is the object every query is asked of.
use crate::bind::*;
use crate::harness::*;
use cedar_policy_core::ast;
use rayon::prelude::*;
use refsem::{Ent, Store, Uid};
use serde_json::{json, Value as J};
use stateright::{Checker, Model, Property};
use std::collections::{BTreeMap, BTreeSet, HashSet};
use std::hash::{Hash, Hasher};
use std::panic::{catch_unwind, AssertUnwindSafe};
use std::str::FromStr;
use std::sync::atomic::{AtomicU64, AtomicUsize, Ordering};
use std::sync::{Arc, Mutex, RwLock};

const TY: &str = "N";
const NAMES: [&str; 5] = ["A", "B", "C", "D", "P"];
/// index of `P`: a uid that is never stored and occurs only as a (dangling) parent
const P_IDX: usize = 4;
/// never stored, never a parent; appears only as a query argument
const GHOST: &str = "Z";

/// shape of the universe: uids 0..n can be stored; parents range over them (self included)
/// and, when `extra`, over the dangling-only uid P
#[derive(Clone, Copy, Debug, PartialEq, Eq)]
pub struct Cfg {
    n: usize,
    extra: bool,
}

impl Cfg {
    fn parent_bits(&self) -> Vec<usize> {
        let mut v: Vec<usize> = (0..self.n).collect();
        if self.extra {
            v.push(P_IDX);
        }
        v
    }
    /// every parent set: all subsets of the parent candidates, as bitmasks over NAMES
    fn masks(&self) -> Vec<u8> {
        let bits = self.parent_bits();
        (0..(1u32 << bits.len())).map(|c| bits.iter().enumerate().filter(|(k, _)| c & (1 << k) != 0).fold(0u8, |m, (_, b)| m | (1 << b))).collect()
    }
    fn json(&self) -> J {
        json!({"n": self.n, "extra_dangling_parent": self.extra})
    }
}

fn uid(i: usize) -> Uid {
    Uid::new(TY, NAMES[i])
}

fn idx_of(u: &Uid) -> Option<usize> {
    if u.ty != TY {
        return None;
    }
    NAMES.iter().position(|n| *n == u.id)
}

fn show_uid(u: &Uid) -> String {
    u.id.clone()
}

fn show_set(s: &BTreeSet<Uid>) -> String {
    format!("{{{}}}", s.iter().map(show_uid).collect::<Vec<_>>().join(","))
}

// ---------------------------------------------------------------------------------------------
// operations (the generator's own terms)
// ---------------------------------------------------------------------------------------------

/// one entity as handed to the API: uid index and bitmask of direct parents (bit u = self-parent)
#[derive(Clone, Copy, PartialEq, Eq, Hash, Debug, PartialOrd, Ord)]
pub struct Spec {
    u: u8,
    parents: u8,
}

#[derive(Clone, PartialEq, Eq, Hash, Debug)]
pub enum Op {
    From(Vec<Spec>),
    Add(Vec<Spec>),
    Upsert(Vec<Spec>),
    Remove(Vec<u8>),
}

impl Op {
    fn kind(&self) -> &'static str {
        match self {
            Op::From(_) => "from_entities",
            Op::Add(_) => "add_entities",
            Op::Upsert(_) => "upsert_entities",
            Op::Remove(_) => "remove_entities",
        }
    }
    fn len(&self) -> usize {
        match self {
            Op::From(b) | Op::Add(b) | Op::Upsert(b) => b.len(),
            Op::Remove(b) => b.len(),
        }
    }
    /// stable call-site name for fingerprints: API entry point + batch-size class
    fn site(&self) -> String {
        let l = match self.len() {
            0 => "0",
            1 => "1",
            2 => "2",
            _ => "n",
        };
        format!("{}/{}", self.kind(), l)
    }
    fn to_json(&self) -> J {
        let specs = |b: &Vec<Spec>| -> J { J::Array(b.iter().map(|s| json!({"uid": NAMES[s.u as usize], "parents": mask_names(s.parents)})).collect()) };
        match self {
            Op::From(b) => json!({"op": "from_entities", "batch": specs(b)}),
            Op::Add(b) => json!({"op": "add_entities", "batch": specs(b)}),
            Op::Upsert(b) => json!({"op": "upsert_entities", "batch": specs(b)}),
            Op::Remove(b) => json!({"op": "remove_entities", "uids": b.iter().map(|u| NAMES[*u as usize]).collect::<Vec<_>>()}),
        }
    }
    fn from_json(j: &J) -> Option<Op> {
        let name_idx = |s: &J| -> Option<u8> { NAMES.iter().position(|n| Some(*n) == s.as_str()).map(|i| i as u8) };
        let specs = |j: &J| -> Option<Vec<Spec>> {
            j.as_array()?
                .iter()
                .map(|e| {
                    let u = name_idx(&e["uid"])?;
                    let mut m = 0u8;
                    for p in e["parents"].as_array()? {
                        m |= 1 << name_idx(p)?;
                    }
                    Some(Spec { u, parents: m })
                })
                .collect()
        };
        match j["op"].as_str()? {
            "from_entities" => Some(Op::From(specs(&j["batch"])?)),
            "add_entities" => Some(Op::Add(specs(&j["batch"])?)),
            "upsert_entities" => Some(Op::Upsert(specs(&j["batch"])?)),
            "remove_entities" => Some(Op::Remove(j["uids"].as_array()?.iter().map(name_idx).collect::<Option<Vec<u8>>>()?)),
            _ => None,
        }
    }
}

fn mask_names(m: u8) -> Vec<&'static str> {
    (0..NAMES.len()).filter(|i| m & (1 << i) != 0).map(|i| NAMES[i]).collect()
}

fn mask_set(m: u8) -> BTreeSet<Uid> {
    (0..NAMES.len()).filter(|i| m & (1 << i) != 0).map(uid).collect()
}

/// every entity: storable uid x every subset of the parent candidates (self included)
fn all_specs(cfg: Cfg) -> Vec<Spec> {
    let mut v = Vec::new();
    for u in 0..cfg.n {
        for m in cfg.masks() {
            v.push(Spec { u: u as u8, parents: m });
        }
    }
    v
}

/// the operation alphabet of the BFS: batches of size 1 and ORDERED size 2 (so: same uid twice
/// with identical / different parents, both orders of two different uids)
fn all_ops(cfg: Cfg) -> Vec<Op> {
    let n = cfg.n;
    let specs = all_specs(cfg);
    let mut batches: Vec<Vec<Spec>> = specs.iter().map(|s| vec![*s]).collect();
    for a in &specs {
        for b in &specs {
            batches.push(vec![*a, *b]);
        }
    }
    let mut ops = Vec::new();
    for b in &batches {
        ops.push(Op::From(b.clone()));
    }
    for b in &batches {
        ops.push(Op::Add(b.clone()));
    }
    for b in &batches {
        ops.push(Op::Upsert(b.clone()));
    }
    for a in 0..n {
        ops.push(Op::Remove(vec![a as u8]));
    }
    for a in 0..n {
        for b in 0..n {
            ops.push(Op::Remove(vec![a as u8, b as u8]));
        }
    }
    ops
}

// ---------------------------------------------------------------------------------------------
// reference model: uid -> set of direct parents (refsem::Store; reach / ancestors / has_cycle
// are BFS over the direct-parent edges, parents without a record are leaves)
// ---------------------------------------------------------------------------------------------

pub struct Pred {
    /// the store the model expects after an accepted op
    next: Store,
    /// the batch re-adds (add / from) a uid that is already present at that point: the library's
    /// answer (Err, or Ok leaving that record unchanged) is not predicted
    unpredicted: bool,
}

fn ent_of(parents: u8) -> Ent {
    Ent { attrs: BTreeMap::new(), tags: BTreeMap::new(), parents: mask_set(parents) }
}

pub fn model_step(cur: &Store, op: &Op) -> Pred {
    let mut next = cur.clone();
    let mut unpredicted = false;
    match op {
        Op::From(b) | Op::Add(b) => {
            if matches!(op, Op::From(_)) {
                next = Store::default();
            }
            for s in b {
                let u = uid(s.u as usize);
                if next.ents.contains_key(&u) {
                    unpredicted = true; // if accepted, the stored record stays as it is
                } else {
                    next.ents.insert(u, ent_of(s.parents));
                }
            }
        }
        Op::Upsert(b) => {
            for s in b {
                next.ents.insert(uid(s.u as usize), ent_of(s.parents)); // replaces; incoming edges stay
            }
        }
        Op::Remove(b) => {
            for r in b {
                let u = uid(*r as usize);
                if next.ents.remove(&u).is_some() {
                    // "after removing all edges to/from the removed entities"
                    for e in next.ents.values_mut() {
                        e.parents.remove(&u);
                    }
                }
            }
        }
    }
    Pred { next, unpredicted }
}

fn model_specs(m: &Store) -> Vec<Spec> {
    m.ents
        .iter()
        .map(|(u, e)| {
            let mut mask = 0u8;
            for p in &e.parents {
                mask |= 1 << idx_of(p).expect("model uid in universe");
            }
            Spec { u: idx_of(u).expect("model uid in universe") as u8, parents: mask }
        })
        .collect()
}

fn model_json(m: &Store) -> J {
    J::Object(m.ents.iter().map(|(u, e)| (u.id.clone(), json!(e.parents.iter().map(show_uid).collect::<Vec<_>>()))).collect())
}

// ---------------------------------------------------------------------------------------------
// the implementation side
// ---------------------------------------------------------------------------------------------

pub struct World {
    cfg: Cfg,
    /// universe + ghost (query arguments)
    q_uids: Vec<Uid>,
    q_cuids: Vec<cedar_policy::EntityUid>,
    /// ents[u][mask]
    ents: Vec<Vec<cedar_policy::Entity>>,
    /// `permit(principal in Y, action, resource);` for every query uid Y
    psets: Vec<cedar_policy::PolicySet>,
    /// request with principal = x for every query uid x
    reqs: Vec<cedar_policy::Request>,
    auth: cedar_policy::Authorizer,
}

impl World {
    pub fn new(cfg: Cfg) -> World {
        let n = cfg.n;
        // query arguments: the storable uids first (so that index = uid index), then P, then Z
        let mut q_uids: Vec<Uid> = (0..n).map(uid).collect();
        if cfg.extra {
            q_uids.push(uid(P_IDX));
        }
        q_uids.push(Uid::new(TY, GHOST));
        let q_cuids: Vec<cedar_policy::EntityUid> = q_uids.iter().map(c_uid).collect();
        let all_cuids: Vec<cedar_policy::EntityUid> = (0..NAMES.len()).map(|i| c_uid(&uid(i))).collect();
        let mut ents = Vec::new();
        for u in 0..n {
            let mut row = Vec::new();
            for m in 0..(1u16 << NAMES.len()) {
                let parents: HashSet<cedar_policy::EntityUid> = (0..NAMES.len()).filter(|i| m & (1 << i) != 0).map(|i| all_cuids[i].clone()).collect();
                row.push(cedar_policy::Entity::new_no_attrs(all_cuids[u].clone(), parents));
            }
            ents.push(row);
        }
        let psets = q_uids
            .iter()
            .map(|y| cedar_policy::PolicySet::from_str(&format!("permit(principal in {TY}::\"{}\", action, resource);", y.id)).expect("policy text"))
            .collect();
        let act = c_uid(&Uid::new("Action", "act"));
        let res = c_uid(&Uid::new(TY, "R"));
        let reqs = q_cuids.iter().map(|x| cedar_policy::Request::new(x.clone(), act.clone(), res.clone(), cedar_policy::Context::empty(), None).expect("request")).collect();
        World { cfg, q_uids, q_cuids, ents, psets, reqs, auth: cedar_policy::Authorizer::new() }
    }

    fn entity(&self, s: &Spec) -> cedar_policy::Entity {
        self.ents[s.u as usize][s.parents as usize].clone()
    }
}

type ERes = Result<cedar_policy::Entities, cedar_policy::entities_errors::EntitiesError>;

/// exactly one call of the real API
fn impl_step(real: cedar_policy::Entities, op: &Op, w: &World) -> ERes {
    match op {
        Op::From(b) => cedar_policy::Entities::from_entities(b.iter().map(|s| w.entity(s)), None),
        Op::Add(b) => real.add_entities(b.iter().map(|s| w.entity(s)), None),
        Op::Upsert(b) => real.upsert_entities(b.iter().map(|s| w.entity(s)), None),
        Op::Remove(b) => real.remove_entities(b.iter().map(|u| w.q_cuids[*u as usize].clone())),
    }
}

fn err_class(e: &cedar_policy::entities_errors::EntitiesError) -> &'static str {
    use cedar_policy::entities_errors::EntitiesError as E;
    match e {
        E::Duplicate(_) => "duplicate",
        E::TransitiveClosureError(_) => "tc",
        _ => "other",
    }
}

/// canonical form read back from the implementation: uid -> (direct parents, indirect ancestors)
pub type Canon = BTreeMap<Uid, (BTreeSet<Uid>, BTreeSet<Uid>)>;

fn readback(real: &cedar_policy::Entities) -> Result<Canon, String> {
    let mut c = Canon::new();
    let mut count = 0usize;
    for e in real.iter() {
        count += 1;
        let e: &ast::Entity = e.as_ref();
        let ps: Vec<Uid> = e.parents().map(abs_uid).collect();
        let is: Vec<Uid> = e.indirect_ancestors().map(abs_uid).collect();
        let pset: BTreeSet<Uid> = ps.iter().cloned().collect();
        let iset: BTreeSet<Uid> = is.iter().cloned().collect();
        if pset.len() != ps.len() || iset.len() != is.len() {
            return Err(format!("entity {} lists a parent/ancestor twice", e.uid()));
        }
        if c.insert(abs_uid(e.uid()), (pset, iset)).is_some() {
            return Err(format!("store iterates uid {} twice", e.uid()));
        }
    }
    if count != c.len() {
        return Err("store iterates a uid twice".into());
    }
    Ok(c)
}

fn canon_json(c: &Canon) -> J {
    J::Object(
        c.iter()
            .map(|(u, (p, i))| (u.id.clone(), json!({"parents": p.iter().map(show_uid).collect::<Vec<_>>(), "indirect": i.iter().map(show_uid).collect::<Vec<_>>()})))
            .collect(),
    )
}

type Bad = Vec<(String, String)>;

/// record a mismatch; at most one entry per fingerprint and call (the text is only built then)
fn note(bad: &mut Bad, fp: String, what: impl FnOnce() -> String) {
    if !bad.iter().any(|(f, _)| *f == fp) {
        let w = what();
        bad.push((fp, w));
    }
}

/// the store read back from the implementation must be the model's: same records, same direct
/// parents, indirect ancestors = strict reachable set minus direct parents (disjoint)
fn conformance(site: &str, canon: &Canon, model: &Store, bad: &mut Bad) {
    let keys: BTreeSet<&Uid> = canon.keys().chain(model.ents.keys()).collect();
    for u in keys {
        match (canon.get(u), model.ents.get(u)) {
            (Some(_), None) => bad.push((format!("{site}:readback:presence"), format!("{} is stored by the implementation but not by the model", u.id))),
            (None, Some(_)) => bad.push((format!("{site}:readback:presence"), format!("{} is stored by the model but not by the implementation", u.id))),
            (Some((p, i)), Some(me)) => {
                if p != &me.parents {
                    bad.push((format!("{site}:readback:parents"), format!("direct parents of {}: implementation {} model {}", u.id, show_set(p), show_set(&me.parents))));
                }
                if !p.is_disjoint(i) {
                    bad.push((format!("{site}:readback:overlap"), format!("{}: direct parents {} and indirect ancestors {} are not disjoint", u.id, show_set(p), show_set(i))));
                }
                let reach = model.ancestors(u);
                let all: BTreeSet<Uid> = p.union(i).cloned().collect();
                if all != reach {
                    let stale: BTreeSet<Uid> = all.difference(&reach).cloned().collect();
                    let missing: BTreeSet<Uid> = reach.difference(&all).cloned().collect();
                    let k = if !stale.is_empty() { "stale-ancestor" } else { "missing-ancestor" };
                    bad.push((
                        format!("{site}:readback:{k}"),
                        format!("ancestors of {}: implementation {} but reachable over direct-parent links {} (unjustified {}, missing {})", u.id, show_set(&all), show_set(&reach), show_set(&stale), show_set(&missing)),
                    ));
                }
            }
            (None, None) => {}
        }
    }
}

/// queries for ALL ordered pairs over universe + ghost: `ancestors`, `is_ancestor_of`, and (when
/// `with_auth`) `principal in Y` through the Authorizer. Returns the number of API calls compared.
fn check_queries(w: &World, real: &cedar_policy::Entities, model: &Store, with_auth: bool, bad: &mut Bad) -> u64 {
    let mut calls = 0u64;
    for (xi, x) in w.q_uids.iter().enumerate() {
        let strict = model.ancestors(x);
        let reach = model.reach(x);
        calls += 1;
        match real.ancestors(&w.q_cuids[xi]) {
            None => {
                if model.ents.contains_key(x) {
                    note(bad, "ancestors:none-for-stored".into(), || format!("ancestors({}) is None although {} is stored", x.id, x.id));
                }
            }
            Some(it) => {
                let mut got: Vec<Uid> = it.map(|u| abs_uid(u.as_ref())).collect();
                got.sort();
                let want: Vec<Uid> = strict.iter().cloned().collect();
                if !model.ents.contains_key(x) {
                    note(bad, "ancestors:some-for-absent".into(), || format!("ancestors({}) is Some although {} is not stored", x.id, x.id));
                } else if got != want {
                    let gs: BTreeSet<Uid> = got.iter().cloned().collect();
                    let k = if gs.len() != got.len() {
                        "duplicate"
                    } else if gs.difference(&strict).next().is_some() {
                        "spurious"
                    } else {
                        "missing"
                    };
                    note(bad, format!("ancestors:{k}"), || format!("ancestors({}) = [{}], reachable set {}", x.id, got.iter().map(show_uid).collect::<Vec<_>>().join(","), show_set(&strict)));
                }
            }
        }
        for (yi, y) in w.q_uids.iter().enumerate() {
            let want = reach.contains(y); // y == x or y reachable from x
            calls += 1;
            let got = real.is_ancestor_of(&w.q_cuids[yi], &w.q_cuids[xi]);
            if got != want {
                let stored = if model.ents.contains_key(x) { "stored" } else { "not stored" };
                let k = if xi == yi {
                    "reflexive"
                } else if got {
                    "spurious"
                } else {
                    "missing"
                };
                note(bad, format!("is_ancestor_of:{k}"), || format!("is_ancestor_of(a={}, b={}) = {got}, but `{} in {}` must be {want} ({} is {stored})", y.id, x.id, x.id, y.id, x.id));
            }
            if with_auth {
                calls += 1;
                let resp = w.auth.is_authorized(&w.reqs[xi], &w.psets[yi], real);
                let allow = resp.decision() == cedar_policy::Decision::Allow;
                let nerr = resp.diagnostics().errors().count();
                if nerr != 0 {
                    note(bad, "in:error".into(), || format!("`permit(principal in {})` with principal {} raised an evaluation error", y.id, x.id));
                } else if allow != want {
                    let k = if xi == yi {
                        "reflexive"
                    } else if allow {
                        "spurious"
                    } else {
                        "missing"
                    };
                    note(bad, format!("in:{k}"), || format!("`{} in {}` through the Authorizer is {allow}, reachability says {want}", x.id, y.id));
                }
            }
        }
    }
    calls
}

/// "other route": the history-built store must equal `from_entities` of the model's entity list,
/// in both insertion orders (deep_eq both ways and identical canonical form)
fn check_other_route(w: &World, real: &cedar_policy::Entities, canon: &Canon, model: &Store, bad: &mut Bad) -> u64 {
    let specs = model_specs(model);
    let mut calls = 0;
    for rev in [false, true] {
        let mut list: Vec<cedar_policy::Entity> = specs.iter().map(|s| w.entity(s)).collect();
        if rev {
            list.reverse();
        }
        calls += 1;
        match cedar_policy::Entities::from_entities(list, None) {
            Err(e) => bad.push(("other-route:from_entities-err".into(), format!("from_entities of the (acyclic) model store {} failed: {e}", model_json(model)))),
            Ok(b) => {
                if !real.deep_eq(&b) || !b.deep_eq(real) {
                    bad.push(("other-route:deep_eq".into(), format!("history-built store is not deep_eq to from_entities of {}", model_json(model))));
                }
                match readback(&b) {
                    Ok(cb) if &cb == canon => {}
                    Ok(cb) => bad.push(("other-route:canon".into(), format!("history-built store reads back {} but from_entities of the same records reads back {}", canon_json(canon), canon_json(&cb)))),
                    Err(m) => bad.push(("other-route:canon".into(), m)),
                }
            }
        }
    }
    calls
}

/// checks made once per distinct state (all are functions of the store contents only)
fn state_checks(w: &World, real: &cedar_policy::Entities, canon: &Canon, model: &Store, bad: &mut Bad) -> u64 {
    let mut calls = check_queries(w, real, model, true, bad);
    calls += check_other_route(w, real, canon, model, bad);
    calls
}

pub struct StepOut {
    bad: Bad,
    class: String,
    nontrivial: bool,
    /// Some(..) iff the implementation accepted the op
    next: Option<(Store, Canon, cedar_policy::Entities, bool)>,
    query_calls: u64,
}

/// one transition: model and implementation stepped together, result compared
fn step(w: &World, model: &Store, real: &cedar_policy::Entities, op: &Op) -> StepOut {
    let site = op.site();
    let pred = model_step(model, op);
    let res = impl_step(real.clone(), op, w);
    let mut bad = Bad::new();
    let kind = op.kind();
    match res {
        Err(e) => {
            let class;
            if pred.unpredicted {
                class = format!("{kind}:re-add:err-{}", err_class(&e));
            } else if pred.next.has_cycle() {
                class = format!("{kind}:cycle:err-{}", err_class(&e));
            } else {
                class = format!("{kind}:UNEXPECTED-err-{}", err_class(&e));
                bad.push((format!("{site}:unexpected-err"), format!("{} on store {} was rejected ({e}) although the resulting parent graph {} is acyclic", op.to_json(), model_json(model), model_json(&pred.next))));
            }
            StepOut { bad, class, nontrivial: true, next: None, query_calls: 0 }
        }
        Ok(new) => {
            let mut diverged = false;
            if pred.next.has_cycle() {
                diverged = true;
                bad.push((format!("{site}:cycle-accepted"), format!("{} on store {} was accepted although the resulting parent graph {} has a cycle", op.to_json(), model_json(model), model_json(&pred.next))));
            }
            let canon = match readback(&new) {
                Ok(c) => c,
                Err(m) => {
                    bad.push((format!("{site}:readback:malformed"), m));
                    return StepOut { bad, class: format!("{kind}:malformed"), nontrivial: true, next: None, query_calls: 0 };
                }
            };
            let before = bad.len();
            conformance(&site, &canon, &pred.next, &mut bad);
            if bad.len() > before {
                diverged = true;
            }
            let mut query_calls = 0;
            if !diverged {
                query_calls = check_queries(w, &new, &pred.next, false, &mut bad);
            }
            let changed = pred.next != *model;
            let class = format!("{kind}:{}ok-{}", if pred.unpredicted { "re-add:" } else { "" }, if changed { "changed" } else { "noop" });
            StepOut { bad, class, nontrivial: changed, next: Some((pred.next, canon, new, diverged)), query_calls }
        }
    }
}

/// Replay of a whole history from the empty store, with the per-transition and the per-state
/// checks after every step. Used by `--replay` and by the shrinker.
fn run_history(w: &World, ops: &[Op], verbose: bool) -> Bad {
    let mut all = Bad::new();
    let r = catch_unwind(AssertUnwindSafe(|| {
        let mut bad = Bad::new();
        let mut model = Store::default();
        let mut real = cedar_policy::Entities::empty();
        let mut canon = Canon::new();
        state_checks(w, &real, &canon, &model, &mut bad);
        for op in ops {
            let out = step(w, &model, &real, op);
            if verbose {
                println!("  {} -> {}", op.to_json(), out.class);
            }
            bad.extend(out.bad);
            if let Some((m, c, r, diverged)) = out.next {
                model = m;
                canon = c;
                real = r;
                if verbose {
                    println!("     implementation: {}", canon_json(&canon));
                    println!("     model:          {}", model_json(&model));
                }
                if diverged {
                    break;
                }
                state_checks(w, &real, &canon, &model, &mut bad);
            }
        }
        bad
    }));
    match r {
        Ok(b) => all.extend(b),
        Err(p) => all.push(("panic:C04 history".into(), format!("panic: {}", panic_msg(&p)))),
    }
    all
}

fn fails_with(w: &World, ops: &[Op], fp: &str) -> bool {
    run_history(w, ops, false).iter().any(|(f, _)| f == fp || (fp.starts_with("panic:") && f.starts_with("panic:")))
}

/// greedy minimisation: drop ops, split batches, drop parent edges, while the same fingerprint
/// is still reported
fn shrink(w: &World, mut ops: Vec<Op>, fp: &str) -> Vec<Op> {
    if !fails_with(w, &ops, fp) {
        return ops;
    }
    loop {
        let mut cands: Vec<Vec<Op>> = Vec::new();
        for i in 0..ops.len() {
            let mut c = ops.clone();
            c.remove(i);
            cands.push(c);
        }
        for i in 0..ops.len() {
            let n = ops[i].len();
            if n > 1 {
                for k in 0..n {
                    let mut c = ops.clone();
                    match &mut c[i] {
                        Op::From(b) | Op::Add(b) | Op::Upsert(b) => {
                            b.remove(k);
                        }
                        Op::Remove(b) => {
                            b.remove(k);
                        }
                    }
                    cands.push(c);
                }
            }
        }
        for i in 0..ops.len() {
            if let Op::From(b) | Op::Add(b) | Op::Upsert(b) = &ops[i] {
                for k in 0..b.len() {
                    for bit in 0..NAMES.len() {
                        if b[k].parents & (1 << bit) != 0 {
                            let mut c = ops.clone();
                            if let Op::From(b) | Op::Add(b) | Op::Upsert(b) = &mut c[i] {
                                b[k].parents &= !(1 << bit);
                            }
                            cands.push(c);
                        }
                    }
                }
            }
        }
        match cands.into_iter().find(|c| fails_with(w, c, fp)) {
            Some(c) => ops = c,
            None => return ops,
        }
    }
}

/// replay document for a failing history: minimised, with the messages the minimised history
/// produces for this fingerprint (the first of them becomes the reported `what`)
fn minimised(w: &World, ops: &[Op], fp: &str, what: String) -> (J, String) {
    let small = shrink(w, ops.to_vec(), fp);
    let after: Vec<String> = run_history(w, &small, false).into_iter().filter(|(f, _)| f == fp).map(|(_, m)| m).collect();
    let mut j = history_json(w.cfg, &small);
    j["found_as"] = json!(ops.iter().map(Op::to_json).collect::<Vec<_>>());
    j["mismatches_after_minimised_history"] = json!(after);
    let what = after.first().cloned().unwrap_or(what);
    (j, what)
}

fn history_json(cfg: Cfg, ops: &[Op]) -> J {
    json!({"kind": "history", "universe": cfg.json(), "start": "Entities::empty()", "ops": ops.iter().map(Op::to_json).collect::<Vec<_>>()})
}

// ---------------------------------------------------------------------------------------------
// part 1: the stateright model
// ---------------------------------------------------------------------------------------------

pub struct Shared {
    ctx: Ctx,
    seen: RwLock<HashSet<String>>,
    repeats: AtomicU64,
    shards: Vec<Mutex<Local>>,
    query_calls: AtomicU64,
    states_checked: AtomicU64,
}

static NEXT_SHARD: AtomicUsize = AtomicUsize::new(0);
thread_local! {
    static SHARD: usize = NEXT_SHARD.fetch_add(1, Ordering::Relaxed);
}

impl Shared {
    fn new(ctx: Ctx) -> Shared {
        Shared { ctx, seen: RwLock::new(HashSet::new()), repeats: AtomicU64::new(0), shards: (0..64).map(|_| Mutex::new(Local::default())).collect(), query_calls: AtomicU64::new(0), states_checked: AtomicU64::new(0) }
    }
    /// report a mismatch; the replay document is built (and the history minimised) only for the
    /// first occurrence of a fingerprint, later occurrences are only counted
    fn report(&self, fp: String, what: String, mk: impl FnOnce(String) -> (J, String)) {
        if self.seen.read().unwrap().contains(&fp) {
            self.repeats.fetch_add(1, Ordering::Relaxed);
            return;
        }
        let mut s = self.seen.write().unwrap();
        if s.insert(fp.clone()) {
            let (j, what) = mk(what);
            self.ctx.violation(fp, what, j);
        } else {
            self.repeats.fetch_add(1, Ordering::Relaxed);
        }
    }
    fn local<T>(&self, f: impl FnOnce(&mut Local) -> T) -> T {
        let i = SHARD.with(|s| *s) % self.shards.len();
        f(&mut self.shards[i].lock().unwrap())
    }
    fn flush(&self) {
        for s in &self.shards {
            let l = std::mem::take(&mut *s.lock().unwrap());
            self.ctx.merge(l);
        }
    }
}

#[derive(Clone)]
pub struct St {
    model: Store,
    canon: Canon,
    diverged: bool,
    // payload, a function of the history that first reached this canonical state; not hashed
    real: cedar_policy::Entities,
    hist: Vec<u32>,
}

impl Hash for St {
    fn hash<H: Hasher>(&self, h: &mut H) {
        self.model.hash(h);
        self.canon.hash(h);
        self.diverged.hash(h);
    }
}

impl PartialEq for St {
    fn eq(&self, o: &Self) -> bool {
        self.model == o.model && self.canon == o.canon && self.diverged == o.diverged
    }
}

pub struct Mc {
    w: Arc<World>,
    ops: Arc<Vec<Op>>,
    /// visiting order of the ops (rotated by VERIF_SEED)
    order: Vec<u32>,
    sh: Arc<Shared>,
}

impl Mc {
    fn hist_ops(&self, hist: &[u32]) -> Vec<Op> {
        hist.iter().map(|i| self.ops[*i as usize].clone()).collect()
    }
    fn report_hist(&self, fp: String, what: String, hist: &[u32]) {
        let fp2 = fp.clone();
        self.sh.report(fp, what, |what| minimised(&self.w, &self.hist_ops(hist), &fp2, what));
    }
}

impl Model for Mc {
    type State = St;
    type Action = u32;

    fn init_states(&self) -> Vec<St> {
        vec![St { model: Store::default(), canon: Canon::new(), diverged: false, real: cedar_policy::Entities::empty(), hist: vec![] }]
    }

    fn actions(&self, s: &St, out: &mut Vec<u32>) {
        if s.diverged {
            return;
        }
        // `from_entities` takes no store: the call is the same in every state, so it is enabled
        // where a history starts and whenever the store is empty again
        let empty = s.model.ents.is_empty();
        for i in &self.order {
            if matches!(self.ops[*i as usize], Op::From(_)) && !empty {
                continue;
            }
            out.push(*i);
        }
    }

    fn next_state(&self, s: &St, a: u32) -> Option<St> {
        let op = &self.ops[a as usize];
        let mut hist = s.hist.clone();
        hist.push(a);
        let out = self.sh.ctx.guard("C04 transition", || history_json(self.w.cfg, &self.hist_ops(&hist)), || step(&self.w, &s.model, &s.real, op))?;
        let key = hash_of(&(&s.model, a));
        self.sh.local(|l| {
            l.case(key, &out.class, out.nontrivial);
            l.transitions += 1;
        });
        self.sh.query_calls.fetch_add(out.query_calls, Ordering::Relaxed);
        for (fp, what) in out.bad {
            self.report_hist(fp, what, &hist);
        }
        let (model, canon, real, diverged) = out.next?;
        Some(St { model, canon, diverged, real, hist })
    }

    fn properties(&self) -> Vec<Property<Self>> {
        vec![Property::always("store read back from the implementation = model; membership = reachability", |m: &Mc, s: &St| {
            if s.diverged {
                return false;
            }
            let mut bad = Bad::new();
            let r = m.sh.ctx.guard("C04 state queries", || history_json(m.w.cfg, &m.hist_ops(&s.hist)), || state_checks(&m.w, &s.real, &s.canon, &s.model, &mut bad));
            m.sh.states_checked.fetch_add(1, Ordering::Relaxed);
            if let Some(c) = r {
                m.sh.query_calls.fetch_add(c, Ordering::Relaxed);
            }
            for (fp, what) in bad {
                m.report_hist(fp, what, &s.hist);
            }
            true
        })]
    }
}

/// number of acyclic stores over n uids (every stored subset, parents anywhere in the universe),
/// counted by brute force: the BFS must reach exactly these
fn count_acyclic_stores(cfg: Cfg) -> u64 {
    all_graphs(cfg)
        .iter()
        .filter(|g| {
            let mut s = Store::default();
            for sp in g.iter() {
                s.ents.insert(uid(sp.u as usize), ent_of(sp.parents));
            }
            !s.has_cycle()
        })
        .count() as u64
}

/// every parent graph: every stored subset x every assignment of a parent set to each member
fn all_graphs(cfg: Cfg) -> Vec<Vec<Spec>> {
    let n = cfg.n;
    let masks = cfg.masks();
    let mut graphs: Vec<Vec<Spec>> = Vec::new();
    for stored in 0..(1u32 << n) {
        let members: Vec<usize> = (0..n).filter(|i| stored & (1 << i) != 0).collect();
        let combos = (masks.len() as u64).pow(members.len() as u32);
        for c in 0..combos {
            let mut rest = c;
            let mut g = Vec::new();
            for u in &members {
                g.push(Spec { u: *u as u8, parents: masks[(rest % masks.len() as u64) as usize] });
                rest /= masks.len() as u64;
            }
            graphs.push(g);
        }
    }
    graphs
}

// ---------------------------------------------------------------------------------------------
// part 2: from_entities on every parent graph, every insertion order
// ---------------------------------------------------------------------------------------------

fn from_sweep(sh: &Shared, w: &World) {
    let cfg = w.cfg;
    let graphs = all_graphs(w.cfg);
    let total = graphs.len();
    sh.ctx.set_info("from_entities_sweep_graphs", json!(total));
    graphs.par_chunks(64).for_each(|chunk| {
        let mut l = Local::default();
        let mut qc = 0u64;
        for g in chunk {
            for (pi, perm) in permutations(g.len()).into_iter().enumerate() {
                let batch: Vec<Spec> = perm.iter().map(|i| g[*i]).collect();
                let op = Op::From(batch);
                let empty = cedar_policy::Entities::empty();
                let Some(out) = sh.ctx.guard("C04 from_entities sweep", || history_json(cfg, &[op.clone()]), || step(w, &Store::default(), &empty, &op)) else { continue };
                l.case(hash_of(&op), &format!("sweep:{}", out.class), !g.is_empty());
                l.transitions += 1;
                qc += out.query_calls;
                let mut bad = out.bad;
                // the Authorizer route once per graph (first insertion order)
                if let (0, Some((m, c, r, false))) = (pi, &out.next) {
                    let got = sh.ctx.guard("C04 from_entities sweep queries", || history_json(cfg, &[op.clone()]), || {
                        let mut b = Bad::new();
                        let k = check_queries(w, r, m, true, &mut b);
                        let _ = c;
                        (b, k)
                    });
                    if let Some((b, k)) = got {
                        qc += k;
                        bad.extend(b);
                    }
                }
                for (fp, what) in bad {
                    let fp2 = fp.clone();
                    let ops = vec![op.clone()];
                    sh.report(fp, what, |what| minimised(w, &ops, &fp2, what));
                }
            }
        }
        sh.query_calls.fetch_add(qc, Ordering::Relaxed);
        sh.ctx.merge(l);
    });
}

// ---------------------------------------------------------------------------------------------
// part 3: core-level TCComputation::EnforceAlreadyComputed on hand-built stores (N = 3)
// ---------------------------------------------------------------------------------------------

/// edges i -> j as (i, j): the 6 proper edges first, then the 3 self edges
fn enforce_edges(with_self: bool) -> Vec<(usize, usize)> {
    let mut v = Vec::new();
    for i in 0..3 {
        for j in 0..3 {
            if i != j {
                v.push((i, j));
            }
        }
    }
    if with_self {
        for i in 0..3 {
            v.push((i, i));
        }
    }
    v
}

fn enforce_case(edges: &[(usize, usize)], pmask: u32, imask: u32) -> Bad {
    use cedar_policy_core::entities::{Entities as CoreEntities, NoEntitiesSchema, TCComputation};
    let mut bad = Bad::new();
    let cu: Vec<ast::EntityUID> = (0..3).map(|i| core_uid(&uid(i))).collect();
    let mut ents = Vec::new();
    for i in 0..3 {
        let pick = |mask: u32| -> HashSet<ast::EntityUID> { edges.iter().enumerate().filter(|(k, (a, _))| *a == i && mask & (1 << k) != 0).map(|(_, (_, b))| cu[*b].clone()).collect() };
        let none = || std::iter::empty::<(smol_str::SmolStr, ast::PartialValue)>();
        ents.push(ast::Entity::new_with_attr_partial_value(cu[i].clone(), none(), pick(imask), pick(pmask), none()));
    }
    let res = CoreEntities::from_entities(ents, None::<&NoEntitiesSchema>, TCComputation::EnforceAlreadyComputed, cedar_policy_core::extensions::Extensions::all_available());
    // the hand-built edge relation: direct or claimed-indirect
    let mut e = [[false; 3]; 3];
    for (k, (a, b)) in edges.iter().enumerate() {
        if (pmask | imask) & (1 << k) != 0 {
            e[*a][*b] = true;
        }
    }
    let mut closed = true;
    for u in 0..3 {
        for v in 0..3 {
            for x in 0..3 {
                if e[u][v] && e[v][x] && !e[u][x] {
                    closed = false;
                }
            }
        }
    }
    // acyclic: no node reaches itself (Warshall on a copy)
    let mut r = e;
    for k in 0..3 {
        for u in 0..3 {
            for v in 0..3 {
                if r[u][k] && r[k][v] {
                    r[u][v] = true;
                }
            }
        }
    }
    let acyclic = (0..3).all(|u| !r[u][u]);
    let desc = || {
        let names = |mask: u32| edges.iter().enumerate().filter(|(k, _)| mask & (1 << k) != 0).map(|(_, (a, b))| format!("{}->{}", NAMES[*a], NAMES[*b])).collect::<Vec<_>>().join(" ");
        format!("parents [{}] indirect [{}]", names(pmask), names(imask))
    };
    match res {
        Ok(store) => {
            if !closed {
                bad.push(("enforce:accepted-not-closed".into(), format!("EnforceAlreadyComputed accepted a store that is not transitively closed: {}", desc())));
            }
            if !acyclic {
                bad.push(("enforce:accepted-cyclic".into(), format!("EnforceAlreadyComputed accepted a cyclic store: {}", desc())));
            }
            // what was accepted answers membership by the given edges
            for u in 0..3 {
                if let cedar_policy_core::entities::Dereference::Data(ent) = store.entity(&cu[u]) {
                    for v in 0..3 {
                        if ent.is_descendant_of(&cu[v]) != e[u][v] {
                            bad.push(("enforce:edges-changed".into(), format!("accepted store answers {} descendant of {} = {}, given {}", NAMES[u], NAMES[v], !e[u][v], desc())));
                        }
                    }
                } else {
                    bad.push(("enforce:entity-lost".into(), format!("accepted store lacks {}: {}", NAMES[u], desc())));
                }
            }
        }
        Err(err) => {
            if closed && acyclic {
                bad.push(("enforce:rejected-valid".into(), format!("EnforceAlreadyComputed rejected a transitively closed acyclic store ({err}): {}", desc())));
            }
        }
    }
    bad
}

fn enforce_class(edges: &[(usize, usize)], pmask: u32, imask: u32) -> (&'static str, bool) {
    // class from the oracle side only (recomputed cheaply)
    let mut e = [[false; 3]; 3];
    for (k, (a, b)) in edges.iter().enumerate() {
        if (pmask | imask) & (1 << k) != 0 {
            e[*a][*b] = true;
        }
    }
    let mut closed = true;
    for u in 0..3 {
        for v in 0..3 {
            for x in 0..3 {
                if e[u][v] && e[v][x] && !e[u][x] {
                    closed = false;
                }
            }
        }
    }
    let selfloop = (0..3).any(|u| e[u][u]);
    let class = match (closed, selfloop) {
        (true, false) => "enforce:closed-acyclic",
        (true, true) => "enforce:closed-cyclic",
        (false, _) => "enforce:not-closed",
    };
    (class, (pmask | imask) != 0)
}

fn enforce_sweep(sh: &Shared) {
    let edges = enforce_edges(true);
    let k = edges.len();
    sh.ctx.set_info("enforce_edge_bits", json!(k));
    (0..(1u32 << k)).into_par_iter().for_each(|pmask| {
        let mut l = Local::default();
        for imask in 0..(1u32 << k) {
            let case = || json!({"kind": "enforce", "with_self_edges": k == 9, "pmask": pmask, "imask": imask});
            let (class, nontrivial) = enforce_class(&edges, pmask, imask);
            l.case(hash_of(&("enforce", pmask, imask)), class, nontrivial);
            l.transitions += 1;
            if let Some(bad) = sh.ctx.guard("C04 enforce", case, || enforce_case(&edges, pmask, imask)) {
                for (fp, what) in bad {
                    sh.report(fp, what, |what| (case(), what));
                }
            }
        }
        sh.ctx.merge(l);
    });
}

// ---------------------------------------------------------------------------------------------
// replay
// ---------------------------------------------------------------------------------------------

fn replay(path: &str) -> i32 {
    let doc: J = match std::fs::read_to_string(path).ok().and_then(|s| serde_json::from_str(&s).ok()) {
        Some(d) => d,
        None => {
            eprintln!("cannot read replay file {path}");
            return 2;
        }
    };
    if doc["property"].as_str() != Some("C04") {
        eprintln!("replay file is not a C04 case");
        return 2;
    }
    let fp = doc["fingerprint"].as_str().unwrap_or("").to_string();
    let case = &doc["case"];
    quiet_panics();
    let bad: Bad = match case["kind"].as_str() {
        Some("history") => {
            let n = case["universe"]["n"].as_u64().unwrap_or(3) as usize;
            let extra = case["universe"]["extra_dangling_parent"].as_bool().unwrap_or(false);
            let Some(ops) = case["ops"].as_array().and_then(|a| a.iter().map(Op::from_json).collect::<Option<Vec<Op>>>()) else {
                eprintln!("replay file holds no readable history");
                return 2;
            };
            if !(1..=4).contains(&n) {
                eprintln!("bad universe size in replay file");
                return 2;
            }
            println!("replaying history over {n} storable uids{} (+ query-only {GHOST}), starting from Entities::empty():", if extra { " + dangling-only parent P" } else { "" });
            let w = World::new(Cfg { n, extra });
            run_history(&w, &ops, true)
        }
        Some("enforce") => {
            let edges = enforce_edges(case["with_self_edges"].as_bool().unwrap_or(false));
            let (Some(p), Some(i)) = (case["pmask"].as_u64(), case["imask"].as_u64()) else {
                eprintln!("replay file holds no enforce case");
                return 2;
            };
            println!("replaying EnforceAlreadyComputed case pmask={p} imask={i}");
            match catch_unwind(AssertUnwindSafe(|| enforce_case(&edges, p as u32, i as u32))) {
                Ok(b) => b,
                Err(p) => vec![("panic:C04 enforce".into(), panic_msg(&p))],
            }
        }
        _ => {
            eprintln!("replay file holds no C04 case (kind={})", case["kind"]);
            return 2;
        }
    };
    let mut hit = false;
    for (f, what) in &bad {
        let same = *f == fp || (fp.starts_with("panic:") && f.starts_with("panic:"));
        println!("  [{f}]{} {what}", if same { " <== recorded fingerprint" } else { "" });
        hit |= same;
    }
    if hit {
        println!("VIOLATION property=C04 replay={path}");
        1
    } else {
        println!("recorded mismatch [{fp}] not reproduced");
        0
    }
}

// ---------------------------------------------------------------------------------------------
// entry point
// ---------------------------------------------------------------------------------------------

pub fn run(tier: Tier, replay_file: Option<&str>) -> i32 {
    if let Some(p) = replay_file {
        return replay(p);
    }
    quiet_panics();
    // quick: 3 storable uids + one dangling-only parent (plays the part of an absent 4th uid, so
    // that "an ancestor of the replaced/removed entity" exists below a 3-chain); thorough: 4 uids
    let cfg = tier.pick(Cfg { n: 3, extra: true }, Cfg { n: 4, extra: false });
    let n = cfg.n;
    let ctx = Ctx::new("C04", tier);
    let seed = ctx.seed;
    let sh = Arc::new(Shared::new(ctx));
    let w = Arc::new(World::new(cfg));
    let ops = Arc::new(all_ops(cfg));
    let mut order: Vec<u32> = (0..ops.len() as u32).collect();
    let rot = (seed % ops.len() as u64) as usize;
    order.rotate_left(rot);

    sh.ctx.set_info("ops_in_alphabet", json!(ops.len()));
    sh.ctx.sample(ops[0].to_json());
    sh.ctx.sample(ops[ops.len() / 3 + 7].to_json());
    sh.ctx.sample(ops[ops.len() / 2 + 11].to_json());
    sh.ctx.sample(ops[ops.len() - 1].to_json());

    // part 1: BFS
    let threads = std::thread::available_parallelism().map(|x| x.get()).unwrap_or(4).min(16);
    let model = Mc { w: w.clone(), ops: ops.clone(), order, sh: sh.clone() };
    let checker = model.checker().threads(threads).spawn_bfs().join();
    let unique = checker.unique_state_count() as u64;
    let generated = checker.state_count() as u64;
    let depth = checker.max_depth() as u64;
    let done = checker.is_done();
    let stopped_early = !checker.discoveries().is_empty();
    drop(checker);
    sh.flush();
    let bfs_transitions = sh.ctx.transitions.load(Ordering::Relaxed);
    sh.ctx.states.store(unique, Ordering::Relaxed);
    sh.ctx.max_depth.store(depth, Ordering::Relaxed);
    let expected_states = count_acyclic_stores(cfg);
    sh.ctx.set_info(
        "bfs",
        json!({"unique_states": unique, "states_generated_incl_repeats": generated, "transitions": bfs_transitions, "max_depth": depth, "threads": threads,
               "expected_states_all_acyclic_stores": expected_states, "states_with_full_query_check": sh.states_checked.load(Ordering::Relaxed), "stopped_at_divergence": stopped_early}),
    );
    if !done {
        sh.ctx.cap_hit("BFS did not finish");
    }

    // part 2 and 3
    if !stopped_early {
        from_sweep(&sh, &w);
        enforce_sweep(&sh);
    }
    sh.ctx.set_info("query_calls_compared", json!(sh.query_calls.load(Ordering::Relaxed)));
    sh.ctx.set_info("repeat_occurrences_of_reported_fingerprints", json!(sh.repeats.load(Ordering::Relaxed)));

    let clean = sh.ctx.violation_seen() == 0;
    let Ok(shared) = Arc::try_unwrap(sh) else {
        eprintln!("MACHINERY ERROR: exploration context still shared after the checker finished");
        return 2;
    };
    let Shared { ctx, .. } = shared;
    if clean && unique != expected_states {
        eprintln!("MACHINERY ERROR: BFS reached {unique} states, but there are {expected_states} acyclic stores over {n} uids");
        return 2;
    }
    let code = ctx.finish(
        "case = (state, op) transition of the BFS, or one from_entities call of the all-graphs sweep, or one EnforceAlreadyComputed store; class = API entry point x oracle outcome (ok-changed / ok-noop / cycle -> err / re-add of a present uid (unpredicted) -> ok|err); non-trivial = the op changes the model store or is rejected (sweeps: the graph / edge set is not empty)",
        json!({
            "tier": tier.name(),
            "storable_uids": n,
            "dangling_only_parent_uid": if cfg.extra { J::String("P".into()) } else { J::Null },
            "query_only_uid": GHOST,
            "entity_alphabet": "storable uid x every subset of (storable uids incl. itself + dangling-only P if any) as direct parents",
            "ops": "from_entities (enabled when the store is empty), add_entities, upsert_entities with every batch of size 1 and every ORDERED batch of size 2; remove_entities with every uid and every ordered pair of uids",
            "ops_per_state": ops.len(),
            "depth": "unbounded (finite state space, BFS to fixpoint)",
            "from_entities_sweep": "every stored subset x every parent assignment (self-parents included: cycles of every length <= n) x every insertion order",
            "enforce_sweep": "3 entities, all 2^9 parent-edge sets x 2^9 claimed indirect-edge sets (the 6 proper edges and the 3 self edges)",
            "queries": "after every accepted op: ancestors(x), is_ancestor_of(y,x) for all ordered pairs over universe + Z; in every distinct state additionally `permit(principal in Y, ..)` through Authorizer for all pairs and deep_eq against from_entities of the model records in both orders",
        }),
        &[
            "the canonical form read back (uid -> direct parents, indirect ancestors; no attrs/tags) is the whole observable content of the store, so queries asked once per distinct canonical state cover every history reaching it",
            "add/from of a uid that is already present is not predicted (Err, or Ok leaving the record unchanged, are both accepted)",
            "entities with pre-populated indirect_ancestors occur only in the EnforceAlreadyComputed sweep",
            "hash-map iteration order is not enumerated (insertion orders are)",
        ],
        done && !stopped_early,
    );
    code
}
