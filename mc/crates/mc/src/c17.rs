//! C17 — entity-manifest slicing keeps everything authorization needs.
#![allow(deprecated)]
use crate::bind::*;
use crate::harness::*;
use crate::lvl::*;
use crate::schema::*;
use cedar_policy_core::ast;
use rayon::prelude::*;
use refsem::print::Style;
use serde_json::json;

pub fn run(tier: Tier, replay_file: Option<&str>) -> i32 {
    if let Some(p) = replay_file {
        return replay_by_rerun("C17", p, || run(Tier::Quick, None));
    }
    let ctx = Ctx::new("C17", tier);
    quiet_panics();
    let sch = l_schema();
    let schema = match sch.load_cedar() {
        Ok(s) => s,
        Err(e) => {
            eprintln!("MACHINERY ERROR: schema does not load: {e}");
            return 2;
        }
    };
    let st = Style::default();
    let validator = cedar_policy::Validator::new(schema.clone());
    let pols: Vec<LPol> = policies(tier);
    // per policy (and for pairs): the manifest
    struct Item {
        text: String,
        shape: String,
        pset: cedar_policy::PolicySet,
        manifest: cedar_policy::EntityManifest,
    }
    let mut groups: Vec<Vec<&LPol>> = pols.iter().map(|p| vec![p]).collect();
    // pairs: the union of needs must also be kept
    for i in (0..pols.len()).step_by(tier.pick(11, 3)) {
        groups.push(vec![&pols[i], &pols[(i * 7 + 5) % pols.len()]]);
    }
    let items: Vec<Item> = groups
        .par_iter()
        .filter_map(|g| {
            let mut l = Local::default();
            let mut set = cedar_policy::PolicySet::new();
            let mut texts = Vec::new();
            for lp in g {
                let text = lp.pol.text(&st);
                let p = cedar_policy::Policy::parse(Some(cedar_policy::PolicyId::new(&lp.pol.id)), &text).ok()?;
                if set.add(p).is_err() {
                    return None;
                }
                texts.push(text);
            }
            let text = texts.join(" ");
            if validator.validate(&set, cedar_policy::ValidationMode::Strict).validation_errors().next().is_some() {
                l.case(hash_of(&text), "not-strictly-valid", false);
                ctx.merge(l);
                return None;
            }
            l.transitions += 1;
            let res = ctx.guard("compute_entity_manifest", || json!({"policy": text}), || cedar_policy::compute_entity_manifest(&validator, &set));
            let out = match res {
                Some(Ok(m)) => {
                    l.case(hash_of(&text), "manifest", true);
                    Some(Item { text: text.clone(), shape: g[0].shape.clone(), pset: set, manifest: m })
                }
                Some(Err(e)) => {
                    // the analysis may refuse a policy (e.g. tags are unsupported): not a violation
                    l.case(hash_of(&text), "manifest-refused", false);
                    if !g.iter().any(|p| p.uses_tags) && !format!("{e}").to_lowercase().contains("unsupported") && !format!("{e}").to_lowercase().contains("not supported") {
                        ctx.set_info("manifest_refusal_example", json!(format!("{text}: {e}")));
                    }
                    None
                }
                None => None,
            };
            ctx.merge(l);
            out
        })
        .collect();
    ctx.set_info("policy_sets_with_manifest", json!(items.len()));
    ctx.set_info("policy_sets_total", json!(groups.len()));
    if items.len() * 4 < groups.len() {
        eprintln!("MACHINERY ERROR: manifests were computed for fewer than a quarter of the policy sets ({}/{})", items.len(), groups.len());
        return 2;
    }
    let stores = l_stores(tier);
    let reqs = l_requests();
    ctx.set_info("stores", json!(stores.len()));
    ctx.set_info("requests", json!(reqs.len()));
    let auth = cedar_policy::Authorizer::new();
    stores.par_iter().enumerate().for_each(|(si, s)| {
        let mut l = Local::default();
        if let Err(e) = c_entities_schema(s, &schema) {
            ctx.violation("precondition:store-rejected", format!("conformant store rejected: {e}"), json!({"store": serde_json::to_value(s).unwrap()}));
            return;
        }
        // the full store holds the action entities of the schema too (an action hierarchy exists)
        let s = &with_actions(s, &sch);
        let full = c_entities(s);
        let core_full: &cedar_policy_core::entities::Entities = full.as_ref();
        for (ri, r) in reqs.iter().enumerate() {
            let Ok(creq) = c_request_schema(r, &schema) else { continue };
            let core_req: &ast::Request = creq.as_ref();
            for (ii, it) in items.iter().enumerate() {
                l.transitions += 1;
                let sliced = ctx.guard("slice_entities", || json!({"policy": it.text, "request": format!("{r:?}")}), || it.manifest.slice_entities(core_full, core_req));
                let Some(sliced) = sliced else { continue };
                let rep = || json!({"policy": it.text, "request": format!("{r:?}"), "store": serde_json::to_value(s).unwrap()});
                match sliced {
                    Err(e) => {
                        ctx.violation(format!("slice_entities:error:{}", it.shape.split(':').skip(1).collect::<Vec<_>>().join(":")), format!("slice_entities failed on a conformant store: {e}; policy `{}`", it.text), rep());
                    }
                    Ok(sl) => {
                        let n_sl = sl.iter().count();
                        let n_full = core_full.iter().count();
                        let sl_api = cedar_policy::Entities::from(sl);
                        let a = abs_response(&auth.is_authorized(&creq, &it.pset, &full));
                        let b_ = abs_response(&auth.is_authorized(&creq, &it.pset, &sl_api));
                        l.transitions += 2;
                        l.case(hash_of(&(si, ri, ii)), if n_sl < n_full { "slice-smaller-than-store" } else { "slice-is-whole-store" }, n_sl < n_full);
                        if a != b_ {
                            ctx.violation(
                                format!("slice-insufficient:{}", it.shape.split(':').skip(1).collect::<Vec<_>>().join(":")),
                                format!("authorization differs on the manifest slice: `{}` request {r:?}: full {a:?} slice {b_:?}", it.text),
                                rep(),
                            );
                        }
                    }
                }
            }
        }
        ctx.merge(l);
    });
    for it in items.iter().step_by((items.len() / 6).max(1)) {
        ctx.sample(json!({"policy": it.text, "shape": it.shape}));
    }
    ctx.finish(
        "the C16 dereference-chain policy family (attribute chains, has-guards, in / in-set / contains over sets of entities, record literals containing entities, if-then-else producing entities; tag shapes are generated too but the analysis may refuse them) as single policies and pairs: compute_entity_manifest, then for every conformant (store, request) slice_entities and authorize on slice vs full store; case = (policy set, store, request); non-trivial = the slice is a proper subset of the store",
        json!({"tier": tier.name()}),
        &["a refusal of compute_entity_manifest is not a violation (the statement is conditional on the manifest being computed)", "stores are used only if schema-based validation accepts them"],
        true,
    )
}
