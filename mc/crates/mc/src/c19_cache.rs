//! C19 leg 6: the thread-local preparse cache behind `stateful_is_authorized`.
//!
//! Explicit-state search over call histories. Model = name -> currently registered object
//! (a failed preparse changes nothing). Every stateful answer must equal the stateless
//! `is_authorized_json` answer for the currently registered objects, and be a "not found"
//! failure naming the missing object when the name was never registered.
//!  (a) BFS to fixpoint over model states (81), every one of the 36 operations in every state;
//!      after each transition (a query included: a query must not change the cache) the whole
//!      cache is observed through all 24 stateful queries, and in every state a second thread,
//!      started while the first is still alive and holds its registrations, must see an empty
//!      cache;
//!  (b) every sequence of the 12 registering operations of length 1..=d (no pruning: includes
//!      re-registration under the same name and failed preparses in every position), each in a
//!      fresh thread, with the full observation at the end.
use super::{canon_auth, context_js, entities_js, requests, schema_w_json, uid_js, Ans, SCHEMA_2_CEDAR};
use crate::harness::*;
use crate::world::*;
use cedar_policy::ffi;
use rayon::prelude::*;
use refsem::*;
use serde::{Deserialize, Serialize};
use serde_json::{json, Value as J};
use std::collections::{HashMap, HashSet, VecDeque};
use std::sync::mpsc;

pub const NAMES: [&str; 2] = ["A", "B"];

#[derive(Clone, Copy, Debug, PartialEq, Eq, Hash, Serialize, Deserialize)]
pub enum Op {
    /// preparse_policy_set(NAMES[name], pset 0 = P1, 1 = P2, 2 = unparseable)
    PrePset { name: u8, pset: u8 },
    /// preparse_schema(NAMES[name], schema 0 = S1, 1 = S2, 2 = unparseable)
    PreSchema { name: u8, schema: u8 },
    /// stateful_is_authorized(pset name, schema name or none, request 0..4)
    Auth { pset: u8, schema: Option<u8>, req: u8 },
}

pub fn pset_doc(i: u8) -> J {
    match i {
        0 => json!({"staticPolicies": "permit(principal == User::\"a\", action, resource);"}),
        1 => json!({
            "staticPolicies": {
                "f": "forbid(principal, action, resource) when { context has n && context.n == 1 };",
                "p": "permit(principal, action, resource);",
                "e": "permit(principal, action, resource) when { context.missing };"
            },
            "templates": {"t": "permit(principal in ?principal, action, resource);"},
            "templateLinks": [{"templateId": "t", "newId": "l", "values": {"?principal": {"type": "Group", "id": "g"}}}]
        }),
        _ => json!({"staticPolicies": "permit(principal, action"}),
    }
}

pub fn schema_doc(i: u8) -> J {
    match i {
        0 => schema_w_json(),
        1 => json!(SCHEMA_2_CEDAR),
        _ => json!("entity User = { age: Long "),
    }
}

/// the 4 requests: (request, validateRequest field)
pub fn cache_requests() -> Vec<(Req, Option<bool>)> {
    let all = requests();
    let ctx = |v: Vec<(&str, Val)>| -> std::collections::BTreeMap<String, Val> { v.into_iter().map(|(k, x)| (k.to_string(), x)).collect() };
    vec![
        // valid under S1, principal type wrong under S2
        (all[0].1.clone(), None),
        // valid under both
        (all[1].1.clone(), Some(true)),
        // valid under S2 only
        (Req { principal: gg(), action: view(), resource: dd(), context: ctx(vec![("n", Val::Str("one".into()))]) }, None),
        // invalid under both, but request validation is switched off
        (all[3].1.clone(), Some(false)),
    ]
}

/// the part of store1 the cache policies look at (keeps the per-call cost low)
fn small_store() -> Store {
    let full = store1();
    let mut s = Store::default();
    for u in [ua(), gg(), gh(), dd()] {
        s.ents.insert(u.clone(), full.ents[&u].clone());
    }
    s
}

fn request_fields(m: &mut serde_json::Map<String, J>, req: u8, with_schema: bool) {
    let (r, vr) = &cache_requests()[req as usize];
    // with a schema the data is sent in schema-implicit form: the registered schema must really
    // be the one used for parsing
    m.insert("principal".into(), uid_js(&r.principal, with_schema));
    m.insert("action".into(), uid_js(&r.action, with_schema));
    m.insert("resource".into(), uid_js(&r.resource, with_schema));
    m.insert("context".into(), context_js(&r.context, with_schema));
    m.insert("entities".into(), entities_js(&small_store(), with_schema));
    if let Some(b) = vr {
        m.insert("validateRequest".into(), json!(b));
    }
}

/// the 24 stateful call documents, built once
fn stateful_call_cached(pset: u8, schema: Option<u8>, req: u8) -> J {
    static DOCS: std::sync::OnceLock<HashMap<(u8, Option<u8>, u8), J>> = std::sync::OnceLock::new();
    DOCS.get_or_init(|| {
        let mut m = HashMap::new();
        for p in 0..2u8 {
            for s in [None, Some(0u8), Some(1u8)] {
                for r in 0..4u8 {
                    m.insert((p, s, r), stateful_call(p, s, r));
                }
            }
        }
        m
    })[&(pset, schema, req)]
        .clone()
}

pub fn stateful_call(pset: u8, schema: Option<u8>, req: u8) -> J {
    let mut m = serde_json::Map::new();
    request_fields(&mut m, req, schema.is_some());
    m.insert("preparsedPolicySetId".into(), json!(NAMES[pset as usize]));
    if let Some(s) = schema {
        m.insert("preparsedSchemaName".into(), json!(NAMES[s as usize]));
    }
    J::Object(m)
}

pub fn stateless_call(pset: u8, schema: Option<u8>, req: u8) -> J {
    let mut m = serde_json::Map::new();
    request_fields(&mut m, req, schema.is_some());
    m.insert("policies".into(), pset_doc(pset));
    if let Some(s) = schema {
        m.insert("schema".into(), schema_doc(s));
    }
    J::Object(m)
}

pub fn all_ops() -> Vec<Op> {
    let mut v = mutating_ops();
    v.extend(queries());
    v
}

pub fn mutating_ops() -> Vec<Op> {
    let mut v = Vec::new();
    for name in 0..2 {
        for x in 0..3 {
            v.push(Op::PrePset { name, pset: x });
        }
    }
    for name in 0..2 {
        for x in 0..3 {
            v.push(Op::PreSchema { name, schema: x });
        }
    }
    v
}

pub fn queries() -> Vec<Op> {
    let mut v = Vec::new();
    for pset in 0..2 {
        for schema in [None, Some(0), Some(1)] {
            for req in 0..4 {
                v.push(Op::Auth { pset, schema, req });
            }
        }
    }
    v
}

/// what the implementation said
#[derive(Clone, Debug, PartialEq, Eq, Hash, Serialize, Deserialize)]
pub enum Obs {
    Preparse(bool),
    Auth(Ans),
    Broken(String),
}

/// run one operation on the CURRENT thread's cache
pub fn exec(op: &Op) -> Obs {
    let r = std::panic::catch_unwind(|| match op {
        Op::PrePset { name, pset } => match serde_json::from_value::<ffi::PolicySet>(pset_doc(*pset)) {
            Ok(p) => match ffi::preparse_policy_set(NAMES[*name as usize].to_string(), p) {
                ffi::CheckParseAnswer::Success => Obs::Preparse(true),
                ffi::CheckParseAnswer::Failure { errors } => {
                    if errors.is_empty() {
                        Obs::Broken("preparse_policy_set: failure without errors".into())
                    } else {
                        Obs::Preparse(false)
                    }
                }
            },
            Err(e) => Obs::Broken(format!("policy set document rejected: {e}")),
        },
        Op::PreSchema { name, schema } => match serde_json::from_value::<ffi::Schema>(schema_doc(*schema)) {
            Ok(s) => match ffi::preparse_schema(NAMES[*name as usize].to_string(), s) {
                ffi::CheckParseAnswer::Success => Obs::Preparse(true),
                ffi::CheckParseAnswer::Failure { errors } => {
                    if errors.is_empty() {
                        Obs::Broken("preparse_schema: failure without errors".into())
                    } else {
                        Obs::Preparse(false)
                    }
                }
            },
            Err(e) => Obs::Broken(format!("schema document rejected: {e}")),
        },
        Op::Auth { pset, schema, req } => match serde_json::from_value::<ffi::StatefulAuthorizationCall>(stateful_call_cached(*pset, *schema, *req)) {
            Ok(c) => match serde_json::to_value(ffi::stateful_is_authorized(c)) {
                Ok(v) => Obs::Auth(canon_auth(&v)),
                Err(e) => Obs::Broken(format!("answer does not serialise: {e}")),
            },
            Err(e) => Obs::Broken(format!("stateful call rejected: {e}")),
        },
    });
    r.unwrap_or_else(|p| Obs::Broken(format!("panic: {}", panic_msg(&p))))
}

// ---------------- model ----------------

#[derive(Clone, Copy, Debug, PartialEq, Eq, Hash, Default, PartialOrd, Ord)]
pub struct Model {
    pub psets: [Option<u8>; 2],
    pub schemas: [Option<u8>; 2],
}

#[derive(Clone, Debug, PartialEq, Eq)]
pub enum Expect {
    Preparse(bool),
    /// stateless answer for (pset, schema, request)
    Stateless(u8, Option<u8>, u8),
    /// names of the objects that were never registered
    NotFound(Vec<String>),
}

impl Model {
    pub fn step(&self, op: &Op) -> (Model, Expect) {
        let mut m = *self;
        match op {
            Op::PrePset { name, pset } => {
                let ok = *pset != 2;
                if ok {
                    m.psets[*name as usize] = Some(*pset);
                }
                (m, Expect::Preparse(ok))
            }
            Op::PreSchema { name, schema } => {
                let ok = *schema != 2;
                if ok {
                    m.schemas[*name as usize] = Some(*schema);
                }
                (m, Expect::Preparse(ok))
            }
            Op::Auth { pset, schema, req } => {
                let mut missing = Vec::new();
                let p = self.psets[*pset as usize];
                if p.is_none() {
                    missing.push(format!("policy set '{}'", NAMES[*pset as usize]));
                }
                let s = match schema {
                    None => None,
                    Some(n) => {
                        let s = self.schemas[*n as usize];
                        if s.is_none() {
                            missing.push(format!("schema '{}'", NAMES[*n as usize]));
                        }
                        s
                    }
                };
                if missing.is_empty() {
                    (m, Expect::Stateless(p.unwrap(), s, *req))
                } else {
                    (m, Expect::NotFound(missing))
                }
            }
        }
    }
}

/// the stateless answers: [pset 0..2][schema none,0,1][req 0..4], computed once on the caller's thread
pub struct Table(HashMap<(u8, Option<u8>, u8), Ans>);

pub fn stateless_table() -> Result<Table, String> {
    let mut t = HashMap::new();
    for p in 0..2u8 {
        for s in [None, Some(0u8), Some(1u8)] {
            for r in 0..4u8 {
                let v = ffi::is_authorized_json(stateless_call(p, s, r)).map_err(|e| format!("stateless call rejected: {e}"))?;
                let a = canon_auth(&v);
                if let Ans::Malformed(m) = &a {
                    return Err(format!("stateless answer malformed: {m}"));
                }
                t.insert((p, s, r), a);
            }
        }
    }
    Ok(Table(t))
}

/// None = agrees; Some(description) otherwise
pub fn judge(exp: &Expect, obs: &Obs, table: &Table) -> Option<(&'static str, String)> {
    match (exp, obs) {
        (_, Obs::Broken(m)) => Some(("broken", m.clone())),
        (Expect::Preparse(a), Obs::Preparse(b)) => {
            if a == b {
                None
            } else {
                Some(("preparse-verdict", format!("preparse should {} but the answer is {}", if *a { "succeed" } else { "fail" }, if *b { "success" } else { "failure" })))
            }
        }
        (Expect::Stateless(p, s, r), Obs::Auth(a)) => {
            let want = &table.0[&(*p, *s, *r)];
            if want == a {
                None
            } else {
                Some(("stale-or-wrong-object", format!("registered policy set P{} / schema {:?}: stateless answer {want:?}, stateful answer {a:?}", p + 1, s.map(|x| format!("S{}", x + 1)))))
            }
        }
        (Expect::NotFound(names), Obs::Auth(a)) => match a {
            Ans::Failure(msgs) => {
                let unmentioned: Vec<&String> = names.iter().filter(|n| !msgs.iter().any(|m| m.contains("not found") && m.contains(n.as_str()))).collect();
                if unmentioned.is_empty() {
                    None
                } else {
                    Some(("not-found-message", format!("never registered: {names:?}; failure does not say so: {msgs:?}")))
                }
            }
            other => Some(("answers-for-unregistered-name", format!("never registered: {names:?}; but the stateful call answers {other:?}"))),
        },
        (e, o) => Some(("kind", format!("expected {e:?}, observed {o:?}"))),
    }
}

fn observe_all() -> Vec<Obs> {
    queries().iter().map(exec).collect()
}

fn judge_observation(m: &Model, obs: &[Obs], table: &Table, when: &str) -> Vec<(String, String)> {
    let mut bad = Vec::new();
    for (q, o) in queries().iter().zip(obs) {
        let (_, exp) = m.step(q);
        if let Some((k, what)) = judge(&exp, o, table) {
            bad.push((format!("cache:{k}:{when}"), format!("model {m:?}, query {q:?}: {what}")));
        }
    }
    bad
}

/// Run `history` in a fresh thread. Returns the result of every op and the full observation
/// at the end; when `second` is set, a second fresh thread observes the cache while the first
/// one is still alive.
fn run_history(history: Vec<Op>, second: bool) -> Result<(Vec<Obs>, Vec<Obs>, Option<Vec<Obs>>), String> {
    let (tx, rx) = mpsc::channel();
    let (tx_release, rx_release) = mpsc::channel::<()>();
    let h = std::thread::Builder::new()
        .name("c19-cache-history".into())
        .spawn(move || {
            let res: Vec<Obs> = history.iter().map(exec).collect();
            let obs = observe_all();
            let _ = tx.send((res, obs));
            let _ = rx_release.recv();
        })
        .map_err(|e| format!("cannot spawn thread: {e}"))?;
    let (res, obs) = rx.recv().map_err(|e| format!("history thread died: {e}"))?;
    let other = if second {
        let h2 = std::thread::Builder::new().name("c19-cache-second".into()).spawn(observe_all).map_err(|e| format!("cannot spawn thread: {e}"))?;
        Some(h2.join().map_err(|_| "second thread panicked".to_string())?)
    } else {
        None
    };
    let _ = tx_release.send(());
    h.join().map_err(|_| "history thread panicked".to_string())?;
    Ok((res, obs, other))
}

/// Run `history` in a fresh thread, then every query, each followed by the full observation
/// (a query must not change the cache).
fn run_queries(history: Vec<Op>) -> Result<(Vec<Obs>, Vec<(Obs, Vec<Obs>)>), String> {
    let h = std::thread::Builder::new()
        .name("c19-cache-queries".into())
        .spawn(move || {
            let res: Vec<Obs> = history.iter().map(exec).collect();
            let qs: Vec<(Obs, Vec<Obs>)> = queries().iter().map(|q| (exec(q), observe_all())).collect();
            (res, qs)
        })
        .map_err(|e| format!("cannot spawn thread: {e}"))?;
    h.join().map_err(|_| "query thread panicked".to_string())
}

/// every query in the state reached by `history` (which the model says is `m`)
fn check_queries(history: &[Op], m: &Model, table: &Table) -> Result<Vec<(Vec<Op>, String, String)>, String> {
    let (res, qs) = run_queries(history.to_vec())?;
    let mut bad = Vec::new();
    let mut mm = Model::default();
    for (i, (op, o)) in history.iter().zip(&res).enumerate() {
        let (m2, exp) = mm.step(op);
        if let Some((k, what)) = judge(&exp, o, table) {
            bad.push((history.to_vec(), format!("cache:{k}:bfs:{}", op_kind(op)), format!("history {history:?}, step {i} ({op:?}) from model {mm:?}: {what}")));
        }
        mm = m2;
    }
    for (q, (o, after)) in queries().iter().zip(&qs) {
        let mut h = history.to_vec();
        h.push(*q);
        let (_, exp) = m.step(q);
        if let Some((k, what)) = judge(&exp, o, table) {
            bad.push((h.clone(), format!("cache:{k}:bfs:{}", op_kind(q)), format!("history {h:?} from model {m:?}: {what}")));
        }
        for (fp, what) in judge_observation(m, after, table, "bfs:after-query") {
            bad.push((h.clone(), fp, format!("history {h:?}: {what}")));
        }
    }
    Ok(bad)
}

/// lock-step check of one history; returns (violations, final model)
fn check_history(history: &[Op], table: &Table, second: bool, tag: &str) -> Result<(Vec<(String, String)>, Model), String> {
    let (res, obs, other) = run_history(history.to_vec(), second)?;
    let mut bad = Vec::new();
    let mut m = Model::default();
    for (i, (op, o)) in history.iter().zip(&res).enumerate() {
        let (m2, exp) = m.step(op);
        if let Some((k, what)) = judge(&exp, o, table) {
            bad.push((format!("cache:{k}:{tag}:{}", op_kind(op)), format!("history {history:?}, step {i} ({op:?}) from model {m:?}: {what}")));
        }
        m = m2;
    }
    for (fp, what) in judge_observation(&m, &obs, table, &format!("{tag}:after-history")) {
        bad.push((fp, format!("history {history:?}: {what}")));
    }
    if let Some(o2) = other {
        let empty = Model::default();
        for (fp, what) in judge_observation(&empty, &o2, table, "second-thread") {
            bad.push((fp, format!("a second thread, started after history {history:?} ran on the first, does not see an empty cache: {what}")));
        }
    }
    Ok((bad, m))
}

fn op_kind(op: &Op) -> &'static str {
    match op {
        Op::PrePset { .. } => "preparse_policy_set",
        Op::PreSchema { .. } => "preparse_schema",
        Op::Auth { .. } => "stateful_is_authorized",
    }
}

pub fn replay_history(h: &[Op]) -> Vec<(String, String)> {
    let table = match stateless_table() {
        Ok(t) => t,
        Err(e) => return vec![("cache:machinery".into(), e)],
    };
    match check_history(h, &table, true, "replay") {
        Ok((bad, m)) => {
            println!("history {h:?} -> model {m:?}");
            bad
        }
        Err(e) => vec![("cache:machinery".into(), e)],
    }
}

pub fn run(ctx: &Ctx, tier: Tier) -> Result<(), String> {
    let table = stateless_table()?;
    // the table must distinguish the registered objects, otherwise a stale entry is invisible
    let distinct: HashSet<&Ans> = table.0.values().collect();
    if distinct.len() < 6 {
        return Err(format!("the stateless answers do not distinguish the registered objects ({} distinct)", distinct.len()));
    }
    ctx.set_info("cache_distinct_stateless_answers", json!(distinct.len()));
    let ops = all_ops();
    let mops_all = mutating_ops();
    let report = |history: &[Op], bad: Vec<(String, String)>| {
        for (fp, what) in bad {
            ctx.violation(fp, what, json!({"kind": "cache", "history": history}));
        }
    };
    // ---- (a) BFS to fixpoint over model states, every op in every state
    let mut seen: HashMap<Model, Vec<Op>> = HashMap::new();
    seen.insert(Model::default(), vec![]);
    let mut frontier: VecDeque<Model> = VecDeque::from(vec![Model::default()]);
    let mut depth = 0u64;
    let mut transitions = 0u64;
    while !frontier.is_empty() {
        let level: Vec<Model> = frontier.drain(..).collect();
        let work: Vec<(Model, Vec<Op>, Option<Op>)> = level.iter().flat_map(|m| mops_all.iter().map(|op| (*m, seen[m].clone(), Some(*op))).chain(std::iter::once((*m, seen[m].clone(), None))).collect::<Vec<_>>()).collect();
        let results: Vec<Result<Option<(Vec<Op>, Model)>, String>> = work
            .par_iter()
            .map(|(m, hist, op)| match op {
                Some(op) => {
                    let mut h = hist.clone();
                    h.push(*op);
                    // a second thread looks at its own cache after the first registering operation of every state
                    let second = *op == mops_all[0];
                    let (bad, m_after) = check_history(&h, &table, second, "bfs")?;
                    let (m_expected, _) = m.step(op);
                    let mut l = Local::default();
                    l.case(hash_of(&("bfs", m, op)), &format!("cache:{}", op_kind(op)), *m != Model::default());
                    l.transitions += 1 + 24 + if second { 24 } else { 0 };
                    ctx.merge(l);
                    report(&h, bad);
                    debug_assert_eq!(m_after, m_expected);
                    Ok(Some((h, m_expected)))
                }
                None => {
                    let bad = check_queries(hist, m, &table)?;
                    let mut l = Local::default();
                    for q in queries() {
                        l.case(hash_of(&("bfs", m, q)), "cache:stateful_is_authorized", *m != Model::default());
                    }
                    l.transitions += 24 * 25;
                    ctx.merge(l);
                    for (h, fp, what) in bad {
                        ctx.violation(fp, what, json!({"kind": "cache", "history": h}));
                    }
                    Ok(None)
                }
            })
            .collect();
        for r in results {
            match r? {
                Some((h, m2)) => {
                    transitions += 1;
                    if !seen.contains_key(&m2) {
                        seen.insert(m2, h);
                        frontier.push_back(m2);
                    }
                }
                None => transitions += 24,
            }
        }
        if !frontier.is_empty() {
            depth += 1;
        }
    }
    ctx.states.fetch_add(seen.len() as u64, std::sync::atomic::Ordering::Relaxed);
    ctx.max_depth.fetch_max(depth + 1, std::sync::atomic::Ordering::Relaxed);
    ctx.set_info("cache_bfs", json!({"model_states": seen.len(), "transitions": transitions, "depth_of_fixpoint": depth, "ops_per_state": ops.len()}));
    if seen.len() != 81 {
        return Err(format!("cache BFS reached {} model states, expected 81", seen.len()));
    }
    // ---- (b) all sequences of registering operations of length 1..=d
    let d = tier.pick(3usize, 4usize);
    let mops = mutating_ops();
    let k = mops.len();
    let mut total = 0u64;
    for len in 1..=d {
        let count = k.pow(len as u32);
        total += count as u64;
        (0..count).into_par_iter().with_min_len(32).for_each(|mut idx| {
            let mut h = Vec::with_capacity(len);
            for _ in 0..len {
                h.push(mops[idx % k]);
                idx /= k;
            }
            match check_history(&h, &table, false, "seq") {
                Ok((bad, m)) => {
                    let mut l = Local::default();
                    l.case(hash_of(&("seq", &h)), "cache:sequence", m != Model::default());
                    l.transitions += len as u64 + 24;
                    ctx.merge(l);
                    report(&h, bad);
                }
                Err(e) => ctx.cap_hit(&format!("cache history could not be run: {e}")),
            }
        });
    }
    ctx.max_depth.fetch_max(d as u64, std::sync::atomic::Ordering::Relaxed);
    ctx.set_info("cache_sequences", json!({"max_length": d, "sequences": total}));
    ctx.sample(json!({"leg": "cache", "ops": ops.len(), "example_history": seen.values().max_by_key(|h| h.len()).cloned()}));
    Ok(())
}
