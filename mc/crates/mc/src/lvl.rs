//! Shared world for C16 (level validation) and C17 (entity manifests): a schema with entity-typed
//! attributes / tags / context fields forming chains and a cycle, dereference-chain policies,
//! and conformant stores with chain entities present or absent.
use crate::harness::Tier;
use crate::schema::*;
use crate::world::*;
use refsem::*;
use std::collections::{BTreeMap, BTreeSet};

pub fn uc() -> Uid {
    u("User", "c")
}

pub fn l_schema() -> Schema {
    let user = || Ty::Ent("User".into());
    Schema {
        ents: vec![
            EntDef {
                name: "User".into(),
                member_of: vec!["Group".into()],
                attrs: vec![
                    at("age", Ty::Long, true),
                    at("name", Ty::Str, true),
                    at("mgr", user(), true),
                    at("info", Ty::Rec(vec![at("boss", user(), false), at("n", Ty::Long, true)]), true),
                    at("alt", user(), false),
                    at("peers", Ty::Set(Box::new(user())), true),
                ],
                tags: Some(user()),
                enum_ids: None,
            },
            EntDef { name: "Group".into(), member_of: vec!["Group".into()], attrs: vec![at("lead", user(), false), at("up", Ty::Ent("Group".into()), false)], tags: None, enum_ids: None },
            EntDef {
                name: "Doc".into(),
                member_of: vec!["Group".into()],
                attrs: vec![at("owner", user(), true), at("meta", Ty::Rec(vec![at("by", user(), true)]), true), at("folder", Ty::Ent("Group".into()), true)],
                tags: None,
                enum_ids: None,
            },
        ],
        acts: vec![
            ActDef {
                id: "view".into(),
                member_of: vec![],
                principals: vec!["User".into()],
                resources: vec!["Doc".into()],
                context: vec![at("who", user(), false), at("r", Ty::Rec(vec![at("u", user(), true)]), true)],
            },
            // an action hierarchy: dereferencing an action literal other than the request's own
            // action needs an entity no level slice holds
            ActDef { id: "writers".into(), member_of: vec![], principals: vec![], resources: vec![], context: vec![] },
            ActDef {
                id: "edit".into(),
                member_of: vec!["writers".into()],
                principals: vec!["User".into()],
                resources: vec!["Doc".into()],
                context: vec![at("who", user(), false), at("r", Ty::Rec(vec![at("u", user(), true)]), true)],
            },
        ],
    }
}

fn user_ent(age: i64, mgr: Uid, boss: Option<Uid>, alt: Option<Uid>, tag: Option<Uid>, parents: Vec<Uid>) -> Ent {
    let mut e = Ent::default();
    e.attrs.insert("age".into(), Val::Long(age));
    // name: a string that doubles as a tag key ("t" is the only tag any user carries)
    e.attrs.insert("name".into(), Val::Str(if age == 0 { "al".into() } else { "t".into() }));
    // peers: a set of entities (never dereferenceable, but `in` / contains observe it); differs per user
    let peers = match age {
        3 => vec![Val::Uid(ub()), Val::Uid(uc())],
        0 => vec![],
        _ => vec![Val::Uid(ua())],
    };
    e.attrs.insert("peers".into(), Val::set(peers));
    e.attrs.insert("mgr".into(), Val::Uid(mgr));
    let mut info = BTreeMap::new();
    info.insert("n".to_string(), Val::Long(1));
    if let Some(b_) = boss {
        info.insert("boss".to_string(), Val::Uid(b_));
    }
    e.attrs.insert("info".into(), Val::Rec(info));
    if let Some(a) = alt {
        e.attrs.insert("alt".into(), Val::Uid(a));
    }
    if let Some(t) = tag {
        e.tags.insert("t".into(), Val::Uid(t));
    }
    e.parents = parents.into_iter().collect();
    e
}

pub fn l_stores(tier: Tier) -> Vec<Store> {
    let mut out = Vec::new();
    let bools = [false, true];
    for a_p in bools {
        for b_p in bools {
            for c_p in bools {
                for boss in bools {
                    for tag in bools {
                        for a_in_g in bools {
                            for g_variant in 0..3u8 {
                                for d_owner_b in bools {
                                    if tier == Tier::Quick && (tag != boss || (g_variant == 2 && !a_in_g)) {
                                        continue;
                                    }
                                    let mut s = Store::default();
                                    if a_p {
                                        s.ents.insert(
                                            ua(),
                                            user_ent(3, ub(), if boss { Some(uc()) } else { None }, if boss { None } else { Some(ub()) }, if tag { Some(ub()) } else { None }, if a_in_g { vec![gg()] } else { vec![] }),
                                        );
                                    }
                                    if b_p {
                                        s.ents.insert(ub(), user_ent(0, uc(), Some(ua()), Some(uc()), if tag { Some(uc()) } else { None }, vec![gh()]));
                                    }
                                    if c_p {
                                        s.ents.insert(uc(), user_ent(7, ua(), None, None, Some(ua()), if a_in_g { vec![] } else { vec![gg()] }));
                                    }
                                    // g_variant: 0 g absent, 1 g present without lead, 2 g present with lead a
                                    if g_variant > 0 {
                                        let mut g = Ent::default();
                                        g.parents.insert(gh());
                                        if g_variant == 2 {
                                            g.attrs.insert("lead".into(), Val::Uid(ua()));
                                            // up: a group that is NOT an ancestor of anything (after seed C17-a1)
                                            g.attrs.insert("up".into(), Val::Uid(Uid::new("Group", "k")));
                                        }
                                        s.ents.insert(gg(), g);
                                        s.ents.insert(gh(), Ent::default());
                                        s.ents.insert(Uid::new("Group", "k"), Ent::default());
                                    }
                                    let mut d = Ent::default();
                                    d.attrs.insert("owner".into(), Val::Uid(if d_owner_b { ub() } else { ua() }));
                                    let mut meta = BTreeMap::new();
                                    meta.insert("by".to_string(), Val::Uid(if d_owner_b { uc() } else { ub() }));
                                    d.attrs.insert("meta".into(), Val::Rec(meta));
                                    d.attrs.insert("folder".into(), Val::Uid(gg()));
                                    d.parents.insert(gg());
                                    s.ents.insert(dd(), d);
                                    out.push(s);
                                }
                            }
                        }
                    }
                }
            }
        }
    }
    out
}

pub fn l_requests() -> Vec<Req> {
    let mut out = Vec::new();
    for p in [ua(), ub()] {
        for who in [None, Some(uc()), Some(ua())] {
            for ru in [ub(), uc()] {
                let mut c = BTreeMap::new();
                if let Some(w) = &who {
                    c.insert("who".to_string(), Val::Uid(w.clone()));
                }
                let mut r = BTreeMap::new();
                r.insert("u".to_string(), Val::Uid(ru.clone()));
                c.insert("r".to_string(), Val::Rec(r));
                out.push(Req { principal: p.clone(), action: view(), resource: dd(), context: c.clone() });
                if who.is_none() {
                    out.push(Req { principal: p.clone(), action: edit(), resource: dd(), context: c });
                }
            }
        }
    }
    out
}

/// an entity-valued access path: root + steps, with the guards its optional steps need
#[derive(Clone, Debug)]
pub struct Path {
    pub expr: E,
    pub guards: Vec<E>,
    /// static entity type of the path's value
    pub ty: &'static str,
    pub steps: usize,
    pub uses_tags: bool,
}

fn roots() -> Vec<Path> {
    let cx = E::Var(Var::Context);
    vec![
        Path { expr: E::Var(Var::Principal), guards: vec![], ty: "User", steps: 0, uses_tags: false },
        Path { expr: E::Var(Var::Resource), guards: vec![], ty: "Doc", steps: 0, uses_tags: false },
        Path { expr: E::attr(cx.clone(), "who"), guards: vec![E::has(cx.clone(), "who")], ty: "User", steps: 0, uses_tags: false },
        Path { expr: E::attr(E::attr(cx, "r"), "u"), guards: vec![], ty: "User", steps: 0, uses_tags: false },
        // entity literals as roots (level validation refuses to dereference them; manifests list them)
        Path { expr: E::Ent(ub()), guards: vec![], ty: "User", steps: 0, uses_tags: false },
        Path { expr: E::Ent(gg()), guards: vec![], ty: "Group", steps: 0, uses_tags: false },
    ]
}

fn extend(p: &Path) -> Vec<Path> {
    let mut out = Vec::new();
    let x = p.expr.clone();
    let mk = |expr: E, guard: Option<E>, ty: &'static str, tags: bool| {
        let mut g = p.guards.clone();
        if let Some(gd) = guard {
            g.push(gd);
        }
        Path { expr, guards: g, ty, steps: p.steps + 1, uses_tags: p.uses_tags || tags }
    };
    match p.ty {
        "User" => {
            out.push(mk(E::attr(x.clone(), "mgr"), None, "User", false));
            out.push(mk(E::attr(E::attr(x.clone(), "info"), "boss"), Some(E::has(E::attr(x.clone(), "info"), "boss")), "User", false));
            out.push(mk(E::attr(x.clone(), "alt"), Some(E::has(x.clone(), "alt")), "User", false));
            out.push(mk(E::bin(BinOp::GetTag, x.clone(), E::str("t")), Some(E::bin(BinOp::HasTag, x.clone(), E::str("t"))), "User", true));
        }
        "Group" => {
            out.push(mk(E::attr(x.clone(), "lead"), Some(E::has(x.clone(), "lead")), "User", false));
            out.push(mk(E::attr(x.clone(), "up"), Some(E::has(x.clone(), "up")), "Group", false));
        }
        "Doc" => {
            out.push(mk(E::attr(x.clone(), "owner"), None, "User", false));
            out.push(mk(E::attr(x.clone(), "folder"), None, "Group", false));
            out.push(mk(E::attr(E::attr(x.clone(), "meta"), "by"), None, "User", false));
        }
        _ => {}
    }
    out
}

pub fn paths(max_steps: usize) -> Vec<Path> {
    let mut all = roots();
    let mut frontier = roots();
    for _ in 0..max_steps {
        let mut next = Vec::new();
        for p in &frontier {
            next.extend(extend(p));
        }
        all.extend(next.iter().cloned());
        frontier = next;
    }
    all
}

#[derive(Clone, Debug)]
pub struct LPol {
    pub pol: Pol,
    pub uses_tags: bool,
    pub shape: String,
}

fn guarded(guards: &[E], body: E) -> E {
    let mut e = body;
    for g in guards.iter().rev() {
        e = E::and(g.clone(), e);
    }
    e
}

/// the policies: every path x terminal observation, plus wrappers (record literal, if-branch,
/// `in` with computed right operand)
pub fn policies(tier: Tier) -> Vec<LPol> {
    let max_steps = tier.pick(2, 3);
    let ps = paths(max_steps);
    let mut out: Vec<LPol> = Vec::new();
    let mut push = |shape: String, e: E, tags: bool, out: &mut Vec<LPol>| {
        let id = format!("L{}", out.len());
        let effect = if out.len() % 4 == 3 { Effect::Forbid } else { Effect::Permit };
        let mut pol = Pol::simple(&id, effect, Some(e));
        pol.action = AS::Eq(view());
        out.push(LPol { pol, uses_tags: tags, shape });
    };
    for p in &ps {
        let x = p.expr.clone();
        let g = &p.guards;
        if p.ty == "User" {
            push(format!("steps{}:age", p.steps), guarded(g, E::bin(BinOp::Gt, E::attr(x.clone(), "age"), E::Long(0))), p.uses_tags, &mut out);
            push(format!("steps{}:has", p.steps), guarded(g, E::has(x.clone(), "alt")), p.uses_tags, &mut out);
            push(format!("steps{}:hasTag", p.steps), guarded(g, E::bin(BinOp::HasTag, x.clone(), E::str("t"))), true, &mut out);
            push(format!("steps{}:nested-record", p.steps), guarded(g, E::bin(BinOp::Eq, E::attr(E::attr(x.clone(), "info"), "n"), E::Long(1))), p.uses_tags, &mut out);
        }
        push(format!("steps{}:in", p.steps), guarded(g, E::bin(BinOp::In, x.clone(), E::Ent(gh()))), p.uses_tags, &mut out);
        push(format!("steps{}:in-set", p.steps), guarded(g, E::bin(BinOp::In, x.clone(), E::Set(vec![E::Ent(gg()), E::Ent(gh())]))), p.uses_tags, &mut out);
        push(format!("steps{}:eq", p.steps), guarded(g, E::bin(BinOp::Eq, x.clone(), E::Ent(ua()))), p.uses_tags, &mut out);
        push(format!("steps{}:is", p.steps), guarded(g, E::Is(b(x.clone()), p.ty.to_string())), p.uses_tags, &mut out);
        push(format!("steps{}:in-right", p.steps), guarded(g, E::bin(BinOp::In, E::Var(Var::Principal), x.clone())), p.uses_tags, &mut out);
        if p.ty == "Group" {
            // `in` against a path and against a longer path through the same node (the manifest
            // must keep the ancestor request of the shared node)
            let pr = E::Var(Var::Principal);
            let up = E::attr(x.clone(), "up");
            let mut g2 = g.clone();
            g2.push(E::has(x.clone(), "up"));
            push(format!("steps{}:prefix-in-or", p.steps), guarded(&g2, E::or(E::bin(BinOp::In, pr.clone(), x.clone()), E::bin(BinOp::In, pr.clone(), up.clone()))), p.uses_tags, &mut out);
            push(format!("steps{}:prefix-in-or-rev", p.steps), guarded(&g2, E::or(E::bin(BinOp::In, pr.clone(), up.clone()), E::bin(BinOp::In, pr.clone(), x.clone()))), p.uses_tags, &mut out);
            push(format!("steps{}:prefix-in-set", p.steps), guarded(&g2, E::bin(BinOp::In, pr.clone(), E::Set(vec![up.clone(), x.clone()]))), p.uses_tags, &mut out);
            push(format!("steps{}:prefix-in-and-not", p.steps), guarded(&g2, E::and(E::bin(BinOp::In, pr.clone(), x.clone()), E::not(E::bin(BinOp::In, pr.clone(), up.clone())))), p.uses_tags, &mut out);
            push(format!("steps{}:resource-in-and-principal-in", p.steps), guarded(g, E::and(E::bin(BinOp::In, E::Var(Var::Resource), x.clone()), E::bin(BinOp::In, pr.clone(), x.clone()))), p.uses_tags, &mut out);
            push(format!("steps{}:in-literal-set-with-path", p.steps), guarded(g, E::bin(BinOp::In, pr.clone(), E::Set(vec![E::Ent(gh()), x.clone()]))), p.uses_tags, &mut out);
        }
        if p.ty == "User" {
            // dereference hidden inside a record literal
            let rec = E::Rec(vec![("f".into(), x.clone()), ("k".into(), E::Long(1))]);
            push(format!("steps{}:record-literal:age", p.steps), guarded(g, E::bin(BinOp::Gt, E::attr(E::attr(rec.clone(), "f"), "age"), E::Long(0))), p.uses_tags, &mut out);
            push(format!("steps{}:record-literal:in", p.steps), guarded(g, E::bin(BinOp::In, E::attr(rec.clone(), "f"), E::Ent(gh()))), p.uses_tags, &mut out);
            // a field that is NOT accessed holds a deeper dereference than the accessed one (after hand
            // mutant c16_record_other_fields_unchecked): building the record evaluates it all the same
            let rec_deep = E::Rec(vec![("f".into(), x.clone()), ("k".into(), E::attr(E::attr(E::attr(x.clone(), "mgr"), "mgr"), "age"))]);
            push(format!("steps{}:record-literal:deep-other-field", p.steps), guarded(g, E::bin(BinOp::Gt, E::attr(E::attr(rec_deep, "f"), "age"), E::Long(0))), p.uses_tags, &mut out);
            let rec_deep2 = E::Rec(vec![("f".into(), E::Var(Var::Principal)), ("k".into(), E::bin(BinOp::In, E::attr(x.clone(), "mgr"), E::Ent(gh())))]);
            push(format!("steps{}:record-literal:deep-other-field-in", p.steps), guarded(g, E::bin(BinOp::Gt, E::attr(E::attr(rec_deep2, "f"), "age"), E::Long(0))), p.uses_tags, &mut out);
            let rec2 = E::Rec(vec![("o".into(), E::Rec(vec![("f".into(), x.clone())]))]);
            push(format!("steps{}:nested-record-literal:age", p.steps), guarded(g, E::bin(BinOp::Gt, E::attr(E::attr(E::attr(rec2, "o"), "f"), "age"), E::Long(0))), p.uses_tags, &mut out);
            // dereference of an if-then-else producing entities
            let ite = E::ite(E::bin(BinOp::Gt, E::attr(E::Var(Var::Principal), "age"), E::Long(1)), x.clone(), E::attr(E::Var(Var::Principal), "mgr"));
            push(format!("steps{}:if-branch:age", p.steps), guarded(g, E::bin(BinOp::Gt, E::attr(ite.clone(), "age"), E::Long(0))), p.uses_tags, &mut out);
            push(format!("steps{}:if-branch:in", p.steps), guarded(g, E::bin(BinOp::In, ite.clone(), E::Ent(gh()))), p.uses_tags, &mut out);
            let ite2 = E::ite(E::bin(BinOp::Gt, E::attr(E::Var(Var::Principal), "age"), E::Long(1)), E::Var(Var::Principal), x.clone());
            push(format!("steps{}:if-else-branch:mgr.age", p.steps), guarded(g, E::bin(BinOp::Gt, E::attr(E::attr(ite2, "mgr"), "age"), E::Long(0))), p.uses_tags, &mut out);
            // dereference under && / || right operands
            push(
                format!("steps{}:or-right:age", p.steps),
                guarded(g, E::or(E::bin(BinOp::Eq, E::Var(Var::Principal), E::Ent(uc())), E::bin(BinOp::Gt, E::attr(x.clone(), "age"), E::Long(0)))),
                p.uses_tags,
                &mut out,
            );
            // contains over a set of entities built from the path
            push(format!("steps{}:set-contains", p.steps), guarded(g, E::bin(BinOp::Contains, E::Set(vec![x.clone(), E::Ent(ua())]), E::attr(E::Var(Var::Principal), "mgr"))), p.uses_tags, &mut out);
            // a set-of-entities attribute at the end of the path
            let pr = E::Var(Var::Principal);
            push(format!("steps{}:peers-contains", p.steps), guarded(g, E::bin(BinOp::Contains, E::attr(x.clone(), "peers"), pr.clone())), p.uses_tags, &mut out);
            push(format!("steps{}:in-peers", p.steps), guarded(g, E::bin(BinOp::In, pr.clone(), E::attr(x.clone(), "peers"))), p.uses_tags, &mut out);
            push(format!("steps{}:mgr-in-peers", p.steps), guarded(g, E::bin(BinOp::In, E::attr(pr.clone(), "mgr"), E::attr(x.clone(), "peers"))), p.uses_tags, &mut out);
            push(format!("steps{}:peers-containsAny", p.steps), guarded(g, E::bin(BinOp::ContainsAny, E::attr(x.clone(), "peers"), E::Set(vec![E::attr(pr.clone(), "mgr"), E::Ent(uc())]))), p.uses_tags, &mut out);
            push(format!("steps{}:peers-isEmpty", p.steps), guarded(g, E::IsEmpty(b(E::attr(x.clone(), "peers")))), p.uses_tags, &mut out);
            // negation, is-in, equality between two dereferences, deeper dereference after a record literal
            push(format!("steps{}:not-in", p.steps), guarded(g, E::not(E::bin(BinOp::In, x.clone(), E::Ent(gg())))), p.uses_tags, &mut out);
            push(format!("steps{}:is-in", p.steps), guarded(g, E::IsIn(b(x.clone()), "User".into(), b(E::Ent(gh())))), p.uses_tags, &mut out);
            push(format!("steps{}:mgr-eq-principal", p.steps), guarded(g, E::bin(BinOp::Eq, E::attr(x.clone(), "mgr"), pr.clone())), p.uses_tags, &mut out);
            push(format!("steps{}:record-literal:mgr.age", p.steps), guarded(g, E::bin(BinOp::Gt, E::attr(E::attr(E::attr(rec.clone(), "f"), "mgr"), "age"), E::Long(0))), p.uses_tags, &mut out);
            // has on a nested record of the entity; if whose test dereferences and whose branches do not
            push(format!("steps{}:info-has-boss", p.steps), guarded(g, E::has(E::attr(x.clone(), "info"), "boss")), p.uses_tags, &mut out);
            push(format!("steps{}:if-test", p.steps), guarded(g, E::ite(E::bin(BinOp::Gt, E::attr(x.clone(), "age"), E::Long(1)), E::bin(BinOp::Eq, pr.clone(), E::Ent(ua())), E::Bool(true))), p.uses_tags, &mut out);
            // entity literal in one branch, the path in the other
            let ite3 = E::ite(E::bin(BinOp::Gt, E::attr(pr.clone(), "age"), E::Long(1)), E::Ent(uc()), x.clone());
            push(format!("steps{}:if-literal-branch:eq", p.steps), guarded(g, E::bin(BinOp::Eq, ite3.clone(), E::attr(pr.clone(), "mgr"))), p.uses_tags, &mut out);
            push(format!("steps{}:if-literal-branch:age", p.steps), guarded(g, E::bin(BinOp::Gt, E::attr(ite3, "age"), E::Long(0))), p.uses_tags, &mut out);
            // the path's value at other operand positions: like, computed tag key, arithmetic,
            // set operations between two dereferences, record equality, extended has
            let t_key = E::attr(x.clone(), "name");
            push(format!("steps{}:name-like", p.steps), guarded(g, E::Like(b(t_key.clone()), vec![Pat::Char('t'), Pat::Star])), p.uses_tags, &mut out);
            push(format!("steps{}:tag-key-from-path:hasTag", p.steps), guarded(g, E::bin(BinOp::HasTag, pr.clone(), t_key.clone())), true, &mut out);
            push(
                format!("steps{}:tag-key-from-path:getTag.age", p.steps),
                guarded(g, E::and(E::bin(BinOp::HasTag, pr.clone(), t_key.clone()), E::bin(BinOp::Gt, E::attr(E::bin(BinOp::GetTag, pr.clone(), t_key.clone()), "age"), E::Long(0)))),
                true,
                &mut out,
            );
            push(format!("steps{}:arith", p.steps), guarded(g, E::bin(BinOp::Gt, E::bin(BinOp::Add, E::attr(x.clone(), "age"), E::attr(pr.clone(), "age")), E::Long(0))), p.uses_tags, &mut out);
            push(format!("steps{}:neg-mul", p.steps), guarded(g, E::bin(BinOp::Lt, E::Neg(b(E::bin(BinOp::Mul, E::attr(x.clone(), "age"), E::Long(2)))), E::Long(0))), p.uses_tags, &mut out);
            push(format!("steps{}:peers-contains-mgr", p.steps), guarded(g, E::bin(BinOp::Contains, E::attr(x.clone(), "peers"), E::attr(x.clone(), "mgr"))), p.uses_tags, &mut out);
            push(format!("steps{}:mgr.peers-containsAll-peers", p.steps), guarded(g, E::bin(BinOp::ContainsAll, E::attr(E::attr(x.clone(), "mgr"), "peers"), E::attr(x.clone(), "peers"))), p.uses_tags, &mut out);
            push(format!("steps{}:if-then-deref", p.steps), guarded(g, E::ite(E::bin(BinOp::Gt, E::attr(x.clone(), "age"), E::Long(1)), E::bin(BinOp::Gt, E::attr(E::attr(x.clone(), "mgr"), "age"), E::Long(0)), E::Bool(false))), p.uses_tags, &mut out);
            push(format!("steps{}:record-eq", p.steps), guarded(g, E::bin(BinOp::Eq, E::attr(x.clone(), "info"), E::attr(pr.clone(), "info"))), p.uses_tags, &mut out);
            push(format!("steps{}:record-literal-eq", p.steps), guarded(g, E::bin(BinOp::Eq, E::Rec(vec![("a".into(), E::attr(x.clone(), "mgr"))]), E::Rec(vec![("a".into(), pr.clone())]))), p.uses_tags, &mut out);
            push(format!("steps{}:set-of-derefs-contains", p.steps), guarded(g, E::bin(BinOp::Contains, E::Set(vec![E::attr(x.clone(), "mgr"), pr.clone()]), E::attr(E::attr(x.clone(), "mgr"), "mgr"))), p.uses_tags, &mut out);
            push(format!("steps{}:extended-has", p.steps), guarded(g, E::and(E::Has(b(x.clone()), vec!["info".into(), "boss".into()]), E::bin(BinOp::Gt, E::attr(E::attr(E::attr(x.clone(), "info"), "boss"), "age"), E::Long(0)))), p.uses_tags, &mut out);
            // shapes that only permissive validation accepts (sets / branches mixing entity types)
            // in front of the dereference chain (after seed C16-a2)
            let rs = E::Var(Var::Resource);
            push(format!("steps{}:permissive:mixed-set-then-age", p.steps), guarded(g, E::and(E::bin(BinOp::Contains, E::Set(vec![pr.clone(), rs.clone()]), pr.clone()), E::bin(BinOp::Gt, E::attr(x.clone(), "age"), E::Long(0)))), p.uses_tags, &mut out);
            push(format!("steps{}:permissive:mixed-eq-or-in", p.steps), guarded(g, E::or(E::bin(BinOp::Eq, x.clone(), rs.clone()), E::bin(BinOp::In, x.clone(), E::Ent(gh())))), p.uses_tags, &mut out);
            push(format!("steps{}:permissive:mixed-if-then-mgr", p.steps), guarded(g, E::and(E::bin(BinOp::Neq, E::ite(E::bin(BinOp::Gt, E::attr(pr.clone(), "age"), E::Long(1)), pr.clone(), rs.clone()), E::Ent(gg())), E::bin(BinOp::Gt, E::attr(E::attr(x.clone(), "mgr"), "age"), E::Long(0)))), p.uses_tags, &mut out);
        }
    }
    // the action hierarchy: literals of the request's own action, of another action, `action` itself
    // (after seed C16-a1)
    let writers = || E::Ent(Uid::new("Action", "writers"));
    let act = E::Var(Var::Action);
    let action_bodies: Vec<(&str, E)> = vec![
        ("action:other-literal-in-group", E::bin(BinOp::In, E::Ent(edit()), writers())),
        ("action:own-literal-in-group", E::bin(BinOp::In, E::Ent(view()), writers())),
        ("action:var-in-group", E::bin(BinOp::In, act.clone(), writers())),
        ("action:var-in-set", E::bin(BinOp::In, act.clone(), E::Set(vec![writers(), E::Ent(view())]))),
        ("action:group-literal-in-group", E::bin(BinOp::In, writers(), writers())),
        ("action:other-literal-in-set", E::bin(BinOp::In, E::Ent(edit()), E::Set(vec![writers()]))),
        // negations of facts the typechecker derives from the action hierarchy: the policy is
        // "impossible" by type, yet satisfiable on a store that lacks the action entities (F7)
        ("action:negated-hierarchy-fact:other-literal", E::not(E::bin(BinOp::In, E::Ent(edit()), writers()))),
        ("action:negated-hierarchy-fact:var", E::not(E::bin(BinOp::In, act.clone(), writers()))),
        ("action:negated-hierarchy-fact:var-in-set", E::not(E::bin(BinOp::In, act.clone(), E::Set(vec![writers()])))),
        ("action:var-eq-literal", E::bin(BinOp::Eq, act.clone(), E::Ent(edit()))),
        ("action:other-literal-in-group-and-age", E::and(E::bin(BinOp::In, E::Ent(edit()), writers()), E::bin(BinOp::Gt, E::attr(E::Var(Var::Principal), "age"), E::Long(0)))),
    ];
    for (shape, body) in action_bodies {
        for scope in [AS::Any, AS::Eq(view()), AS::Eq(edit()), AS::In(Uid::new("Action", "writers"))] {
            let id = format!("L{}", out.len());
            let mut pol = Pol::simple(&id, if out.len() % 4 == 3 { Effect::Forbid } else { Effect::Permit }, Some(body.clone()));
            pol.action = scope;
            out.push(LPol { pol, uses_tags: false, shape: format!("steps0:{shape}") });
        }
    }
    out
}

fn uids_through_records(v: &Val, acc: &mut BTreeSet<Uid>) {
    match v {
        Val::Uid(u) => {
            acc.insert(u.clone());
        }
        Val::Rec(r) => r.values().for_each(|x| uids_through_records(x, acc)),
        _ => {}
    }
}

/// The level-n slice, from the definition (RFC 76 reading: level 0 loads nothing; level k keeps
/// the entities reachable from the request's principal / action / resource / context uids within
/// k-1 attribute/tag hops, each with its attributes, tags and full ancestor set).
pub fn level_slice(store: &Store, req: &Req, n: usize) -> Store {
    let mut kept: BTreeSet<Uid> = BTreeSet::new();
    let mut frontier: BTreeSet<Uid> = BTreeSet::new();
    frontier.insert(req.principal.clone());
    frontier.insert(req.action.clone());
    frontier.insert(req.resource.clone());
    for v in req.context.values() {
        uids_through_records(v, &mut frontier);
    }
    for _ in 0..n {
        let mut next = BTreeSet::new();
        for u_ in &frontier {
            if kept.contains(u_) {
                continue;
            }
            if let Some(e) = store.ents.get(u_) {
                kept.insert(u_.clone());
                for v in e.attrs.values().chain(e.tags.values()) {
                    uids_through_records(v, &mut next);
                }
            }
        }
        frontier = next;
    }
    let mut out = Store::default();
    for u_ in kept {
        let e = store.ents.get(&u_).unwrap();
        out.ents.insert(u_.clone(), Ent { attrs: e.attrs.clone(), tags: e.tags.clone(), parents: store.ancestors(&u_) });
    }
    out
}
