//! C19 — JSON/FFI, stateful-cache and CLI front ends give exactly the API answers.
//!
//! Seven legs, all bounded-exhaustive (no sampling):
//!  1. `ffi::is_authorized_json{,_str}` over every C01-style policy set (ordered tuples of
//!     behaviour atoms) x input shape x id spelling x schema syntax x validateRequest x
//!     explicit/schema-implicit data x 5 | 7 (request, store) pairs (conforming, violating the
//!     schema, and a store that violates it), against inputs assembled through the plain Rust
//!     API (and against the reference authorizer).
//!  2. `ffi::validate_json` against `Validator::validate`                      (c19_misc.rs)
//!  3. `ffi::format_json` against `policies_str_to_pretty`                     (c19_misc.rs)
//!  4. `ffi::check_parse_*_json` against the API parsers                       (c19_misc.rs)
//!  5. `ffi::{policy,template}_to_{json,text}`, `schema_to_{text,json}`,
//!     `policy_set_text_to_parts` against the API conversions                  (c19_misc.rs)
//!  6. the thread-local preparse cache: explicit-state BFS over call histories (c19_cache.rs)
//!  7. the `cedar` CLI: exit status / printed decision / translated output     (c19_cli.rs)
use crate::bind::*;
use crate::harness::*;
use crate::world::*;
use cedar_policy::ffi;
use rayon::prelude::*;
use refsem::print::Style;
use refsem::*;
use serde::{Deserialize, Serialize};
use serde_json::{json, Value as J};
use std::cell::RefCell;
use std::collections::{BTreeMap, HashMap};

#[path = "c19_misc.rs"]
mod misc;
#[path = "c19_cache.rs"]
mod cache;
#[path = "c19_cli.rs"]
mod cli;

// ---------------------------------------------------------------------------------------
// policy-set space (behaviour atoms as in C01; copied because feature c19 does not imply c01)
// ---------------------------------------------------------------------------------------

#[derive(Clone, Debug, Serialize, Deserialize)]
pub struct Atom {
    pub pol: Pol,
    /// Some((principal binding, resource binding)) when the atom is a template + link
    pub link: Option<(Option<Uid>, Option<Uid>)>,
    pub label: String,
}

fn v(x: Var) -> E {
    E::Var(x)
}

/// realisations of (effect, intended outcome on req1/store1): [satisfied, unsatisfied, erroring] x 4
pub fn atoms(effect: Effect) -> Vec<Vec<Atom>> {
    let mk = |label: &str, principal: PR, resource: PR, conds: Vec<(bool, E)>, link: Option<(Option<Uid>, Option<Uid>)>| Atom {
        pol: Pol { id: String::new(), effect, annotations: vec![], principal, action: AS::Any, resource, conds },
        link,
        label: label.to_string(),
    };
    let ctx_missing = E::attr(v(Var::Context), "missing");
    let sat = vec![
        mk("sat:scope", PR::Eq(Ref::Uid(ua())), PR::Any, vec![], None),
        // observes an extension-typed attribute (a string when the entities were parsed without the schema)
        mk("sat:when", PR::Any, PR::Any, vec![(true, E::and(E::bin(BinOp::Eq, E::attr(v(Var::Principal), "age"), E::Long(3)), E::ext("isIpv4", vec![E::attr(v(Var::Resource), "ip")])))], None),
        mk("sat:unless", PR::Any, PR::Any, vec![(false, E::bin(BinOp::Eq, E::attr(v(Var::Context), "n"), E::Long(2)))], None),
        mk("sat:link", PR::Eq(Ref::Slot), PR::In(Ref::Slot), vec![], Some((Some(ua()), Some(gh())))),
    ];
    let unsat = vec![
        mk("unsat:scope", PR::Eq(Ref::Uid(ub())), PR::Any, vec![], None),
        // observes an entity-typed attribute (a record when the entities were parsed without the schema)
        mk("unsat:when", PR::Any, PR::Any, vec![(true, E::bin(BinOp::Neq, E::attr(v(Var::Resource), "owner"), E::Ent(ua())))], None),
        mk("unsat:unless", PR::Any, PR::Any, vec![(false, E::has(v(Var::Context), "n"))], None),
        mk("unsat:link", PR::In(Ref::Slot), PR::Any, vec![], Some((Some(dd()), None))),
    ];
    let err = vec![
        mk("err:attr", PR::Any, PR::Any, vec![(true, ctx_missing.clone())], None),
        mk("err:type", PR::Any, PR::Any, vec![(true, E::bin(BinOp::Eq, E::bin(BinOp::Add, E::Long(1), E::str("a")), E::Long(2)))], None),
        mk("err:entity-unless", PR::Any, PR::Any, vec![(false, E::bin(BinOp::Gt, E::attr(E::Ent(uz()), "age"), E::Long(1)))], None),
        mk("err:link", PR::Any, PR::Eq(Ref::Slot), vec![(true, E::Bool(true)), (true, ctx_missing)], Some((None, Some(dd())))),
    ];
    vec![sat, unsat, err]
}

/// all ordered tuples of behaviours (effect, outcome) of length <= maxn, each in 4 rotations of
/// the realisation table (so every realisation occurs at every position)
pub fn atom_tuples(maxn: usize) -> Vec<Vec<Atom>> {
    let per_effect: Vec<Vec<Vec<Atom>>> = vec![atoms(Effect::Permit), atoms(Effect::Forbid)];
    let beh: Vec<(usize, usize)> = (0..2).flat_map(|e| (0..3).map(move |o| (e, o))).collect();
    let mut tuples: Vec<Vec<(usize, usize)>> = vec![vec![]];
    let mut frontier: Vec<Vec<(usize, usize)>> = vec![vec![]];
    for _ in 0..maxn {
        let mut next = Vec::new();
        for t in &frontier {
            for bh in &beh {
                let mut q = t.clone();
                q.push(*bh);
                next.push(q);
            }
        }
        tuples.extend(next.iter().cloned());
        frontier = next;
    }
    let mut out = Vec::new();
    for t in &tuples {
        let rots = if t.is_empty() { 1 } else { 4 };
        for rot in 0..rots {
            out.push(t.iter().enumerate().map(|(pos, (e, o))| per_effect[*e][*o][(pos + rot) % 4].clone()).collect());
        }
    }
    out
}

#[derive(Clone, Copy, Debug, PartialEq, Eq, Hash, Serialize, Deserialize)]
pub enum Spelling {
    Default,
    ReverseSorted,
    Unicode,
}

pub fn spell(sp: Spelling, i: usize, n: usize) -> String {
    match sp {
        Spelling::Default => format!("policy{i}"),
        Spelling::ReverseSorted => format!("{}{}", (b'a' + (n - i) as u8) as char, i),
        Spelling::Unicode => ["p\"0", "é 1", "😀2", "a\\n3", " ", "policy0", "", "p\u{0}7", "\u{202e}8", "'9'"][i % 10].to_string(),
    }
}

/// the accepted shapes of the `policies` field
#[derive(Clone, Copy, Debug, PartialEq, Eq, Hash, Serialize, Deserialize)]
pub enum Shape {
    /// staticPolicies = one concatenated Cedar text (ids policy0..), templates as text
    Concat,
    /// staticPolicies = {id: text}, templates as text
    MapText,
    /// staticPolicies = {id: EST}, templates as EST
    MapJson,
    /// staticPolicies = [policy, ..] (every element gets the default id), templates as text
    Array,
    /// staticPolicies = {id: text | EST alternating}, templates EST | text alternating, link
    /// values in the other uid form; `staticPolicies` key omitted when there is no static policy
    Mixed,
}

pub const SHAPES: [Shape; 5] = [Shape::Concat, Shape::MapText, Shape::MapJson, Shape::Array, Shape::Mixed];
pub const SPELLINGS: [Spelling; 3] = [Spelling::Default, Spelling::ReverseSorted, Spelling::Unicode];

#[derive(Clone, Debug, Serialize, Deserialize)]
pub enum Src {
    Text(String),
    Json(J),
}

impl Src {
    pub fn to_json(&self) -> J {
        match self {
            Src::Text(s) => json!(s),
            Src::Json(j) => j.clone(),
        }
    }
}

/// how the same policy set is assembled through the plain API
#[derive(Clone, Debug, Default, Serialize, Deserialize)]
pub struct Plan {
    /// (explicit id or None = default id, source)
    pub statics: Vec<(Option<String>, Src)>,
    pub templates: Vec<(String, Src)>,
    /// (template id, new id, ?principal, ?resource)
    pub links: Vec<(String, String, Option<Uid>, Option<Uid>)>,
    /// reference instances (meaningful only when the ids are pairwise distinct)
    pub insts: Vec<Inst>,
}

pub fn uid_js(u: &Uid, implicit: bool) -> J {
    if implicit {
        json!({"type": u.ty, "id": u.id})
    } else {
        json!({"__entity": {"type": u.ty, "id": u.id}})
    }
}

/// the FFI `policies` document and the API plan for one tuple of atoms
pub fn policies_doc(atoms: &[Atom], shape: Shape, sp: Spelling, implicit: bool) -> (J, Plan) {
    let st = Style::default();
    let n = atoms.len();
    let mut plan = Plan::default();
    let mut statics_doc: Vec<(Option<String>, J)> = Vec::new();
    let mut templates = serde_json::Map::new();
    let mut links: Vec<J> = Vec::new();
    let mut concat = String::new();
    let mut k_static = 0usize;
    for (i, a) in atoms.iter().enumerate() {
        let as_json = match shape {
            Shape::Concat | Shape::MapText => false,
            Shape::MapJson => true,
            // all text, or alternating text / EST (the default ids differ: "policy0" / "JSON policy")
            Shape::Array => implicit && i % 2 == 1,
            Shape::Mixed => i % 2 == 0,
        };
        match &a.link {
            None => {
                let id = match shape {
                    Shape::Concat => Some(format!("policy{k_static}")),
                    Shape::Array => None,
                    _ => Some(spell(sp, i, n)),
                };
                let src = if as_json { Src::Json(a.pol.est()) } else { Src::Text(a.pol.text(&st)) };
                if shape == Shape::Concat {
                    concat.push_str(&a.pol.text(&st));
                    concat.push('\n');
                }
                statics_doc.push((id.clone(), src.to_json()));
                let mut p = a.pol.clone();
                p.id = id.clone().unwrap_or_else(|| if as_json { "JSON policy" } else { "policy0" }.to_string());
                plan.insts.push(Inst::stat(p));
                plan.statics.push((id, src));
                k_static += 1;
            }
            Some(l) => {
                let (tid, lid) = match shape {
                    Shape::Concat | Shape::Array => (format!("tmpl{i}"), format!("link{i}")),
                    _ => (format!("T-{}", spell(sp, i, n)), spell(sp, i, n)),
                };
                // in the Mixed shape templates take the format the statics do not
                let t_json = if shape == Shape::Mixed { !as_json } else { as_json };
                let src = if t_json { Src::Json(a.pol.est()) } else { Src::Text(a.pol.text(&st)) };
                templates.insert(tid.clone(), src.to_json());
                let link_implicit = if shape == Shape::Mixed { !implicit } else { implicit };
                let mut vals = serde_json::Map::new();
                if let Some(p) = &l.0 {
                    vals.insert("?principal".into(), uid_js(p, link_implicit));
                }
                if let Some(r) = &l.1 {
                    vals.insert("?resource".into(), uid_js(r, link_implicit));
                }
                links.push(json!({"templateId": tid, "newId": lid, "values": vals}));
                plan.templates.push((tid.clone(), src));
                plan.links.push((tid, lid.clone(), l.0.clone(), l.1.clone()));
                plan.insts.push(Inst { id: lid, pol: a.pol.clone(), slot_principal: l.0.clone(), slot_resource: l.1.clone() });
            }
        }
    }
    let mut doc = serde_json::Map::new();
    match shape {
        Shape::Concat => {
            doc.insert("staticPolicies".into(), json!(concat));
        }
        Shape::Array => {
            doc.insert("staticPolicies".into(), J::Array(statics_doc.into_iter().map(|(_, j)| j).collect()));
        }
        Shape::MapText | Shape::MapJson | Shape::Mixed => {
            if !(shape == Shape::Mixed && statics_doc.is_empty()) {
                let mut m = serde_json::Map::new();
                for (id, j) in statics_doc {
                    m.insert(id.unwrap(), j);
                }
                doc.insert("staticPolicies".into(), J::Object(m));
            }
        }
    }
    if !(shape == Shape::Mixed && templates.is_empty()) {
        doc.insert("templates".into(), J::Object(templates));
    }
    if !(shape == Shape::Mixed && links.is_empty()) {
        doc.insert("templateLinks".into(), J::Array(links));
    }
    (J::Object(doc), plan)
}

pub fn slot_map(p: &Option<Uid>, r: &Option<Uid>) -> HashMap<cedar_policy::SlotId, cedar_policy::EntityUid> {
    let mut m = HashMap::new();
    if let Some(p) = p {
        m.insert(cedar_policy::SlotId::principal(), c_uid(p));
    }
    if let Some(r) = r {
        m.insert(cedar_policy::SlotId::resource(), c_uid(r));
    }
    m
}

/// assemble the policy set through the plain Rust API, one object at a time
pub fn api_pset(plan: &Plan) -> Result<cedar_policy::PolicySet, String> {
    let pid = |s: &str| cedar_policy::PolicyId::new(s);
    let mut pset = cedar_policy::PolicySet::new();
    for (id, src) in &plan.statics {
        let id = id.as_deref().map(pid);
        let p = match src {
            Src::Text(t) => cedar_policy::Policy::parse(id, t).map_err(|e| format!("Policy::parse: {e}"))?,
            Src::Json(j) => cedar_policy::Policy::from_json(id, j.clone()).map_err(|e| format!("Policy::from_json: {e}"))?,
        };
        pset.add(p).map_err(|e| format!("PolicySet::add: {e}"))?;
    }
    for (id, src) in &plan.templates {
        let t = match src {
            Src::Text(t) => cedar_policy::Template::parse(Some(pid(id)), t).map_err(|e| format!("Template::parse: {e}"))?,
            Src::Json(j) => cedar_policy::Template::from_json(Some(pid(id)), j.clone()).map_err(|e| format!("Template::from_json: {e}"))?,
        };
        pset.add_template(t).map_err(|e| format!("add_template: {e}"))?;
    }
    for (tid, lid, p, r) in &plan.links {
        pset.link(pid(tid), pid(lid), slot_map(p, r)).map_err(|e| format!("link: {e}"))?;
    }
    Ok(pset)
}

// ---------------------------------------------------------------------------------------
// world: schema in both syntaxes, entity / context documents, requests
// ---------------------------------------------------------------------------------------

#[derive(Clone, Copy, Debug, PartialEq, Eq, Hash, Serialize, Deserialize)]
pub enum SchemaKind {
    None,
    Json,
    Cedar,
}
pub const SCHEMA_KINDS: [SchemaKind; 3] = [SchemaKind::None, SchemaKind::Json, SchemaKind::Cedar];

#[derive(Clone, Copy, Debug, PartialEq, Eq, Hash, Serialize, Deserialize)]
pub enum Vr {
    Absent,
    True,
    False,
}
pub const VRS: [Vr; 3] = [Vr::Absent, Vr::True, Vr::False];

impl Vr {
    pub fn validates(self) -> bool {
        self != Vr::False
    }
}

/// schema of the universe W (world.rs), written by hand in the Cedar schema syntax
pub const SCHEMA_W_CEDAR: &str = r#"entity Group in [Group];
entity User in [Group] = { age: Long, nick?: String, mgr?: User, "k y"?: Bool } tags String;
entity Doc in [Group] = { owner: User, labels: Set<String>, meta: { pub: Bool, rev?: Long }, ip?: ipaddr } tags Long;
action readers;
action view in [readers] appliesTo { principal: [User], resource: [Doc, Group], context: { n: Long, who?: User, flag?: Bool } };
action edit appliesTo { principal: [User], resource: [Doc], context: {} };
"#;

/// the same schema in the JSON schema syntax
pub fn schema_w_json() -> J {
    json!({"": {
        "entityTypes": {
            "Group": {"memberOfTypes": ["Group"]},
            "User": {"memberOfTypes": ["Group"], "shape": {"type": "Record", "attributes": {
                "age": {"type": "Long"},
                "nick": {"type": "String", "required": false},
                "mgr": {"type": "Entity", "name": "User", "required": false},
                "k y": {"type": "Boolean", "required": false}}},
                "tags": {"type": "String"}},
            "Doc": {"memberOfTypes": ["Group"], "shape": {"type": "Record", "attributes": {
                "owner": {"type": "Entity", "name": "User"},
                "labels": {"type": "Set", "element": {"type": "String"}},
                "meta": {"type": "Record", "attributes": {"pub": {"type": "Boolean"}, "rev": {"type": "Long", "required": false}}},
                "ip": {"type": "Extension", "name": "ipaddr", "required": false}}},
                "tags": {"type": "Long"}}
        },
        "actions": {
            "readers": {},
            "view": {"memberOf": [{"id": "readers"}], "appliesTo": {
                "principalTypes": ["User"], "resourceTypes": ["Doc", "Group"],
                "context": {"type": "Record", "attributes": {
                    "n": {"type": "Long"},
                    "who": {"type": "Entity", "name": "User", "required": false},
                    "flag": {"type": "Boolean", "required": false}}}}},
            "edit": {"appliesTo": {"principalTypes": ["User"], "resourceTypes": ["Doc"],
                "context": {"type": "Record", "attributes": {}}}}
        }
    }})
}

/// a second schema (used by the cache leg): `view` applies to Group principals only and wants
/// a string `n`, so that answers differ from those under W
pub const SCHEMA_2_CEDAR: &str = r#"entity Group in [Group];
entity User in [Group] = { age: Long, nick?: String, mgr?: User, "k y"?: Bool } tags String;
entity Doc in [Group] = { owner: User, labels: Set<String>, meta: { pub: Bool, rev?: Long }, ip?: ipaddr } tags Long;
action readers;
action view in [readers] appliesTo { principal: [Group], resource: [Doc], context: { n: String } };
action edit appliesTo { principal: [User], resource: [Doc, Group], context: {} };
"#;

pub fn schema_doc(k: SchemaKind) -> Option<J> {
    match k {
        SchemaKind::None => None,
        SchemaKind::Json => Some(schema_w_json()),
        SchemaKind::Cedar => Some(json!(SCHEMA_W_CEDAR)),
    }
}

/// oracle side: the schema through `Schema::from_*` (the FFI goes through `SchemaFragment`)
pub fn api_schema(k: SchemaKind) -> Result<Option<cedar_policy::Schema>, String> {
    match k {
        SchemaKind::None => Ok(None),
        SchemaKind::Json => cedar_policy::Schema::from_json_value(schema_w_json()).map(Some).map_err(|e| e.to_string()),
        SchemaKind::Cedar => cedar_policy::Schema::from_cedarschema_str(SCHEMA_W_CEDAR).map(|(s, _)| Some(s)).map_err(|e| e.to_string()),
    }
}

/// value -> Cedar JSON; `implicit` = schema-implicit form (entity refs as {type,id}, extension
/// values as their constructor string)
pub fn val_js(v: &Val, implicit: bool) -> J {
    match v {
        Val::Bool(x) => json!(x),
        Val::Long(x) => json!(x),
        Val::Str(x) => json!(x),
        Val::Uid(u) => uid_js(u, implicit),
        Val::Set(s) => J::Array(s.iter().map(|x| val_js(x, implicit)).collect()),
        Val::Rec(r) => J::Object(r.iter().map(|(k, x)| (k.clone(), val_js(x, implicit))).collect()),
        Val::Ext(x) => {
            if implicit {
                match refsem::ext::to_expr(x) {
                    E::Ext(_, args) if args.len() == 1 => match &args[0] {
                        E::Str(s) => json!(s),
                        _ => refsem::print::ext_json(x),
                    },
                    _ => refsem::print::ext_json(x),
                }
            } else {
                refsem::print::ext_json(x)
            }
        }
    }
}

pub fn entities_js(s: &Store, implicit: bool) -> J {
    J::Array(
        s.ents
            .iter()
            .map(|(u, e)| {
                let mut m = serde_json::Map::new();
                m.insert("uid".into(), uid_js(u, implicit));
                m.insert("attrs".into(), J::Object(e.attrs.iter().map(|(k, x)| (k.clone(), val_js(x, implicit))).collect()));
                m.insert("parents".into(), J::Array(e.parents.iter().map(|p| uid_js(p, implicit)).collect()));
                if !e.tags.is_empty() {
                    m.insert("tags".into(), J::Object(e.tags.iter().map(|(k, x)| (k.clone(), val_js(x, implicit))).collect()));
                }
                J::Object(m)
            })
            .collect(),
    )
}

pub fn context_js(c: &BTreeMap<String, Val>, implicit: bool) -> J {
    J::Object(c.iter().map(|(k, x)| (k.clone(), val_js(x, implicit))).collect())
}

/// 3 requests that conform to W, 3 that violate it (so that validateRequest matters), and one
/// asked against a store that violates W (so that schema-based entity parsing matters)
pub fn requests() -> Vec<(&'static str, Req)> {
    let ctx = |v: Vec<(&str, Val)>| -> BTreeMap<String, Val> { v.into_iter().map(|(k, x)| (k.to_string(), x)).collect() };
    vec![
        ("valid:view", req1()),
        ("valid:edit", req2()),
        ("valid:group-resource", req3()),
        ("invalid:principal-type", Req { principal: gg(), action: view(), resource: dd(), context: ctx(vec![("n", Val::Long(1))]) }),
        ("invalid:context-type", Req { principal: ua(), action: view(), resource: dd(), context: ctx(vec![("n", Val::Str("one".into()))]) }),
        ("invalid:unknown-action", Req { principal: ua(), action: u("Action", "delete"), resource: dd(), context: ctx(vec![]) }),
        // asked against a store that violates the schema (see `store_for`)
        ("valid:view/nonconforming-store", req1()),
    ]
}

/// index of the request that is asked against the non-conforming store
pub const REQ_BAD_STORE: usize = 6;

/// the entity store a request is asked against: store1, except for the last request, whose
/// store has a string where W declares `age: Long` (accepted without a schema, rejected with one)
pub fn store_for(req: usize) -> Store {
    let mut s = store1();
    if req == REQ_BAD_STORE {
        if let Some(e) = s.ents.get_mut(&ua()) {
            e.attrs.insert("age".into(), Val::Str("3".into()));
        }
    }
    s
}

// ---------------------------------------------------------------------------------------
// canonical answers
// ---------------------------------------------------------------------------------------

/// canonical (sorted) view of an authorization answer
#[derive(Clone, Debug, PartialEq, Eq, Hash, Serialize, Deserialize)]
pub enum Ans {
    Success {
        decision: String,
        reasons: Vec<String>,
        /// (policy id, message)
        errors: Vec<(String, String)>,
    },
    /// sorted error messages
    Failure(Vec<String>),
    /// the answer document does not have the documented form
    Malformed(String),
}

impl Ans {
    pub fn class(&self) -> String {
        match self {
            Ans::Success { decision, reasons, errors } => format!("{decision}/reasons{}/errors{}", reasons.len().min(2), errors.len().min(2)),
            Ans::Failure(_) => "failure".into(),
            Ans::Malformed(_) => "malformed".into(),
        }
    }
    /// decision, reasons, erroring ids
    pub fn core(&self) -> Option<(String, Vec<String>, Vec<String>)> {
        match self {
            Ans::Success { decision, reasons, errors } => Some((decision.clone(), reasons.clone(), errors.iter().map(|e| e.0.clone()).collect())),
            _ => None,
        }
    }
}

pub fn err_messages(v: &J) -> Result<Vec<String>, String> {
    let arr = v.as_array().ok_or("errors is not an array")?;
    let mut out = Vec::new();
    for e in arr {
        out.push(e["message"].as_str().ok_or("error without message")?.to_string());
    }
    out.sort();
    Ok(out)
}

/// read an `AuthorizationAnswer` document
pub fn canon_auth(v: &J) -> Ans {
    let go = || -> Result<Ans, String> {
        match v["type"].as_str() {
            Some("success") => {
                let r = &v["response"];
                let decision = r["decision"].as_str().ok_or("no decision")?.to_string();
                let mut reasons: Vec<String> = Vec::new();
                for x in r["diagnostics"]["reason"].as_array().ok_or("no reason array")? {
                    reasons.push(x.as_str().ok_or("reason is not a string")?.to_string());
                }
                reasons.sort();
                let mut errors = Vec::new();
                for x in r["diagnostics"]["errors"].as_array().ok_or("no errors array")? {
                    errors.push((x["policyId"].as_str().ok_or("no policyId")?.to_string(), x["error"]["message"].as_str().ok_or("no error message")?.to_string()));
                }
                errors.sort();
                if !v["warnings"].is_array() {
                    return Err("no warnings array".into());
                }
                Ok(Ans::Success { decision, reasons, errors })
            }
            Some("failure") => {
                let m = err_messages(&v["errors"])?;
                if m.is_empty() {
                    return Err("failure without errors".into());
                }
                Ok(Ans::Failure(m))
            }
            _ => Err("no type tag".into()),
        }
    };
    go().unwrap_or_else(|e| Ans::Malformed(format!("{e}: {v}")))
}

/// message of a diagnostic the way the FFI documents it: Display plus the chain of causes
pub fn chain_msg(e: &dyn std::error::Error) -> String {
    let mut s = e.to_string();
    let mut src = e.source();
    while let Some(x) = src {
        s.push_str(": ");
        s.push_str(&x.to_string());
        src = x.source();
    }
    s
}

pub fn canon_api(r: &cedar_policy::Response) -> Ans {
    let mut reasons: Vec<String> = r.diagnostics().reason().map(|p| AsRef::<str>::as_ref(p).to_string()).collect();
    reasons.sort();
    let mut errors: Vec<(String, String)> = r
        .diagnostics()
        .errors()
        .map(|e| match e {
            cedar_policy::AuthorizationError::PolicyEvaluationError(pe) => (AsRef::<str>::as_ref(pe.policy_id()).to_string(), chain_msg(pe.inner())),
        })
        .collect();
    errors.sort();
    Ans::Success {
        decision: match r.decision() {
            cedar_policy::Decision::Allow => "allow".into(),
            cedar_policy::Decision::Deny => "deny".into(),
        },
        reasons,
        errors,
    }
}

pub fn canon_ref(r: &Resp) -> (String, Vec<String>, Vec<String>) {
    (
        match r.decision {
            Decision::Allow => "allow".into(),
            Decision::Deny => "deny".into(),
        },
        r.reasons.iter().cloned().collect(),
        r.errors.iter().cloned().collect(),
    )
}

// ---------------------------------------------------------------------------------------
// leg 1: is_authorized_json
// ---------------------------------------------------------------------------------------

#[derive(Clone, Debug, Serialize, Deserialize)]
pub struct AuthCase {
    pub atoms: Vec<Atom>,
    pub shape: Shape,
    pub spelling: Spelling,
    pub schema: SchemaKind,
    pub vr: Vr,
    /// schema-implicit data (only generated together with a schema)
    pub implicit: bool,
    pub req: usize,
}

impl AuthCase {
    fn labels(&self) -> Vec<String> {
        self.atoms.iter().map(|a| format!("{:?}:{}", a.pol.effect, a.label)).collect()
    }
}

/// the complete FFI call document
pub fn auth_call(c: &AuthCase, reqs: &[(&'static str, Req)]) -> (J, Plan) {
    let (pols, plan) = policies_doc(&c.atoms, c.shape, c.spelling, c.implicit);
    let r = &reqs[c.req].1;
    let mut m = serde_json::Map::new();
    m.insert("principal".into(), uid_js(&r.principal, c.implicit));
    m.insert("action".into(), uid_js(&r.action, c.implicit));
    m.insert("resource".into(), uid_js(&r.resource, c.implicit));
    m.insert("context".into(), context_js(&r.context, c.implicit));
    if let Some(s) = schema_doc(c.schema) {
        m.insert("schema".into(), s);
    }
    match c.vr {
        Vr::Absent => {}
        Vr::True => {
            m.insert("validateRequest".into(), json!(true));
        }
        Vr::False => {
            m.insert("validateRequest".into(), json!(false));
        }
    }
    m.insert("policies".into(), pols);
    m.insert("entities".into(), entities_js(&store_for(c.req), c.implicit));
    (J::Object(m), plan)
}

/// per-thread memo of the oracle-side objects that do not depend on the policy set
#[derive(Default)]
struct Memo {
    schemas: HashMap<SchemaKind, Result<Option<cedar_policy::Schema>, String>>,
    entities: HashMap<(SchemaKind, bool, bool), Result<cedar_policy::Entities, String>>,
    requests: HashMap<(SchemaKind, bool, bool, usize), Result<cedar_policy::Request, String>>,
}

thread_local! {
    static MEMO: RefCell<Memo> = RefCell::new(Memo::default());
}

/// request, entities through the plain API for (schema kind, implicit, validate, request index)
pub fn api_env(schema_kind: SchemaKind, implicit: bool, validates: bool, req: usize, reqs: &[(&'static str, Req)]) -> Result<(cedar_policy::Request, cedar_policy::Entities), String> {
    MEMO.with(|m| {
        let mut m = m.borrow_mut();
        let schema = m.schemas.entry(schema_kind).or_insert_with(|| api_schema(schema_kind)).clone()?;
        let ents = m
            .entities
            .entry((schema_kind, implicit, req == REQ_BAD_STORE))
            .or_insert_with(|| cedar_policy::Entities::from_json_value(entities_js(&store_for(req), implicit), schema.as_ref()).map_err(|e| format!("entities: {e}")))
            .clone()?;
        let req = m
            .requests
            .entry((schema_kind, implicit, validates, req))
            .or_insert_with(|| {
                let r = &reqs[req].1;
                let action = c_uid(&r.action);
                let ctx = cedar_policy::Context::from_json_value(context_js(&r.context, implicit), schema.as_ref().map(|s| (s, &action))).map_err(|e| format!("context: {e}"))?;
                cedar_policy::Request::new(c_uid(&r.principal), action, c_uid(&r.resource), ctx, if validates { schema.as_ref() } else { None }).map_err(|e| format!("request: {e}"))
            })
            .clone()?;
        Ok((req, ents))
    })
}

fn ids_distinct(plan: &Plan) -> bool {
    let mut ids: Vec<&str> = plan.insts.iter().map(|i| i.id.as_str()).collect();
    ids.extend(plan.templates.iter().map(|t| t.0.as_str()));
    let n = ids.len();
    ids.sort();
    ids.dedup();
    ids.len() == n
}

pub fn check_auth(ctx: &Ctx, c: &AuthCase, reqs: &[(&'static str, Req)], l: &mut Local) -> Vec<(String, String)> {
    let mut bad = Vec::new();
    let (call, plan) = auth_call(c, reqs);
    let tag = format!("{:?}:{:?}", c.shape, c.schema);
    // --- implementation: both entry points
    let case_json = || json!({"kind": "authz", "case": c});
    let Some(ffi_v) = ctx.guard("ffi::is_authorized_json", case_json, || ffi::is_authorized_json(call.clone())) else { return bad };
    // the string entry point differs only in how the call is deserialised: exercised on the
    // first request of every (policy set, shape, schema, validateRequest, form) combination
    let with_str = c.req == 0;
    let ffi_s = if with_str {
        let Some(r) = ctx.guard("ffi::is_authorized_json_str", case_json, || ffi::is_authorized_json_str(&call.to_string())) else { return bad };
        l.transitions += 1;
        Some(r)
    } else {
        None
    };
    l.transitions += 1;
    let got = match &ffi_v {
        Ok(v) => canon_auth(v),
        Err(e) => Ans::Failure(vec![format!("call rejected: {e}")]),
    };
    let got_s = match &ffi_s {
        None => got.clone(),
        Some(Ok(s)) => match serde_json::from_str::<J>(s) {
            Ok(v) => canon_auth(&v),
            Err(e) => Ans::Malformed(format!("output is not JSON: {e}")),
        },
        Some(Err(e)) => Ans::Failure(vec![format!("call rejected: {e}")]),
    };
    if let Ans::Malformed(m) = &got {
        bad.push((format!("authz:malformed-answer:{tag}"), format!("answer of is_authorized_json is malformed: {m}")));
    }
    if got != got_s {
        bad.push((format!("authz:json-vs-str:{tag}"), format!("is_authorized_json and is_authorized_json_str disagree on {:?}: {got:?} vs {got_s:?}", c.labels())));
    }
    // --- oracle: plain API
    let api: Result<Ans, String> = (|| {
        let (req, ents) = api_env(c.schema, c.implicit, c.vr.validates(), c.req, reqs)?;
        let pset = api_pset(&plan)?;
        Ok(canon_api(&cedar_policy::Authorizer::new().is_authorized(&req, &pset, &ents)))
    })();
    // a multi-element array gives every element the default id of its format
    let n_text = plan.statics.iter().filter(|s| s.0.is_none() && matches!(s.1, Src::Text(_))).count();
    let n_json = plan.statics.iter().filter(|s| s.0.is_none() && matches!(s.1, Src::Json(_))).count();
    let multi_array = c.shape == Shape::Array && (n_text >= 2 || n_json >= 2);
    let class = match &api {
        Ok(a) => a.class(),
        Err(e) => format!("failure:{}", e.split(':').next().unwrap_or("")),
    };
    l.case(hash_of(&(c.labels(), c.shape, c.spelling, c.schema, c.vr, c.implicit, c.req)), &class, api.is_ok() && !c.atoms.is_empty());
    match (&api, &got) {
        (Ok(want), Ans::Success { .. }) => {
            if want != &got {
                let part = if want.core() != got.core() { diff_part(want, &got) } else { "error-messages" };
                bad.push((
                    format!("authz:{part}:{tag}"),
                    format!("{:?} request {} implicit={} spelling {:?}: API gives {want:?}, is_authorized_json gives {got:?}", c.labels(), reqs[c.req].0, c.implicit, c.spelling),
                ));
            }
        }
        (Ok(want), _) => bad.push((
            format!("authz:ffi-fails-api-answers:{tag}"),
            format!("{:?} request {} implicit={}: API answers {want:?} but is_authorized_json fails: {got:?}", c.labels(), reqs[c.req].0, c.implicit),
        )),
        (Err(e), Ans::Success { .. }) => bad.push((
            format!("authz:ffi-answers-api-fails:{tag}:{}", e.split(':').next().unwrap_or("")),
            format!("{:?} request {} implicit={}: API assembly fails ({e}) but is_authorized_json answers {got:?}", c.labels(), reqs[c.req].0, c.implicit),
        )),
        (Err(_), _) => {}
    }
    // a multi-element array gives every element the default id: failure on both sides is the
    // documented agreement, asserted as such
    if multi_array && (api.is_ok() || matches!(got, Ans::Success { .. })) {
        bad.push((format!("authz:multi-array-accepted:{tag}"), format!("{:?}: a staticPolicies array with {n_text} text and {n_json} JSON elements was accepted (api ok: {}, ffi: {got:?})", c.labels(), api.is_ok())));
    }
    // --- third opinion: reference authorizer (independent of cedar's evaluator)
    if let (Ok(want), true) = (&api, ids_distinct(&plan)) {
        let r = authorize(&plan.insts, &reqs[c.req].1, &store_for(c.req));
        if want.core() != Some(canon_ref(&r)) {
            bad.push((format!("authz:api-vs-reference:{tag}"), format!("{:?} request {}: reference authorizer gives {r:?}, API gives {want:?}", c.labels(), reqs[c.req].0)));
        }
    }
    bad
}

fn diff_part(a: &Ans, b: &Ans) -> &'static str {
    match (a.core(), b.core()) {
        (Some(x), Some(y)) => {
            if x.0 != y.0 {
                "decision"
            } else if x.1 != y.1 {
                "reasons"
            } else {
                "errors"
            }
        }
        _ => "kind",
    }
}

pub fn auth_cases(tier: Tier) -> Vec<AuthCase> {
    let tuples = atom_tuples(tier.pick(2, 3));
    let nreq = requests().len();
    // quick: 2 conforming requests, 2 that violate the schema, and the non-conforming store
    let req_ids: Vec<usize> = match tier {
        Tier::Quick => vec![0, 1, 3, 4, REQ_BAD_STORE],
        Tier::Thorough => (0..nreq).collect(),
    };
    let mut out = Vec::new();
    for (ti, atoms) in tuples.iter().enumerate() {
        for (si, shape) in SHAPES.iter().enumerate() {
            let spellings: Vec<Spelling> = match shape {
                Shape::Concat | Shape::Array => vec![Spelling::Default],
                // quick: the spelling rotates over the tuples; thorough: all three
                _ => match tier {
                    Tier::Quick => vec![SPELLINGS[(ti + si) % 3]],
                    Tier::Thorough => SPELLINGS.to_vec(),
                },
            };
            for sp in spellings {
                for schema in SCHEMA_KINDS {
                    let forms: &[bool] = if schema == SchemaKind::None { &[false] } else { &[false, true] };
                    for &implicit in forms {
                        for vr in VRS {
                            for &req in &req_ids {
                                out.push(AuthCase { atoms: atoms.clone(), shape: *shape, spelling: sp, schema, vr, implicit, req });
                            }
                        }
                    }
                }
            }
        }
    }
    out
}

fn run_auth(ctx: &Ctx, tier: Tier) {
    let reqs = requests();
    let cs = auth_cases(tier);
    let total = cs.len();
    ctx.set_info("authz_cases", json!(total));
    // rotate the visiting order by the seed (never selects a subset)
    let rot = if total == 0 { 0 } else { (ctx.seed as usize * 7919) % total };
    let order: Vec<usize> = (0..total).map(|i| (i + rot) % total).collect();
    order.par_chunks(256).for_each(|chunk| {
        let mut l = Local::default();
        for &i in chunk {
            let c = &cs[i];
            let res = ctx.guard("C19 authz case", || json!({"kind": "authz", "case": c}), || check_auth(ctx, c, &reqs, &mut l));
            for (fp, what) in res.unwrap_or_default() {
                ctx.violation(fp, what, json!({"kind": "authz", "case": c}));
            }
            if i == 0 || i == total / 2 || i + 1 == total {
                ctx.sample(json!({"leg": "authz", "atoms": c.labels(), "shape": format!("{:?}", c.shape), "spelling": format!("{:?}", c.spelling), "schema": format!("{:?}", c.schema), "validateRequest": format!("{:?}", c.vr), "implicit": c.implicit, "request": reqs[c.req].0}));
            }
        }
        ctx.merge(l);
    });
}

// ---------------------------------------------------------------------------------------
// replay / run
// ---------------------------------------------------------------------------------------

fn replay(path: &str) -> i32 {
    let Some(doc) = std::fs::read_to_string(path).ok().and_then(|s| serde_json::from_str::<J>(&s).ok()) else {
        eprintln!("cannot read {path}");
        return 2;
    };
    if doc["property"].as_str() != Some("C19") {
        eprintln!("replay file is not a C19 case");
        return 2;
    }
    let case = &doc["case"];
    let ctx = Ctx::new("C19", Tier::Quick);
    let mut l = Local::default();
    let bad: Vec<(String, String)> = match case["kind"].as_str() {
        Some("authz") => match serde_json::from_value::<AuthCase>(case["case"].clone()) {
            Ok(c) => {
                let reqs = requests();
                let (call, _) = auth_call(&c, &reqs);
                println!("call: {call}");
                check_auth(&ctx, &c, &reqs, &mut l)
            }
            Err(e) => {
                eprintln!("bad authz case: {e}");
                return 2;
            }
        },
        Some("misc") => match serde_json::from_value::<misc::Item>(case["item"].clone()) {
            Ok(it) => misc::check_item(&ctx, &it, &mut l),
            Err(e) => {
                eprintln!("bad misc item: {e}");
                return 2;
            }
        },
        Some("cache") => match serde_json::from_value::<Vec<cache::Op>>(case["history"].clone()) {
            Ok(h) => cache::replay_history(&h),
            Err(e) => {
                eprintln!("bad cache history: {e}");
                return 2;
            }
        },
        Some("cli") => match serde_json::from_value::<cli::CliCase>(case["case"].clone()) {
            Ok(c) => match cli::replay_case(&c) {
                Ok(b) => b,
                Err(e) => {
                    eprintln!("MACHINERY ERROR: {e}");
                    return 2;
                }
            },
            Err(e) => {
                eprintln!("bad cli case: {e}");
                return 2;
            }
        },
        _ => {
            eprintln!("replay file holds no C19 case kind");
            return 2;
        }
    };
    // panics caught by ctx.guard during the replay count as failures too
    let panicked = ctx.violation_seen() > 0;
    for (fp, what) in &bad {
        println!("  [{fp}] {what}");
    }
    if bad.is_empty() && !panicked {
        println!("no mismatch on replay");
        0
    } else {
        println!("VIOLATION property=C19 replay={path}");
        1
    }
}

pub fn run(tier: Tier, replay_file: Option<&str>) -> i32 {
    if let Some(p) = replay_file {
        return replay(p);
    }
    let ctx = Ctx::new("C19", tier);
    quiet_panics();
    // development aid: C19_LEGS=authz,misc,cache,cli restricts the legs; the run is then
    // reported as not exhaustive
    let legs = std::env::var("C19_LEGS").ok();
    let on = |name: &str| legs.as_deref().map(|l| l.split(',').any(|x| x == name)).unwrap_or(true);
    if legs.is_some() {
        ctx.cap_hit("C19_LEGS restricts the legs that were run");
    }
    if on("authz") {
        run_auth(&ctx, tier);
        ctx.set_info("t_authz_s", json!(ctx.elapsed()));
    }
    if on("misc") {
        misc::run(&ctx, tier);
        ctx.set_info("t_misc_s", json!(ctx.elapsed()));
    }
    if on("cache") {
        if let Err(e) = cache::run(&ctx, tier) {
            eprintln!("MACHINERY ERROR: cache leg: {e}");
            return 2;
        }
        ctx.set_info("t_cache_s", json!(ctx.elapsed()));
    }
    if on("cli") {
        if let Err(e) = cli::run(&ctx, tier) {
            eprintln!("MACHINERY ERROR: CLI leg: {e}");
            return 2;
        }
        ctx.set_info("t_cli_s", json!(ctx.elapsed()));
    }
    ctx.finish(
        "case = one front-end call (FFI authorization call: tuple of behaviour atoms x shape x spelling x schema syntax x validateRequest x data form x request; validation / format / check-parse / conversion call: one table entry x its settings; cache: one (history, operation) transition; CLI: one command line); non-trivial = the call got past input assembly on the oracle side (authorization reached with >= 1 policy, validation ran, conversion/format succeeded, a cache transition after >= 1 registration, a CLI run that produced a decision or output)",
        json!({
            "tier": tier.name(),
            "authz": {"max_policies": tier.pick(2, 3), "shapes": 5, "spellings": tier.pick("1 rotating (map shapes)", "3 (map shapes)"), "schema": ["none", "json", "cedar"], "validateRequest": ["absent", "true", "false"], "data_forms": "explicit; schema-implicit when a schema is given", "requests": tier.pick("2 conforming + 2 violating the schema + 1 on a store that violates the schema", "3 conforming + 3 violating the schema + 1 on a store that violates the schema")},
            "validate": format!("50 policy sets (40 single policies: valid / ill-typed / impossible / warning, 4 template+link pairs, 4 multi-policy sets, unparseable, empty) x 4 schemas (W in both syntaxes, a second schema, an unparseable one) x {{settings absent, strict, permissive, partial}} x {} policy shapes", tier.pick(2, 3)),
            "format": "51 texts x {defaults, 4 (lineWidth, indentWidth) configs}",
            "check_parse": "46 policy-set documents, 26 schemas, 24 entity documents x {no schema, W cedar, W json, unparseable schema}, 32 contexts x the same 4, 72 scope-variable triples",
            "convert": "94 static + 22 template sources (text and EST) through policy/template_to_json/text, 26 schemas through schema_to_text/json, 9 policy-set texts x 3 separators through policy_set_text_to_parts",
            "cache": {"names": ["A", "B"], "psets": ["P1", "P2", "unparseable"], "schemas": ["S1", "S2", "unparseable"], "requests": 4, "bfs": "fixpoint over (model, observation) states, every op in every state", "unpruned_sequence_length": tier.pick(3, 4)},
            "cli": {"grid_cases": tier.pick(90, 373), "commands": ["authorize", "validate", "translate-policy", "translate-schema", "format --check"], "note": "deterministic grid (parameters rotate over the policy-set tuples), counts per command in cli_cases"},
        }),
        &[
            "the oracle for FFI calls is cedar's own plain Rust API (Policy::parse / from_json with explicit ids, Template::parse + link, Schema::from_*, Entities::from_json_value, Context::from_json_value, Request::new, Authorizer, Validator, formatter), as DESIGN C19 prescribes; authorization answers are additionally compared with the reference authorizer of refsem",
            "failures are compared as failures (messages of input-assembly errors are not compared; evaluation-error and validation messages are)",
            "cache histories run in fresh threads; a process-global (non thread-local) leak would be seen by the second-thread check only",
            "cedar-wasm is not exercised (re-exports only)",
        ],
        true,
    )
}
