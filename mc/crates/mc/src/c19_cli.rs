//! C19 leg 7: the `cedar` command line. The binary is (re)built from the repository the
//! harness itself is bound to (cargo is a no-op when it is up to date), inputs are written
//! under <target>/scratch/c19/, and exit status, printed decision, reasons, erroring ids and
//! translated / formatted output are compared with the API.
use super::misc::{policy_table, schema_table, template_table, SchemaIn};
use super::{api_env, api_pset, atom_tuples, canon_api, context_js, entities_js, requests, schema_w_json, Ans, Atom, Plan, SchemaKind, Src, Vr, SCHEMA_W_CEDAR};
use crate::harness::*;
use rayon::prelude::*;
use refsem::print::Style;
use refsem::*;
use serde::{Deserialize, Serialize};
use serde_json::{json, Value as J};
use std::path::{Path, PathBuf};
use std::process::Command;

#[derive(Clone, Copy, Debug, PartialEq, Eq, Hash, Serialize, Deserialize)]
pub enum PFormat {
    /// Cedar text, ids policy0.. by position
    Cedar,
    /// Cedar text, every policy / template carries an @id annotation (the CLI renames by it)
    CedarAnnotated,
    /// JSON policy set (statics, templates and links in one document)
    JsonSet,
}

#[derive(Clone, Debug, Serialize, Deserialize)]
pub enum CliCase {
    Authorize { atoms: Vec<Atom>, pformat: PFormat, schema: SchemaKind, vr: Vr, implicit: bool, req: usize, request_json: bool },
    /// a single JSON (EST) policy or template as the policies file
    AuthorizeSingleJson { atom: Atom, req: usize },
    Validate { texts: Vec<String>, json_policies: bool, schema: SchemaIn, deny_warnings: bool },
    TranslatePolicyToJson { texts: Vec<String>, annotated: bool },
    TranslatePolicyToCedar { atoms: Vec<Atom>, with_links: bool },
    TranslateSchema { schema: SchemaIn },
    FormatCheck { text: String, config: Option<(usize, isize)>, preformatted: bool },
}

// ---------------------------------------------------------------------------------------
// locating / building the binary
// ---------------------------------------------------------------------------------------

/// <target root>: the executable lives in <target root>/<profile>/mc
pub fn target_root() -> Result<PathBuf, String> {
    let exe = std::env::current_exe().map_err(|e| format!("current_exe: {e}"))?;
    exe.parent().and_then(|p| p.parent()).map(|p| p.to_path_buf()).ok_or_else(|| format!("cannot derive the target directory from {}", exe.display()))
}

/// the repository this harness was compiled against (path of the cedar-policy dependency)
pub fn repo_root() -> Result<PathBuf, String> {
    let manifest = include_str!(concat!(env!("CARGO_MANIFEST_DIR"), "/Cargo.toml"));
    for line in manifest.lines() {
        let line = line.trim();
        if line.starts_with("cedar-policy ") || line.starts_with("cedar-policy=") {
            if let Some(i) = line.find("path = \"") {
                let rest = &line[i + 8..];
                if let Some(j) = rest.find('"') {
                    let p = PathBuf::from(&rest[..j]);
                    return p.parent().map(|x| x.to_path_buf()).ok_or_else(|| "cedar-policy path has no parent".to_string());
                }
            }
        }
    }
    Err("cannot find the cedar-policy path dependency in the harness manifest".into())
}

pub fn scratch_dir() -> Result<PathBuf, String> {
    let d = target_root()?.join("scratch").join("c19");
    std::fs::create_dir_all(&d).map_err(|e| format!("create {}: {e}", d.display()))?;
    Ok(d)
}

/// Build (or refresh) the CLI with cargo into <target root>/cli and return the binary.
/// `C19_CEDAR_BIN` overrides (no build); `C19_CLI_JOBS` limits cargo's parallelism.
pub fn ensure_cli() -> Result<(PathBuf, f64, String), String> {
    if let Ok(p) = std::env::var("C19_CEDAR_BIN") {
        let p = PathBuf::from(p);
        if p.is_file() {
            return Ok((p, 0.0, "C19_CEDAR_BIN override".into()));
        }
        return Err(format!("C19_CEDAR_BIN={} is not a file", p.display()));
    }
    let t0 = std::time::Instant::now();
    let repo = repo_root()?;
    let tdir = target_root()?.join("cli");
    let log = scratch_dir()?.join("cli-build.log");
    let mut cmd = Command::new("cargo");
    cmd.arg("build").arg("--offline").arg("-p").arg("cedar-policy-cli").arg("--manifest-path").arg(repo.join("Cargo.toml")).arg("--target-dir").arg(&tdir);
    if let Ok(j) = std::env::var("C19_CLI_JOBS") {
        cmd.arg("-j").arg(j);
    }
    cmd.env("CARGO_NET_OFFLINE", "true").env("CARGO_PROFILE_DEV_DEBUG", "0").env_remove("CARGO_TARGET_DIR");
    let out = cmd.output().map_err(|e| format!("cannot run cargo: {e}"))?;
    let _ = std::fs::write(&log, [out.stdout.as_slice(), out.stderr.as_slice()].concat());
    if !out.status.success() {
        return Err(format!("building cedar-policy-cli failed (log: {})", log.display()));
    }
    let bin = tdir.join("debug").join("cedar");
    if !bin.is_file() {
        return Err(format!("{} not found after the build", bin.display()));
    }
    Ok((bin, t0.elapsed().as_secs_f64(), format!("cargo build --offline -p cedar-policy-cli --manifest-path {}/Cargo.toml --target-dir {}", repo.display(), tdir.display())))
}

// ---------------------------------------------------------------------------------------
// running
// ---------------------------------------------------------------------------------------

pub struct Run {
    pub code: Option<i32>,
    pub stdout: String,
    pub stderr: String,
    pub cmdline: String,
}

fn run_cli(bin: &Path, args: &[String]) -> Result<Run, String> {
    let out = Command::new(bin).args(args).env("NO_COLOR", "1").stdin(std::process::Stdio::null()).output().map_err(|e| format!("cannot run {}: {e}", bin.display()))?;
    Ok(Run {
        code: out.status.code(),
        stdout: String::from_utf8_lossy(&out.stdout).into_owned(),
        stderr: String::from_utf8_lossy(&out.stderr).into_owned(),
        cmdline: format!("cedar {}", args.join(" ")),
    })
}

fn write(dir: &Path, name: &str, content: &str) -> Result<String, String> {
    let p = dir.join(name);
    std::fs::write(&p, content).map_err(|e| format!("write {}: {e}", p.display()))?;
    Ok(p.to_string_lossy().into_owned())
}

fn uid_text(u: &Uid) -> String {
    refsem::print::uid_text(u, false)
}

/// policies file (+ links file) for `atoms`, and the API plan with the ids the CLI must assign
fn cli_policies(atoms: &[Atom], pf: PFormat, dir: &Path) -> Result<(Vec<String>, Plan), String> {
    let st = Style::default();
    let mut plan = Plan::default();
    let mut args = Vec::new();
    match pf {
        PFormat::Cedar | PFormat::CedarAnnotated => {
            let mut text = String::new();
            let mut links = Vec::new();
            for (i, a) in atoms.iter().enumerate() {
                let id = if pf == PFormat::CedarAnnotated {
                    text.push_str(&format!("@id(\"x{i}\")\n"));
                    format!("x{i}")
                } else {
                    format!("policy{i}")
                };
                let body = a.pol.text(&st);
                text.push_str(&body);
                text.push('\n');
                // the oracle parses the element on its own (the annotation does not change meaning)
                match &a.link {
                    None => {
                        plan.statics.push((Some(id.clone()), Src::Text(body)));
                        let mut p = a.pol.clone();
                        p.id = id;
                        plan.insts.push(Inst::stat(p));
                    }
                    Some(l) => {
                        let lid = format!("link{i}");
                        plan.templates.push((id.clone(), Src::Text(body)));
                        plan.links.push((id.clone(), lid.clone(), l.0.clone(), l.1.clone()));
                        plan.insts.push(Inst { id: lid.clone(), pol: a.pol.clone(), slot_principal: l.0.clone(), slot_resource: l.1.clone() });
                        let mut m = serde_json::Map::new();
                        if let Some(p) = &l.0 {
                            m.insert("?principal".into(), json!(uid_text(p)));
                        }
                        if let Some(r) = &l.1 {
                            m.insert("?resource".into(), json!(uid_text(r)));
                        }
                        links.push(json!({"template_id": id, "link_id": lid, "args": m}));
                    }
                }
            }
            args.push("--policies".into());
            args.push(write(dir, "policies.cedar", &text)?);
            if !links.is_empty() {
                args.push("--template-linked".into());
                args.push(write(dir, "links.json", &J::Array(links).to_string())?);
            }
        }
        PFormat::JsonSet => {
            let (doc, p) = super::policies_doc(atoms, super::Shape::MapJson, super::Spelling::ReverseSorted, false);
            plan = p;
            args.push("--policies".into());
            args.push(write(dir, "policies.json", &doc.to_string())?);
            args.push("--policy-format".into());
            args.push("json".into());
        }
    }
    Ok((args, plan))
}

fn schema_args(k: SchemaKind, dir: &Path) -> Result<Vec<String>, String> {
    Ok(match k {
        SchemaKind::None => vec![],
        SchemaKind::Cedar => vec!["--schema".into(), write(dir, "schema.cedarschema", SCHEMA_W_CEDAR)?],
        SchemaKind::Json => vec!["--schema".into(), write(dir, "schema.json", &schema_w_json().to_string())?, "--schema-format".into(), "json".into()],
    })
}

fn schema_in_args(s: &SchemaIn, dir: &Path) -> Result<Vec<String>, String> {
    Ok(match s {
        SchemaIn::Cedar(t) => vec!["--schema".into(), write(dir, "schema.cedarschema", t)?],
        SchemaIn::Json(j) => vec!["--schema".into(), write(dir, "schema.json", &j.to_string())?, "--schema-format".into(), "json".into()],
    })
}

/// parse the stdout of `cedar authorize --verbose`
fn parse_authorize_stdout(s: &str) -> (Option<&'static str>, Vec<String>, Vec<String>) {
    let mut decision = None;
    let mut reasons = Vec::new();
    let mut errors = Vec::new();
    let mut in_reasons = false;
    for line in s.lines() {
        if line == "ALLOW" {
            decision = Some("allow");
        } else if line == "DENY" {
            decision = Some("deny");
        } else if line.starts_with("error while evaluating policy `") {
            let rest = &line["error while evaluating policy `".len()..];
            if let Some(j) = rest.find('`') {
                errors.push(rest[..j].to_string());
            }
        } else if line.starts_with("note: this decision was due to the following policies:") {
            in_reasons = true;
        } else if in_reasons {
            if let Some(id) = line.strip_prefix("  ") {
                reasons.push(id.to_string());
            } else {
                in_reasons = false;
            }
        }
    }
    reasons.sort();
    errors.sort();
    (decision, reasons, errors)
}

fn judge_authorize(run: &Run, api: &Result<Ans, String>, tag: &str) -> Vec<(String, String)> {
    let mut bad = Vec::new();
    let (decision, reasons, errors) = parse_authorize_stdout(&run.stdout);
    let ctxt = format!("`{}` exit {:?}\nstdout: {}\nstderr: {}", run.cmdline, run.code, run.stdout.trim(), run.stderr.trim());
    match api {
        Ok(a) => {
            let (d, r, e) = a.core().unwrap();
            let want_code = if d == "allow" { 0 } else { 2 };
            if run.code != Some(want_code) {
                bad.push((format!("cli:authorize:exit-status:{tag}"), format!("API decision {d}, expected exit status {want_code}: {ctxt}")));
            }
            if decision != Some(if d == "allow" { "allow" } else { "deny" }) {
                bad.push((format!("cli:authorize:printed-decision:{tag}"), format!("API decision {d}, printed {decision:?}: {ctxt}")));
            }
            if reasons != r {
                bad.push((format!("cli:authorize:reasons:{tag}"), format!("API reasons {r:?}, printed {reasons:?}: {ctxt}")));
            }
            if errors != e {
                bad.push((format!("cli:authorize:error-ids:{tag}"), format!("API erroring policies {e:?}, printed {errors:?}: {ctxt}")));
            }
        }
        Err(why) => {
            if run.code != Some(1) {
                bad.push((format!("cli:authorize:exit-status-on-failure:{tag}"), format!("API assembly fails ({why}), expected exit status 1: {ctxt}")));
            }
            if decision.is_some() {
                bad.push((format!("cli:authorize:decision-on-failure:{tag}"), format!("API assembly fails ({why}) but a decision is printed: {ctxt}")));
            }
        }
    }
    bad
}

/// run one case in its own directory; Err = machinery problem
pub fn check_case(bin: &Path, c: &CliCase, dir: &Path, l: &mut Local) -> Result<Vec<(String, String)>, String> {
    let _ = std::fs::remove_dir_all(dir);
    std::fs::create_dir_all(dir).map_err(|e| format!("create {}: {e}", dir.display()))?;
    let reqs = requests();
    let st = Style::default();
    let key = hash_of(&serde_json::to_string(c).unwrap_or_default());
    let mut bad = Vec::new();
    match c {
        CliCase::Authorize { atoms, pformat, schema, vr, implicit, req, request_json } => {
            let (pargs, plan) = cli_policies(atoms, *pformat, dir)?;
            let r = &reqs[*req].1;
            let mut args: Vec<String> = vec!["authorize".into(), "--verbose".into()];
            args.extend(pargs);
            args.extend(schema_args(*schema, dir)?);
            args.push("--entities".into());
            args.push(write(dir, "entities.json", &entities_js(&super::store_for(*req), *implicit).to_string())?);
            if *request_json {
                let doc = json!({"principal": uid_text(&r.principal), "action": uid_text(&r.action), "resource": uid_text(&r.resource), "context": context_js(&r.context, *implicit)});
                args.push("--request-json".into());
                args.push(write(dir, "request.json", &doc.to_string())?);
            } else {
                args.extend(["--principal".into(), uid_text(&r.principal), "--action".into(), uid_text(&r.action), "--resource".into(), uid_text(&r.resource)]);
                args.push("--context".into());
                args.push(write(dir, "context.json", &context_js(&r.context, *implicit).to_string())?);
            }
            match vr {
                Vr::Absent => {}
                Vr::True => args.extend(["--request-validation".into(), "true".into()]),
                Vr::False => args.extend(["--request-validation".into(), "false".into()]),
            }
            let run = run_cli(bin, &args)?;
            l.transitions += 1;
            let api: Result<Ans, String> = (|| {
                let (rq, ents) = api_env(*schema, *implicit, vr.validates(), *req, &reqs)?;
                let pset = api_pset(&plan)?;
                Ok(canon_api(&cedar_policy::Authorizer::new().is_authorized(&rq, &pset, &ents)))
            })();
            l.case(key, &format!("cli:authorize:{}", api.as_ref().map(|a| a.class()).unwrap_or_else(|_| "failure".into())), api.is_ok());
            bad.extend(judge_authorize(&run, &api, &format!("{pformat:?}:{schema:?}")));
        }
        CliCase::AuthorizeSingleJson { atom, req } => {
            let r = &reqs[*req].1;
            // `Policy::from_json(None, ..)` documents the default id "JSON policy"
            let mut plan = Plan::default();
            let mut args: Vec<String> = vec!["authorize".into(), "--verbose".into(), "--policies".into(), write(dir, "policy.json", &atom.pol.est().to_string())?, "--policy-format".into(), "json".into()];
            match &atom.link {
                None => plan.statics.push((Some("JSON policy".into()), Src::Json(atom.pol.est()))),
                Some(lk) => {
                    plan.templates.push(("JSON policy".into(), Src::Json(atom.pol.est())));
                    plan.links.push(("JSON policy".into(), "link0".into(), lk.0.clone(), lk.1.clone()));
                    let mut m = serde_json::Map::new();
                    if let Some(p) = &lk.0 {
                        m.insert("?principal".into(), json!(uid_text(p)));
                    }
                    if let Some(r) = &lk.1 {
                        m.insert("?resource".into(), json!(uid_text(r)));
                    }
                    args.push("--template-linked".into());
                    args.push(write(dir, "links.json", &json!([{"template_id": "JSON policy", "link_id": "link0", "args": m}]).to_string())?);
                }
            }
            args.push("--entities".into());
            args.push(write(dir, "entities.json", &entities_js(&super::store_for(*req), false).to_string())?);
            args.extend(["--principal".into(), uid_text(&r.principal), "--action".into(), uid_text(&r.action), "--resource".into(), uid_text(&r.resource)]);
            args.push("--context".into());
            args.push(write(dir, "context.json", &context_js(&r.context, false).to_string())?);
            let run = run_cli(bin, &args)?;
            l.transitions += 1;
            let api: Result<Ans, String> = (|| {
                let (rq, ents) = api_env(SchemaKind::None, false, true, *req, &reqs)?;
                let pset = api_pset(&plan)?;
                Ok(canon_api(&cedar_policy::Authorizer::new().is_authorized(&rq, &pset, &ents)))
            })();
            l.case(key, &format!("cli:authorize-single:{}", api.as_ref().map(|a| a.class()).unwrap_or_else(|_| "failure".into())), api.is_ok());
            bad.extend(judge_authorize(&run, &api, "single-json"));
        }
        CliCase::Validate { texts, json_policies, schema, deny_warnings } => {
            let mut plan = Plan::default();
            for (i, t) in texts.iter().enumerate() {
                let id = declared_id(t).unwrap_or_else(|| format!("policy{i}"));
                if t.contains("?principal") || t.contains("?resource") {
                    plan.templates.push((id, Src::Text(t.clone())));
                } else {
                    plan.statics.push((Some(id), Src::Text(t.clone())));
                }
            }
            let mut args: Vec<String> = vec!["validate".into()];
            if *json_policies {
                // input preparation: the JSON policy set of the same policies
                let doc = api_pset(&plan).and_then(|p| p.to_json().map_err(|e| e.to_string()));
                let Ok(doc) = doc else { return Ok(bad) };
                args.extend(["--policies".into(), write(dir, "policies.json", &doc.to_string())?, "--policy-format".into(), "json".into()]);
            } else {
                args.extend(["--policies".into(), write(dir, "policies.cedar", &texts.join("\n"))?]);
            }
            args.extend(schema_in_args(schema, dir)?);
            if *deny_warnings {
                args.push("--deny-warnings".into());
            }
            let run = run_cli(bin, &args)?;
            l.transitions += 1;
            let api: Result<(bool, bool), String> = (|| {
                let pset = api_pset(&plan)?;
                let s = schema.api()?;
                let res = cedar_policy::Validator::new(s).validate(&pset, cedar_policy::ValidationMode::Strict);
                Ok((res.validation_passed(), res.validation_passed_without_warnings()))
            })();
            let want = match &api {
                Ok((passed, clean)) => {
                    if *passed && (!*deny_warnings || *clean) {
                        0
                    } else {
                        3
                    }
                }
                Err(_) => 1,
            };
            l.case(key, &format!("cli:validate:exit{want}"), api.is_ok());
            let ctxt = format!("`{}` exit {:?}\nstdout: {}\nstderr: {}", run.cmdline, run.code, run.stdout.trim(), run.stderr.trim());
            if run.code != Some(want) {
                bad.push((format!("cli:validate:exit-status:want{want}"), format!("API says {api:?} (deny_warnings={deny_warnings}), expected exit status {want}: {ctxt}")));
            }
            let said_passed = run.stdout.contains("policy set validation passed");
            let said_failed = run.stdout.contains("policy set validation failed");
            if (want == 0 && !said_passed) || (want == 3 && !said_failed) || (want == 1 && (said_passed || said_failed)) {
                bad.push((format!("cli:validate:printed-verdict:want{want}"), format!("API says {api:?}: {ctxt}")));
            }
        }
        CliCase::TranslatePolicyToJson { texts, annotated } => {
            let mut plan = Plan::default();
            let mut text = String::new();
            for (i, t) in texts.iter().enumerate() {
                let id = if *annotated {
                    text.push_str(&format!("@id(\"x{i}\")\n"));
                    format!("x{i}")
                } else {
                    declared_id(t).unwrap_or_else(|| format!("policy{i}"))
                };
                let full = if *annotated { format!("@id(\"x{i}\")\n{t}") } else { t.clone() };
                text.push_str(t);
                text.push('\n');
                if t.contains("?principal") || t.contains("?resource") {
                    plan.templates.push((id, Src::Text(full)));
                } else {
                    plan.statics.push((Some(id), Src::Text(full)));
                }
            }
            let args: Vec<String> = vec!["translate-policy".into(), "--direction".into(), "cedar-to-json".into(), "--policies".into(), write(dir, "policies.cedar", &text)?];
            let run = run_cli(bin, &args)?;
            l.transitions += 1;
            // a policy that already carries an @id annotation keeps that id; the oracle reads it
            let api: Result<J, String> = api_pset(&plan).and_then(|p| p.to_json().map_err(|e| e.to_string()));
            l.case(key, if api.is_ok() { "cli:translate-policy:to-json" } else { "cli:translate-policy:failure" }, api.is_ok() && !texts.is_empty());
            let ctxt = format!("`{}` exit {:?}\nstdout: {}\nstderr: {}", run.cmdline, run.code, run.stdout.trim(), run.stderr.trim());
            match &api {
                Ok(want) => {
                    if run.code != Some(0) {
                        bad.push(("cli:translate-policy:to-json:exit-status".into(), format!("API translates, expected exit 0: {ctxt}")));
                    } else {
                        match serde_json::from_str::<J>(&run.stdout) {
                            Ok(got) if &got == want => {}
                            Ok(got) => bad.push(("cli:translate-policy:to-json:output-differs".into(), format!("CLI gives {got}, API gives {want}: {ctxt}"))),
                            Err(e) => bad.push(("cli:translate-policy:to-json:not-json".into(), format!("{e}: {ctxt}"))),
                        }
                    }
                }
                Err(e) => {
                    if run.code != Some(1) {
                        bad.push(("cli:translate-policy:to-json:exit-status-on-failure".into(), format!("API fails ({e}), expected exit 1: {ctxt}")));
                    }
                }
            }
        }
        CliCase::TranslatePolicyToCedar { atoms, with_links } => {
            let kept: Vec<Atom> = atoms.iter().filter(|a| *with_links || a.link.is_none()).cloned().collect();
            let (doc, _) = super::policies_doc(&kept, super::Shape::MapJson, super::Spelling::Default, false);
            let has_links = kept.iter().any(|a| a.link.is_some());
            let args: Vec<String> = vec!["translate-policy".into(), "--direction".into(), "json-to-cedar".into(), "--policies".into(), write(dir, "policies.json", &doc.to_string())?];
            let run = run_cli(bin, &args)?;
            l.transitions += 1;
            let api: Result<String, String> = cedar_policy::PolicySet::from_json_value(doc.clone()).map_err(|e| e.to_string()).and_then(|p| p.to_cedar().ok_or_else(|| "links cannot be rendered".to_string()));
            l.case(key, if api.is_ok() { "cli:translate-policy:to-cedar" } else { "cli:translate-policy:failure" }, api.is_ok() && !kept.is_empty());
            let ctxt = format!("`{}` exit {:?}\nstdout: {}\nstderr: {}", run.cmdline, run.code, run.stdout.trim(), run.stderr.trim());
            if api.is_ok() == has_links {
                bad.push(("cli:translate-policy:to-cedar:oracle".into(), format!("API to_cedar is {api:?} for a set with links={has_links}")));
            }
            match &api {
                Ok(want) => {
                    if run.code != Some(0) {
                        bad.push(("cli:translate-policy:to-cedar:exit-status".into(), format!("API translates, expected exit 0: {ctxt}")));
                    } else {
                        if run.stdout != format!("{want}\n") {
                            bad.push(("cli:translate-policy:to-cedar:output-differs".into(), format!("CLI prints {:?}, API gives {want:?}", run.stdout)));
                        }
                        // independent of to_cedar: the printed text holds exactly the input policies
                        // (compared as loc-free ASTs, so `!=` and `!(.. == ..)` are the same policy)
                        let want_abs: Result<Vec<String>, String> = kept.iter().map(|a| abs_of_est(&a.pol.est(), a.link.is_some())).collect();
                        match (want_abs, abs_of_text(&run.stdout)) {
                            (Ok(mut w), Ok(mut g)) => {
                                w.sort();
                                g.sort();
                                if g != w {
                                    bad.push(("cli:translate-policy:to-cedar:denotes-other-policies".into(), format!("printed text parses to {g:?}, input was {w:?}: {ctxt}")));
                                }
                            }
                            (Err(e), _) => bad.push(("cli:translate-policy:to-cedar:oracle".into(), format!("input EST does not load: {e}"))),
                            (_, Err(e)) => bad.push(("cli:translate-policy:to-cedar:output-does-not-parse".into(), format!("{e}: {ctxt}"))),
                        }
                    }
                }
                Err(e) => {
                    if run.code != Some(1) {
                        bad.push(("cli:translate-policy:to-cedar:exit-status-on-failure".into(), format!("API fails ({e}), expected exit 1: {ctxt}")));
                    }
                }
            }
            let _ = st;
        }
        CliCase::TranslateSchema { schema } => {
            let (dirn, file, api): (&str, String, Result<J, String>) = match schema {
                SchemaIn::Json(j) => {
                    let src = j.to_string();
                    let api = cedar_policy::SchemaFragment::from_json_str(&src).map_err(|e| e.to_string()).and_then(|f| f.to_cedarschema().map_err(|e| e.to_string())).map(|s| json!(s));
                    ("json-to-cedar", write(dir, "schema.json", &src)?, api)
                }
                SchemaIn::Cedar(t) => {
                    let api = cedar_policy::SchemaFragment::from_cedarschema_str(t).map(|x| x.0).map_err(|e| e.to_string()).and_then(|f| f.to_json_value().map_err(|e| e.to_string()));
                    ("cedar-to-json", write(dir, "schema.cedarschema", t)?, api)
                }
            };
            let args: Vec<String> = vec!["translate-schema".into(), "--direction".into(), dirn.into(), "--schema".into(), file];
            let run = run_cli(bin, &args)?;
            l.transitions += 1;
            l.case(key, &format!("cli:translate-schema:{dirn}:{}", if api.is_ok() { "ok" } else { "failure" }), api.is_ok());
            let ctxt = format!("`{}` exit {:?}\nstdout: {}\nstderr: {}", run.cmdline, run.code, run.stdout.trim(), run.stderr.trim());
            match &api {
                Ok(want) => {
                    if run.code != Some(0) {
                        bad.push((format!("cli:translate-schema:{dirn}:exit-status"), format!("API translates, expected exit 0: {ctxt}")));
                    } else if dirn == "json-to-cedar" {
                        if json!(run.stdout.strip_suffix('\n').unwrap_or(&run.stdout)) != *want {
                            bad.push((format!("cli:translate-schema:{dirn}:output-differs"), format!("CLI prints {:?}, API gives {want}", run.stdout)));
                        }
                    } else {
                        match serde_json::from_str::<J>(&run.stdout) {
                            Ok(got) if &got == want => {}
                            Ok(got) => bad.push((format!("cli:translate-schema:{dirn}:output-differs"), format!("CLI gives {got}, API gives {want}"))),
                            Err(e) => bad.push((format!("cli:translate-schema:{dirn}:not-json"), format!("{e}: {ctxt}"))),
                        }
                    }
                }
                Err(e) => {
                    if run.code != Some(1) {
                        bad.push((format!("cli:translate-schema:{dirn}:exit-status-on-failure"), format!("API fails ({e}), expected exit 1: {ctxt}")));
                    }
                }
            }
        }
        CliCase::FormatCheck { text, config, preformatted } => {
            let (lw, iw) = config.unwrap_or((80, 2));
            let cfg = cedar_policy_formatter::Config { line_width: lw, indent_width: iw };
            // `preformatted`: the input is the formatter's own output for `text` (input preparation)
            let input = if *preformatted { cedar_policy_formatter::policies_str_to_pretty(text, &cfg).unwrap_or_else(|_| text.clone()) } else { text.clone() };
            let mut args: Vec<String> = vec!["format".into(), "--check".into(), "--policies".into(), write(dir, "policies.cedar", &input)?];
            if config.is_some() {
                args.extend(["--line-width".into(), lw.to_string(), "--indent-width".into(), iw.to_string()]);
            }
            let run = run_cli(bin, &args)?;
            l.transitions += 1;
            let api = cedar_policy_formatter::policies_str_to_pretty(&input, &cfg).map_err(|e| e.to_string());
            let want = match &api {
                Ok(f) if *f == input => 0,
                _ => 1,
            };
            l.case(key, &format!("cli:format-check:exit{want}:{}", if api.is_ok() { "formats" } else { "failure" }), api.is_ok() && !input.is_empty());
            let ctxt = format!("`{}` exit {:?}\nstdout: {}\nstderr: {}", run.cmdline, run.code, run.stdout.trim(), run.stderr.trim());
            if run.code != Some(want) {
                bad.push((format!("cli:format-check:exit-status:want{want}"), format!("formatter says {:?} for input {input:?}, expected exit {want}: {ctxt}", api.as_ref().map(|f| f == &input))));
            }
            if let Ok(f) = &api {
                if &run.stdout != f {
                    bad.push(("cli:format-check:output-differs".into(), format!("CLI prints {:?}, policies_str_to_pretty gives {f:?}", run.stdout)));
                }
            }
        }
    }
    Ok(bad)
}

/// loc-free abstraction (id blanked) of a policy / template given as EST
fn abs_of_est(j: &J, template: bool) -> Result<String, String> {
    let id = Some(cedar_policy::PolicyId::new("x"));
    let mut a = if template {
        let t = cedar_policy::Template::from_json(id, j.clone()).map_err(|e| e.to_string())?;
        crate::bind::abs_template(t.as_ref())?
    } else {
        let p = cedar_policy::Policy::from_json(id, j.clone()).map_err(|e| e.to_string())?;
        crate::bind::abs_policy(p.as_ref())?
    };
    a.id = String::new();
    Ok(format!("{a:?}"))
}

/// parse a policy-set text and return the loc-free abstraction (id blanked) of every element
fn abs_of_text(s: &str) -> Result<Vec<String>, String> {
    use std::str::FromStr;
    let ps = cedar_policy::PolicySet::from_str(s).map_err(|e| e.to_string())?;
    let mut out = Vec::new();
    for p in ps.policies() {
        let mut a = crate::bind::abs_policy(p.as_ref())?;
        a.id = String::new();
        out.push(format!("{a:?}"));
    }
    for t in ps.templates() {
        let mut a = crate::bind::abs_template(t.as_ref())?;
        a.id = String::new();
        out.push(format!("{a:?}"));
    }
    Ok(out)
}

/// the id a leading `@id("..")` annotation declares (the CLI renames policies by it)
fn declared_id(text: &str) -> Option<String> {
    let rest = text.trim_start().strip_prefix("@id(\"")?;
    let end = rest.find("\")")?;
    Some(rest[..end].to_string())
}

// ---------------------------------------------------------------------------------------
// the grid
// ---------------------------------------------------------------------------------------

pub fn cases(tier: Tier) -> Vec<CliCase> {
    let mut out = Vec::new();
    let tuples = atom_tuples(2);
    let nreq = requests().len();
    let pformats = [PFormat::Cedar, PFormat::CedarAnnotated, PFormat::JsonSet];
    let schemas = [SchemaKind::None, SchemaKind::Cedar, SchemaKind::Json];
    let vrs = [Vr::Absent, Vr::True, Vr::False];
    // authorize: parameters rotate over the tuples (stride coprime to every rotation period)
    let stride = tier.pick(6, 1);
    for (k, atoms) in tuples.iter().enumerate().filter(|(k, _)| k % stride == 0) {
        let k = k / stride;
        let schema = schemas[k % 3];
        out.push(CliCase::Authorize {
            atoms: atoms.clone(),
            pformat: pformats[(k / 3) % 3],
            schema,
            vr: vrs[(k / 9) % 3],
            implicit: schema != SchemaKind::None && k % 2 == 1,
            // every other case asks the request the atoms are written for
            req: [0, 1, 0, 2, 0, 3, 0, 4, 6, 5][k % 10] % nreq,
            request_json: (k / 2) % 2 == 1,
        });
    }
    // invalid requests under a schema with every validation setting (exit 1 vs decision)
    for (i, vr) in vrs.iter().enumerate() {
        for req in [3usize, 4, 5] {
            out.push(CliCase::Authorize { atoms: tuples[1 + i].clone(), pformat: pformats[i], schema: schemas[1 + (req % 2)], vr: *vr, implicit: false, req, request_json: req == 4 });
        }
    }
    let singles: Vec<Atom> = [Effect::Permit, Effect::Forbid].iter().flat_map(|e| super::atoms(*e).into_iter().flatten()).collect();
    for (i, a) in singles.iter().enumerate().filter(|(i, _)| i % tier.pick(5, 1) == 0) {
        out.push(CliCase::AuthorizeSingleJson { atom: a.clone(), req: i % 3 });
    }
    // validate
    let pols = policy_table();
    let tmpls = template_table();
    let w = [SchemaIn::Cedar(SCHEMA_W_CEDAR.to_string()), SchemaIn::Json(schema_w_json())];
    let vstride = tier.pick(4, 1);
    for (i, (_, t)) in pols.iter().enumerate().filter(|(i, _)| i % vstride == 0) {
        let i2 = i / vstride;
        out.push(CliCase::Validate { texts: vec![t.clone()], json_policies: i2 % 3 == 2, schema: w[i2 % 2].clone(), deny_warnings: (i2 / 2) % 2 == 1 });
    }
    // warnings only: --deny-warnings decides
    for dw in [false, true] {
        out.push(CliCase::Validate { texts: vec![pols.iter().find(|p| p.0 == "warn:bidi").unwrap().1.clone()], json_policies: false, schema: w[0].clone(), deny_warnings: dw });
        out.push(CliCase::Validate { texts: vec![pols[0].1.clone(), tmpls[0].1.clone()], json_policies: dw, schema: w[1].clone(), deny_warnings: dw });
    }
    out.push(CliCase::Validate { texts: vec!["permit(principal, action".into()], json_policies: false, schema: w[0].clone(), deny_warnings: false });
    out.push(CliCase::Validate { texts: vec![pols[0].1.clone()], json_policies: false, schema: SchemaIn::Cedar("entity User = { age: Long ".into()), deny_warnings: false });
    if tier == Tier::Thorough {
        out.push(CliCase::Validate { texts: pols.iter().filter(|p| p.0.starts_with("ok:")).map(|p| p.1.clone()).collect(), json_policies: false, schema: w[0].clone(), deny_warnings: true });
        out.push(CliCase::Validate { texts: pols.iter().map(|p| p.1.clone()).collect(), json_policies: true, schema: w[1].clone(), deny_warnings: false });
        out.push(CliCase::Validate { texts: tmpls.iter().map(|p| p.1.clone()).collect(), json_policies: false, schema: w[0].clone(), deny_warnings: false });
    }
    // translate-policy
    let texts: Vec<String> = pols.iter().map(|p| p.1.clone()).collect();
    let mut groups: Vec<Vec<String>> = vec![vec![], vec![texts[0].clone()], texts[1..4].to_vec(), vec![texts[4].clone(), tmpls[0].1.clone(), texts[5].clone()], vec!["permit(principal, action".into()]];
    if tier == Tier::Thorough {
        for ch in texts.chunks(4) {
            groups.push(ch.to_vec());
        }
        groups.push(tmpls.iter().map(|t| t.1.clone()).collect());
    }
    for (i, g) in groups.iter().enumerate() {
        out.push(CliCase::TranslatePolicyToJson { texts: g.clone(), annotated: i % 2 == 1 });
    }
    let tstride = tier.pick(24, 4);
    for (k, atoms) in tuples.iter().enumerate().filter(|(k, _)| k % tstride == 1) {
        out.push(CliCase::TranslatePolicyToCedar { atoms: atoms.clone(), with_links: k % 3 == 0 });
    }
    // translate-schema
    let sstride = tier.pick(3, 1);
    for (i, (_, s)) in schema_table().into_iter().enumerate() {
        if i % sstride == 0 {
            out.push(CliCase::TranslateSchema { schema: s });
        }
    }
    // format --check
    let mut ftexts: Vec<String> = vec![
        texts[3].clone(),
        "permit(principal,action,resource)when{principal.age>1&&resource.owner==principal};".into(),
        "// c1\npermit(principal, action, resource);\n".into(),
        "permit(principal, action".into(),
        String::new(),
    ];
    if tier == Tier::Thorough {
        ftexts.extend(texts.iter().step_by(3).cloned());
    }
    let configs: [Option<(usize, isize)>; 3] = [None, Some((40, 4)), Some((120, 0))];
    for (i, t) in ftexts.iter().enumerate() {
        out.push(CliCase::FormatCheck { text: t.clone(), config: configs[i % 3], preformatted: false });
        out.push(CliCase::FormatCheck { text: t.clone(), config: configs[(i + 1) % 3], preformatted: true });
    }
    out
}

pub fn replay_case(c: &CliCase) -> Result<Vec<(String, String)>, String> {
    let (bin, _, _) = ensure_cli()?;
    let dir = scratch_dir()?.join("replay");
    let mut l = Local::default();
    check_case(&bin, c, &dir, &mut l)
}

pub fn run(ctx: &Ctx, tier: Tier) -> Result<(), String> {
    let (bin, secs, how) = ensure_cli()?;
    ctx.set_info("cli_binary", json!({"path": bin.to_string_lossy(), "build_s": secs, "how": how}));
    let cs = cases(tier);
    let mut kinds: std::collections::BTreeMap<&'static str, usize> = Default::default();
    for c in &cs {
        *kinds
            .entry(match c {
                CliCase::Authorize { .. } | CliCase::AuthorizeSingleJson { .. } => "authorize",
                CliCase::Validate { .. } => "validate",
                CliCase::TranslatePolicyToJson { .. } | CliCase::TranslatePolicyToCedar { .. } => "translate-policy",
                CliCase::TranslateSchema { .. } => "translate-schema",
                CliCase::FormatCheck { .. } => "format --check",
            })
            .or_insert(0) += 1;
    }
    ctx.set_info("cli_cases", json!({"total": cs.len(), "by_command": kinds}));
    // per-process directory (a quick and a thorough run may overlap); removed at the end, the
    // replay of a recorded case regenerates its files
    let root = scratch_dir()?.join(format!("runs-{}", std::process::id()));
    let _ = std::fs::remove_dir_all(&root);
    let errs: Vec<String> = cs
        .par_iter()
        .enumerate()
        .filter_map(|(i, c)| {
            let mut l = Local::default();
            let dir = root.join(format!("{i:04}"));
            let r = check_case(&bin, c, &dir, &mut l);
            ctx.merge(l);
            match r {
                Ok(bad) => {
                    for (fp, what) in bad {
                        ctx.violation(fp, what, json!({"kind": "cli", "case": c}));
                    }
                    None
                }
                Err(e) => Some(e),
            }
        })
        .collect();
    let _ = std::fs::remove_dir_all(&root);
    if let Some(e) = errs.first() {
        return Err(format!("{} CLI case(s) could not be run, first: {e}", errs.len()));
    }
    ctx.sample(json!({"leg": "cli", "case": cs.get(cs.len() / 3)}));
    Ok(())
}
