//! small debugging aid (not a registered check): `dbg manifest <schema.cedarschema> <policies.cedar>`
//! prints the entity manifest the library computes.
use std::str::FromStr;
fn main() {
    let a: Vec<String> = std::env::args().collect();
    if a.len() >= 3 && a[1] == "est" {
        // `dbg est <policy.json>`: deserialise as EST and render with the EST's own Display
        let p: cedar_policy_core::est::Policy = serde_json::from_str(&std::fs::read_to_string(&a[2]).unwrap()).unwrap();
        println!("{p}");
        return;
    }
    if a.len() >= 3 && a[1] == "api-json" {
        // `dbg api-json <policy.json>`: Policy::from_json, then Display / to_json / PolicySet Display
        let v: serde_json::Value = serde_json::from_str(&std::fs::read_to_string(&a[2]).unwrap()).unwrap();
        match cedar_policy::Policy::from_json(None, v) {
            Ok(p) => {
                println!("from_json ok");
                println!("Display: {p}");
                let mut s = cedar_policy::PolicySet::new();
                s.add(p).unwrap();
                println!("PolicySet Display: {s}");
            }
            Err(e) => println!("from_json err: {e}"),
        }
        return;
    }
    if a.len() < 4 || a[1] != "manifest" {
        eprintln!("usage: dbg manifest <schema.cedarschema> <policies.cedar>");
        std::process::exit(2);
    }
    let (schema, _) = cedar_policy::Schema::from_cedarschema_str(&std::fs::read_to_string(&a[2]).unwrap()).unwrap();
    let pset = cedar_policy::PolicySet::from_str(&std::fs::read_to_string(&a[3]).unwrap()).unwrap();
    let v = cedar_policy::Validator::new(schema);
    let r = v.validate(&pset, cedar_policy::ValidationMode::Strict);
    println!("strict validation: errors={} warnings={}", r.validation_errors().count(), r.validation_warnings().count());
    for w in r.validation_warnings() {
        println!("  warning: {w}");
    }
    #[allow(deprecated)]
    match cedar_policy::compute_entity_manifest(&v, &pset) {
        Ok(m) => println!("{}", serde_json::to_string_pretty(&m).unwrap()),
        Err(e) => println!("refused: {e}"),
    }
}
