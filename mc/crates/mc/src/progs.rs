//! Program generator shared by C05 / C06: operator nestings, content alphabet, policy grid.
use crate::harness::Tier;
use crate::world::*;
use refsem::*;

pub fn l6() -> Vec<E> {
    vec![E::Bool(true), E::Long(1), E::str("a"), E::Var(Var::Principal), E::Ent(ua()), E::attr(E::Var(Var::Context), "n")]
}

/// a constructor with k child slots
#[derive(Clone)]
pub struct Ctor {
    pub name: &'static str,
    pub arity: usize,
    pub build: fn(Vec<E>) -> E,
}

fn c1(name: &'static str, f: fn(Vec<E>) -> E) -> Ctor {
    Ctor { name, arity: 1, build: f }
}
fn c2(name: &'static str, f: fn(Vec<E>) -> E) -> Ctor {
    Ctor { name, arity: 2, build: f }
}

macro_rules! binctor {
    ($name:expr, $op:expr) => {
        c2($name, |mut v| {
            let y = v.pop().unwrap();
            let x = v.pop().unwrap();
            E::bin($op, x, y)
        })
    };
}

pub fn ctors() -> Vec<Ctor> {
    vec![
        c1("not", |mut v| E::not(v.pop().unwrap())),
        c1("neg", |mut v| E::Neg(b(v.pop().unwrap()))),
        c1("isEmpty", |mut v| E::IsEmpty(b(v.pop().unwrap()))),
        c2("and", |mut v| {
            let y = v.pop().unwrap();
            E::and(v.pop().unwrap(), y)
        }),
        c2("or", |mut v| {
            let y = v.pop().unwrap();
            E::or(v.pop().unwrap(), y)
        }),
        Ctor {
            name: "if",
            arity: 3,
            build: |mut v| {
                let e = v.pop().unwrap();
                let t = v.pop().unwrap();
                E::ite(v.pop().unwrap(), t, e)
            },
        },
        binctor!("eq", BinOp::Eq),
        binctor!("neq", BinOp::Neq),
        binctor!("lt", BinOp::Lt),
        binctor!("le", BinOp::Le),
        binctor!("gt", BinOp::Gt),
        binctor!("ge", BinOp::Ge),
        binctor!("add", BinOp::Add),
        binctor!("sub", BinOp::Sub),
        binctor!("mul", BinOp::Mul),
        binctor!("in", BinOp::In),
        binctor!("contains", BinOp::Contains),
        binctor!("containsAll", BinOp::ContainsAll),
        binctor!("containsAny", BinOp::ContainsAny),
        binctor!("getTag", BinOp::GetTag),
        binctor!("hasTag", BinOp::HasTag),
        c1("like", |mut v| E::Like(b(v.pop().unwrap()), vec![Pat::Char('a'), Pat::Star, Pat::Char('*')])),
        c1("is", |mut v| E::Is(b(v.pop().unwrap()), "User".into())),
        c2("isin", |mut v| {
            let y = v.pop().unwrap();
            E::IsIn(b(v.pop().unwrap()), "NS::Thing".into(), b(y))
        }),
        c1("getattr", |mut v| E::attr(v.pop().unwrap(), "age")),
        c1("getattr-q", |mut v| E::attr(v.pop().unwrap(), "k y")),
        c1("has", |mut v| E::has(v.pop().unwrap(), "nick")),
        c1("has-q", |mut v| E::has(v.pop().unwrap(), "k y")),
        c1("has-path", |mut v| E::Has(b(v.pop().unwrap()), vec!["meta".into(), "rev".into()])),
        c1("has-path3", |mut v| E::Has(b(v.pop().unwrap()), vec!["a".into(), "b".into(), "c".into()])),
        c1("set1", |v| E::Set(v)),
        c2("set2", |v| E::Set(v)),
        c1("rec1", |mut v| E::Rec(vec![("f".into(), v.pop().unwrap())])),
        c2("rec2", |mut v| {
            let y = v.pop().unwrap();
            E::Rec(vec![("f".into(), v.pop().unwrap()), ("k y".into(), y)])
        }),
        c1("decimal", |v| E::ext("decimal", v)),
        c2("lessThan", |v| E::ext("lessThan", v)),
        c1("isIpv4", |v| E::ext("isIpv4", v)),
        c2("offset", |v| E::ext("offset", v)),
        c1("toDate", |v| E::ext("toDate", v)),
    ]
}

fn fill(c: &Ctor, pos: usize, child: E, leaves: &[E], rot: usize) -> E {
    let mut args = Vec::new();
    for i in 0..c.arity {
        if i == pos {
            args.push(child.clone());
        } else {
            args.push(leaves[(rot + i) % leaves.len()].clone());
        }
    }
    (c.build)(args)
}

/// all depth-2 nestings parent x position x child, + depth-3 chains, + unary-minus corners
pub fn exprs(tier: Tier) -> Vec<E> {
    let leaves = l6();
    let cs = ctors();
    let mut out: Vec<E> = leaves.clone();
    // depth 1: every ctor over every leaf in each position
    for c in &cs {
        for pos in 0..c.arity {
            for (li, l) in leaves.iter().enumerate() {
                out.push(fill(c, pos, l.clone(), &leaves, li + 1));
            }
        }
    }
    // depth 2
    let mut k = 0usize;
    for p in &cs {
        for pos in 0..p.arity {
            for q in &cs {
                for qpos in 0..q.arity {
                    k += 1;
                    let child = fill(q, qpos, leaves[k % leaves.len()].clone(), &leaves, k);
                    out.push(fill(p, pos, child, &leaves, k + 2));
                }
            }
        }
    }
    // depth 3 chains
    let chain_names: &[&str] = match tier {
        Tier::Quick => &["and", "or", "add", "sub", "mul", "eq", "lt", "in", "neg", "not", "getattr", "if", "has", "is", "like", "contains"],
        Tier::Thorough => &[],
    };
    let chain: Vec<&Ctor> = if chain_names.is_empty() { cs.iter().collect() } else { cs.iter().filter(|c| chain_names.contains(&c.name)).collect() };
    for p in &chain {
        for q in &chain {
            for r in &chain {
                k += 1;
                // chain through the LAST position of p and q (right-nesting), first of r, and the reverse
                let inner = fill(r, 0, leaves[k % leaves.len()].clone(), &leaves, k);
                let mid = fill(q, q.arity - 1, inner.clone(), &leaves, k + 1);
                out.push(fill(p, p.arity - 1, mid, &leaves, k + 2));
                let mid2 = fill(q, 0, inner, &leaves, k + 1);
                out.push(fill(p, 0, mid2, &leaves, k + 2));
            }
        }
    }
    // stacked unary operators beyond the grammar's limit of 4 (printing must re-parenthesise)
    {
        let nx = |k: usize, mut e: E, neg: bool| {
            for _ in 0..k {
                e = if neg { E::Neg(b(e)) } else { E::not(e) };
            }
            e
        };
        let base_b = [E::Var(Var::Principal), E::bin(BinOp::Neq, E::Long(1), E::Long(2)), E::bin(BinOp::Gt, E::attr(E::Var(Var::Context), "n"), E::Long(0)), E::Bool(true), E::has(E::Var(Var::Context), "n")];
        let base_n = [E::Long(1), E::Long(-1), E::attr(E::Var(Var::Context), "n"), E::bin(BinOp::Sub, E::Long(1), E::Long(2)), E::Long(i64::MIN)];
        for k in 1..=9 {
            for x in &base_b {
                out.push(nx(k, x.clone(), false));
                out.push(E::and(nx(k, x.clone(), false), E::Bool(true)));
            }
            for x in &base_n {
                out.push(nx(k, x.clone(), true));
                out.push(E::bin(BinOp::Eq, nx(k, x.clone(), true), E::Long(1)));
                out.push(E::bin(BinOp::Sub, E::Long(0), nx(k, x.clone(), true)));
            }
            // alternating stacks
            let mut e = E::Long(1);
            for i in 0..k {
                e = if i % 2 == 0 { E::Neg(b(e)) } else { E::bin(BinOp::Mul, E::Neg(b(e)), E::Long(1)) };
            }
            out.push(e);
        }
    }
    // unary minus and boundary literals
    let neg = |e: E| E::Neg(b(e));
    let lits = [0i64, 1, -1, i64::MAX, i64::MIN, i64::MIN + 1];
    for n in lits {
        let l = E::Long(n);
        out.push(l.clone());
        out.push(neg(l.clone()));
        out.push(neg(neg(l.clone())));
        out.push(neg(neg(neg(neg(l.clone())))));
        out.push(E::not(E::not(E::not(E::not(E::bin(BinOp::Lt, l.clone(), E::Long(2)))))));
        out.push(E::attr(l.clone(), "a"));
        out.push(E::has(l.clone(), "a"));
        out.push(E::ext("lessThan", vec![l.clone(), l.clone()]));
        out.push(E::bin(BinOp::Contains, l.clone(), l.clone()));
        out.push(E::bin(BinOp::Sub, l.clone(), l.clone()));
        out.push(E::bin(BinOp::Sub, neg(l.clone()), neg(l.clone())));
        out.push(E::bin(BinOp::Mul, l.clone(), neg(l.clone())));
        out.push(E::bin(BinOp::Add, neg(E::attr(E::Var(Var::Context), "n")), l.clone()));
        out.push(E::ite(l.clone(), neg(l.clone()), l.clone()));
        out.push(E::Set(vec![l.clone(), neg(l.clone())]));
        out.push(neg(E::bin(BinOp::Add, l.clone(), l.clone())));
        out.push(neg(E::bin(BinOp::Mul, l.clone(), l.clone())));
        out.push(neg(E::attr(E::Var(Var::Principal), "age")));
        out.push(neg(E::ite(E::Bool(true), l.clone(), l.clone())));
    }
    // reserved words as attribute names / record keys
    for w in ["if", "then", "else", "true", "false", "in", "is", "like", "has", "principal", "action", "resource", "context", "permit", "forbid", "when", "unless", "__cedar", "ip", "decimal"] {
        out.push(E::attr(E::Var(Var::Context), w));
        out.push(E::has(E::Var(Var::Context), w));
        out.push(E::Rec(vec![(w.to_string(), E::Long(1))]));
        out.push(E::attr(E::Rec(vec![(w.to_string(), E::Long(1))]), w));
    }
    out
}

pub fn content_alphabet() -> Vec<char> {
    vec!['a', '"', '\\', '*', '\'', ' ', '\n', '\r', '\t', '\0', '\u{7f}', '\u{a0}', '\u{301}', '😀', '\u{202e}']
}

pub fn content_strings(maxlen: usize) -> Vec<String> {
    let al = content_alphabet();
    let mut out = vec![String::new()];
    let mut frontier = vec![String::new()];
    for _ in 0..maxlen {
        let mut next = vec![];
        for s in &frontier {
            for c in &al {
                let mut t = s.clone();
                t.push(*c);
                next.push(t);
            }
        }
        out.extend(next.iter().cloned());
        frontier = next;
    }
    out
}

/// expressions placing a content string in every string-bearing position
pub fn content_exprs(s: &str) -> Vec<E> {
    vec![
        E::str(s),
        E::Ent(Uid::new("User", s)),
        E::Like(b(E::Var(Var::Context)), s.chars().map(Pat::Char).collect()),
        E::Like(b(E::str(s)), {
            let mut p: Vec<Pat> = s.chars().map(Pat::Char).collect();
            p.push(Pat::Star);
            p
        }),
        E::Rec(vec![(s.to_string(), E::Long(1))]),
        E::attr(E::Var(Var::Context), s),
        E::has(E::Var(Var::Context), s),
        E::bin(BinOp::GetTag, E::Var(Var::Principal), E::str(s)),
    ]
}

pub fn pr_forms(var_is_principal: bool) -> Vec<PR> {
    let u = if var_is_principal { ua() } else { dd() };
    let g = gg();
    let t = if var_is_principal { "User" } else { "Doc" };
    vec![
        PR::Any,
        PR::Eq(Ref::Uid(u.clone())),
        PR::In(Ref::Uid(g.clone())),
        PR::Is(t.into()),
        PR::IsIn(t.into(), Ref::Uid(g)),
        PR::Is("NS::Thing".into()),
        PR::Eq(Ref::Slot),
        PR::In(Ref::Slot),
        PR::IsIn(t.into(), Ref::Slot),
    ]
}

pub fn action_forms() -> Vec<AS> {
    vec![AS::Any, AS::Eq(view()), AS::In(readers()), AS::InList(vec![]), AS::InList(vec![view(), edit()]), AS::InList(vec![readers()])]
}

pub fn annotation_forms() -> Vec<Vec<(String, Option<String>)>> {
    vec![
        vec![],
        vec![("id".into(), None)],
        vec![("a".into(), Some("x \"q\" \\ \n é😀".into()))],
        vec![("if".into(), Some("".into())), ("permit".into(), Some("1".into()))],
        vec![("in".into(), None), ("b".into(), Some("*".into()))],
    ]
}

pub fn clause_forms() -> Vec<Vec<(bool, E)>> {
    let a = E::bin(BinOp::Eq, E::attr(E::Var(Var::Principal), "age"), E::Long(3));
    let c = E::has(E::Var(Var::Context), "n");
    vec![
        vec![],
        vec![(true, a.clone())],
        vec![(false, c.clone())],
        vec![(true, a.clone()), (true, c.clone())],
        vec![(true, a.clone()), (false, c.clone())],
        vec![(false, c.clone()), (true, a.clone())],
        vec![(false, a.clone()), (false, c.clone())],
        // `unless` adds one more negation on top of four stacked ones
        vec![(false, E::not(E::not(E::not(E::not(c.clone())))))],
        vec![(true, E::not(E::not(E::not(E::not(E::bin(BinOp::Neq, a, c)))))), (false, E::Bool(false))],
    ]
}

/// the policy-level grid
pub fn policies(tier: Tier) -> Vec<Pol> {
    let ps = pr_forms(true);
    let rs = pr_forms(false);
    let acts = action_forms();
    let anns = annotation_forms();
    let cls = clause_forms();
    let mut out = Vec::new();
    let mut k = 0usize;
    let push = |effect: Effect, p: &PR, a: &AS, r: &PR, an: &Vec<(String, Option<String>)>, cl: &Vec<(bool, E)>, out: &mut Vec<Pol>| {
        out.push(Pol { id: format!("g{}", out.len()), effect, annotations: an.clone(), principal: p.clone(), action: a.clone(), resource: r.clone(), conds: cl.clone() });
    };
    match tier {
        Tier::Thorough => {
            for effect in [Effect::Permit, Effect::Forbid] {
                for p in &ps {
                    for a in &acts {
                        for r in &rs {
                            for an in &anns {
                                for cl in &cls {
                                    push(effect, p, a, r, an, cl, &mut out);
                                }
                            }
                        }
                    }
                }
            }
        }
        Tier::Quick => {
            for effect in [Effect::Permit, Effect::Forbid] {
                for p in &ps {
                    for r in &rs {
                        k += 1;
                        push(effect, p, &acts[k % acts.len()], r, &anns[k % anns.len()], &cls[k % cls.len()], &mut out);
                    }
                }
            }
            for a in &acts {
                for an in &anns {
                    for cl in &cls {
                        k += 1;
                        push(if k % 2 == 0 { Effect::Permit } else { Effect::Forbid }, &ps[k % ps.len()], a, &rs[(k / 2) % rs.len()], an, cl, &mut out);
                    }
                }
            }
        }
    }
    out
}
