//! C10 — entity/context JSON round trip; schema-directed parsing agrees with explicit escapes.
use crate::bind::*;
use crate::harness::*;
use crate::schema::*;
use crate::world::*;
use rayon::prelude::*;
use refsem::*;
use serde_json::{json, Value as J};
use std::collections::BTreeMap;

pub fn atoms() -> Vec<Val> {
    vec![
        Val::Bool(true),
        Val::Long(0),
        Val::Long(i64::MIN),
        Val::Long(i64::MAX),
        Val::Str(String::new()),
        Val::Str("a\"\\\n😀".into()),
        Val::Str("__entity".into()),
        Val::Uid(ua()),
        Val::Uid(Uid::new("Doc", "d \"q\" \\ \u{0}")),
        Val::Ext(ExtVal::Decimal(15000)),
        Val::Ext(ExtVal::Decimal(i64::MIN)),
        ip_val("10.0.0.1/24"),
        ip_val("::1"),
        Val::Ext(ExtVal::Datetime(1_704_067_200_123)),
        Val::Ext(ExtVal::Datetime(-1)),
        Val::Ext(ExtVal::Duration(-90_061_001)),
    ]
}

pub const KEYS: [&str; 9] = ["a", "k y", "type", "id", "fn", "arg", "__entity", "__extn", "__expr"];

/// values to depth 2
pub fn values(tier: Tier) -> Vec<Val> {
    let at = atoms();
    let mut out: Vec<Val> = at.clone();
    // depth 1: sets and records over atoms
    out.push(Val::set(vec![]));
    out.push(Val::Rec(BTreeMap::new()));
    for x in &at {
        out.push(Val::set(vec![x.clone()]));
        for k in KEYS {
            out.push(Val::rec(vec![(k.to_string(), x.clone())]));
        }
    }
    // homogeneous pairs
    for (i, x) in at.iter().enumerate() {
        for y in &at[i + 1..] {
            if x.kind() == y.kind() && !(matches!(x, Val::Uid(_)) && uid_ty(x) != uid_ty(y)) {
                out.push(Val::set(vec![x.clone(), y.clone()]));
            }
        }
    }
    // records shaped like the escapes
    out.push(Val::rec(vec![("type".into(), Val::Str("User".into())), ("id".into(), Val::Str("a".into()))]));
    out.push(Val::rec(vec![("fn".into(), Val::Str("ip".into())), ("arg".into(), Val::Str("10.0.0.1".into()))]));
    out.push(Val::rec(vec![("fn".into(), Val::Str("decimal".into())), ("arg".into(), Val::Str("not a decimal".into()))]));
    // records that spell other escapes: the `unknown` pseudo-function, multi-argument calls, bare keys
    out.push(Val::rec(vec![("fn".into(), Val::Str("unknown".into())), ("arg".into(), Val::Str("x".into()))]));
    out.push(Val::rec(vec![("fn".into(), Val::Str("offset".into())), ("args".into(), Val::set(vec![Val::Str("x".into())]))]));
    out.push(Val::rec(vec![("fn".into(), Val::Str("ip".into()))]));
    out.push(Val::rec(vec![("arg".into(), Val::Str("10.0.0.1".into()))]));
    out.push(Val::rec(vec![("type".into(), Val::Str("User".into()))]));
    out.push(Val::rec(vec![("id".into(), Val::Str("a".into()))]));
    out.push(Val::rec(vec![("type".into(), Val::Str("User".into())), ("id".into(), Val::Str("a".into())), ("extra".into(), Val::Long(1))]));
    out.push(Val::rec(vec![("type".into(), Val::Long(1)), ("id".into(), Val::Long(2))]));
    out.push(Val::rec(vec![("__entity".into(), Val::rec(vec![("type".into(), Val::Str("User".into())), ("id".into(), Val::Str("a".into()))]))]));
    out.push(Val::rec(vec![("__extn".into(), Val::rec(vec![("fn".into(), Val::Str("ip".into())), ("arg".into(), Val::Str("10.0.0.1".into()))]))]));
    out.push(Val::rec(vec![("__expr".into(), Val::Str("1 + 1".into()))]));
    // depth 2
    let d1: Vec<Val> = out.clone();
    let step = tier.pick(2, 1);
    for (i, x) in d1.iter().enumerate() {
        if i % step != 0 && !matches!(x, Val::Rec(_)) {
            continue;
        }
        out.push(Val::set(vec![x.clone()]));
        out.push(Val::rec(vec![("a".into(), x.clone()), ("k y".into(), Val::Long(1))]));
        out.push(Val::rec(vec![("type".into(), x.clone())]));
        if tier == Tier::Thorough {
            out.push(Val::rec(vec![("id".into(), x.clone()), ("fn".into(), x.clone())]));
            out.push(Val::set(vec![x.clone(), Val::set(vec![])]));
        }
    }
    out.sort();
    out.dedup();
    out
}

fn uid_ty(v: &Val) -> String {
    match v {
        Val::Uid(u) => u.ty.clone(),
        _ => String::new(),
    }
}

pub fn has_reserved_key(v: &Val) -> bool {
    match v {
        Val::Rec(m) => m.keys().any(|k| k == "__entity" || k == "__extn" || k == "__expr") || m.values().any(has_reserved_key),
        Val::Set(s) => s.iter().any(has_reserved_key),
        _ => false,
    }
}

/// the schema type of a value, when it has one (homogeneous sets; empty set typed as Set<Long>)
pub fn ty_of(v: &Val) -> Option<Ty> {
    Some(match v {
        Val::Bool(_) => Ty::Bool,
        Val::Long(_) => Ty::Long,
        Val::Str(_) => Ty::Str,
        Val::Uid(u) => Ty::Ent(u.ty.clone()),
        Val::Ext(ExtVal::Decimal(_)) => Ty::Ext("decimal"),
        Val::Ext(ExtVal::Ip(_)) => Ty::Ext("ipaddr"),
        Val::Ext(ExtVal::Datetime(_)) => Ty::Ext("datetime"),
        Val::Ext(ExtVal::Duration(_)) => Ty::Ext("duration"),
        Val::Set(s) => {
            let mut t: Option<Ty> = None;
            for x in s {
                let tx = ty_of(x)?;
                match &t {
                    None => t = Some(tx),
                    Some(t0) => {
                        if *t0 != tx {
                            return None;
                        }
                    }
                }
            }
            Ty::Set(Box::new(t.unwrap_or(Ty::Long)))
        }
        Val::Rec(m) => {
            let mut attrs = Vec::new();
            for (k, x) in m {
                attrs.push(at(k, ty_of(x)?, true));
            }
            Ty::Rec(attrs)
        }
    })
}

/// number of entity-reference / extension-value occurrences
fn occurrences(v: &Val) -> usize {
    match v {
        Val::Uid(_) | Val::Ext(_) => 1,
        Val::Set(s) => s.iter().map(occurrences).sum(),
        Val::Rec(m) => m.values().map(occurrences).sum(),
        _ => 0,
    }
}

/// JSON of a value where the i-th occurrence uses form `choice[i]`:
/// entity: 0 explicit `__entity`, 1 implicit {type,id}
/// extension: 0 explicit `__extn`, 1 implicit {fn,arg}, 2 bare constructor argument string
fn val_json_choice(v: &Val, choice: &[u8], idx: &mut usize) -> J {
    match v {
        Val::Uid(u) => {
            let c = choice.get(*idx).copied().unwrap_or(0);
            *idx += 1;
            if c == 0 {
                json!({"__entity": refsem::print::uid_json(u)})
            } else {
                refsem::print::uid_json(u)
            }
        }
        Val::Ext(x) => {
            let c = choice.get(*idx).copied().unwrap_or(0);
            *idx += 1;
            let explicit = refsem::print::ext_json(x);
            match c {
                0 => explicit,
                1 => explicit["__extn"].clone(),
                _ => {
                    // the single-argument constructor's string, where the value has one
                    match x {
                        ExtVal::Datetime(_) => explicit["__extn"].clone(),
                        _ => explicit["__extn"]["arg"].clone(),
                    }
                }
            }
        }
        Val::Set(s) => J::Array(s.iter().map(|x| val_json_choice(x, choice, idx)).collect()),
        Val::Rec(m) => {
            let mut o = serde_json::Map::new();
            for (k, x) in m {
                o.insert(k.clone(), val_json_choice(x, choice, idx));
            }
            J::Object(o)
        }
        _ => refsem::print::val_json(v),
    }
}

fn choice_vectors(k: usize, vs: &[&Val]) -> Vec<Vec<u8>> {
    // per-occurrence arity: entity 2, extension 3
    fn arities(v: &Val, out: &mut Vec<u8>) {
        match v {
            Val::Uid(_) => out.push(2),
            Val::Ext(_) => out.push(3),
            Val::Set(s) => s.iter().for_each(|x| arities(x, out)),
            Val::Rec(m) => m.values().for_each(|x| arities(x, out)),
            _ => {}
        }
    }
    let mut ar = Vec::new();
    for v in vs {
        arities(v, &mut ar);
    }
    let mut out = vec![vec![]];
    for a in ar.iter().take(k) {
        let mut next = Vec::new();
        for c in &out {
            for x in 0..*a {
                let mut d: Vec<u8> = c.clone();
                d.push(x);
                next.push(d);
            }
        }
        out = next;
    }
    out
}

/// the schema the datum conforms to: entity T in [P] {x: ty(v)} tags ty(t); action act with context {x: ty(v)}
fn datum_schema(v: &Val, tag: Option<&Val>) -> Option<Schema> {
    let tv = ty_of(v)?;
    let tt = match tag {
        Some(t) => Some(ty_of(t)?),
        None => None,
    };
    Some(Schema {
        ents: vec![
            EntDef { name: "T".into(), member_of: vec!["P".into()], attrs: vec![at("x", tv.clone(), true)], tags: tt, enum_ids: None },
            EntDef { name: "P".into(), member_of: vec![], attrs: vec![], tags: None, enum_ids: None },
            EntDef { name: "User".into(), member_of: vec![], attrs: vec![], tags: None, enum_ids: None },
            EntDef { name: "Doc".into(), member_of: vec![], attrs: vec![], tags: None, enum_ids: None },
        ],
        acts: vec![ActDef { id: "act".into(), member_of: vec![], principals: vec!["T".into()], resources: vec!["T".into()], context: vec![at("x", tv, true)] }],
    })
}

fn te() -> Uid {
    Uid::new("T", "e \"1\"")
}

fn datum_store(v: &Val, tag: Option<&Val>) -> Store {
    let mut s = Store::default();
    let mut e = Ent::default();
    e.attrs.insert("x".into(), v.clone());
    if let Some(t) = tag {
        e.tags.insert("t k".into(), t.clone());
    }
    e.parents.insert(Uid::new("P", "p"));
    s.ents.insert(te(), e);
    s.ents.insert(Uid::new("P", "p"), Ent::default());
    s
}

fn store_json_choice(s: &Store, choice: &[u8]) -> J {
    let mut idx = 0usize;
    let mut arr = Vec::new();
    for (u, e) in &s.ents {
        let mut attrs = serde_json::Map::new();
        for (k, v) in &e.attrs {
            attrs.insert(k.clone(), val_json_choice(v, choice, &mut idx));
        }
        let mut o = json!({"uid": refsem::print::uid_json(u), "attrs": J::Object(attrs), "parents": e.parents.iter().map(refsem::print::uid_json).collect::<Vec<_>>()});
        if !e.tags.is_empty() {
            let mut tags = serde_json::Map::new();
            for (k, v) in &e.tags {
                tags.insert(k.clone(), val_json_choice(v, choice, &mut idx));
            }
            o.as_object_mut().unwrap().insert("tags".into(), J::Object(tags));
        }
        arr.push(o);
    }
    J::Array(arr)
}

/// A context holding an unknown next to the value: serialisation then goes through the
/// restricted-expression path instead of the value path (after hand mutant
/// c10_from_expr_no_reserved_check). Same demands: refuse reserved keys, otherwise round-trip.
fn check_residual_context(v: &Val, ctx: &Ctx, l: &mut Local) {
    let reserved = has_reserved_key(v);
    let rep = || json!({"value": serde_json::to_value(v).unwrap(), "with": "unknown(\"uu\") in the same context"});
    let pairs = vec![("u".to_string(), cedar_policy::RestrictedExpression::new_unknown("uu")), ("x".to_string(), c_rexpr(v))];
    let Ok(c) = cedar_policy::Context::from_pairs(pairs) else {
        ctx.violation("gen:residual-context", "Context::from_pairs refused", rep());
        return;
    };
    l.transitions += 1;
    l.case(hash_of(&("residual-context", v)), if reserved { "residual-context:reserved-key" } else { "residual-context" }, true);
    match c.to_json_value() {
        Err(e) => {
            if !reserved {
                ctx.violation(format!("residual-context:serialise-refused:{}", v.kind()), format!("Context::to_json_value refused a representable context holding an unknown: {e}"), rep());
            }
        }
        Ok(j) => {
            l.transitions += 1;
            match cedar_policy::Context::from_json_value(j.clone(), None) {
                Err(e) => ctx.violation(
                    if reserved { "residual-context:reserved-key-not-refused".to_string() } else { format!("residual-context:reparse-failed:{}", v.kind()) },
                    format!("Context::to_json_value gave {j}, which does not parse back: {e}"),
                    rep(),
                ),
                Ok(back) => {
                    if back.to_string() != c.to_string() || back.to_json_value().ok().as_ref() != Some(&j) {
                        ctx.violation(
                            if reserved { "residual-context:reserved-key-not-refused".to_string() } else { format!("residual-context:changed:{}", v.kind()) },
                            format!("JSON round trip changed a context holding an unknown: {c} -> {j} -> {back}"),
                            rep(),
                        );
                    }
                }
            }
        }
    }
}

pub fn check_value(v: &Val, tag: Option<&Val>, ctx: &Ctx, l: &mut Local) {
    if tag.is_none() {
        check_residual_context(v, ctx, l);
    }
    let store = datum_store(v, tag);
    let reserved = has_reserved_key(v) || tag.map(has_reserved_key).unwrap_or(false);
    let rep = || json!({"value": serde_json::to_value(v).unwrap(), "tag": tag.map(|t| serde_json::to_value(t).unwrap())});
    let class = if reserved { "reserved-key" } else { v.kind() };
    l.case(hash_of(&(v, tag)), class, occurrences(v) > 0 || matches!(v, Val::Rec(_) | Val::Set(_)));
    // build through constructors (no JSON involved)
    let ents = match c_entities_ordered(&store, false) {
        Ok(e) => e,
        Err(e) => {
            ctx.violation("gen:store", e, rep());
            return;
        }
    };
    // ---- (a) to_json -> from_json(None) ----
    l.transitions += 1;
    match ents.to_json_value() {
        Err(e) => {
            if !reserved {
                ctx.violation(format!("serialise:refused:{}", v.kind()), format!("to_json_value refused a representable store: {e}"), rep());
            }
        }
        Ok(j) => {
            if reserved {
                // must be refused rather than silently altered: parse it back and compare
                match cedar_policy::Entities::from_json_value(j.clone(), None) {
                    Ok(back) if back.deep_eq(&ents) => {
                        // representable after all (round trip is exact): acceptable
                    }
                    _ => ctx.violation("serialise:reserved-key-not-refused", format!("a record with a reserved key was serialised to {j}, which does not parse back to the same store"), rep()),
                }
            } else {
                l.transitions += 1;
                match cedar_policy::Entities::from_json_value(j.clone(), None) {
                    Err(e) => ctx.violation(format!("roundtrip:reparse-failed:{}", v.kind()), format!("to_json_value output does not parse: {e}: {j}"), rep()),
                    Ok(back) => {
                        if !back.deep_eq(&ents) {
                            ctx.violation(format!("roundtrip:changed:{}", v.kind()), format!("to_json_value -> from_json_value changed the store: {j}"), rep());
                        }
                    }
                }
                // the harness's own explicit rendering parses to the same store
                let own = store_json_choice(&store, &[]);
                l.transitions += 1;
                match cedar_policy::Entities::from_json_value(own.clone(), None) {
                    Err(e) => ctx.violation(format!("explicit-json:rejected:{}", v.kind()), format!("explicit JSON rejected: {e}: {own}"), rep()),
                    Ok(back) => {
                        if !back.deep_eq(&ents) {
                            ctx.violation(format!("explicit-json:differs:{}", v.kind()), format!("explicit JSON parses to a different store: {own}"), rep());
                        }
                    }
                }
            }
        }
    }
    if reserved {
        return;
    }
    // ---- single entity ----
    if let Some(e) = ents.get(&c_uid(&te())) {
        l.transitions += 1;
        match e.to_json_value() {
            Err(err) => ctx.violation(format!("entity:serialise:{}", v.kind()), format!("Entity::to_json_value failed: {err}"), rep()),
            Ok(j) => match cedar_policy::Entity::from_json_value(j.clone(), None) {
                Err(err) => ctx.violation(format!("entity:reparse-failed:{}", v.kind()), format!("{err}: {j}"), rep()),
                Ok(back) => {
                    if !back.deep_eq(e) {
                        ctx.violation(format!("entity:changed:{}", v.kind()), format!("Entity JSON round trip changed the entity: {j}"), rep());
                    }
                }
            },
        }
    }
    // ---- context ----
    let mut cm = BTreeMap::new();
    cm.insert("x".to_string(), v.clone());
    let cctx = c_context(&cm);
    l.transitions += 1;
    let cj = match cctx.to_json_value() {
        Ok(j) => Some(j),
        Err(e) => {
            ctx.violation(format!("context:serialise:{}", v.kind()), format!("Context::to_json_value failed: {e}"), rep());
            None
        }
    };
    if let Some(j) = &cj {
        match cedar_policy::Context::from_json_value(j.clone(), None) {
            Err(e) => ctx.violation(format!("context:reparse-failed:{}", v.kind()), format!("{e}: {j}"), rep()),
            Ok(back) => {
                if back.to_json_value().ok().as_ref() != Some(j) || abs_ctx(&back) != Some(cm.clone()) {
                    ctx.violation(format!("context:changed:{}", v.kind()), format!("Context JSON round trip changed the context: {j} -> {:?}", abs_ctx(&back)), rep());
                }
            }
        }
    }
    // ---- (b)/(c) schema-directed parsing ----
    let Some(sch) = datum_schema(v, tag) else { return };
    let schema = match sch.load_json() {
        Ok(s) => s,
        Err(e) => {
            ctx.violation("gen:schema", e, rep());
            return;
        }
    };
    // reference: explicit form without schema + the schema's action entities
    let with_schema_ref = match c_entities_schema(&store, &schema) {
        Ok(e) => e,
        Err(e) => {
            ctx.violation(format!("schema:constructed-store-rejected:{}", v.kind()), format!("a conformant store is rejected with its own schema: {e}"), rep());
            return;
        }
    };
    // "with the schema contributes the action entities, nothing else"
    let n_actions = with_schema_ref.iter().filter(|e| e.uid().type_name().to_string() == "Action").count();
    if with_schema_ref.iter().count() != ents.iter().count() + n_actions || n_actions != 1 {
        ctx.violation("schema:extra-entities", format!("schema-based loading added {} entities", with_schema_ref.iter().count() - ents.iter().count()), rep());
    }
    let nocc = occurrences(v) + tag.map(occurrences).unwrap_or(0);
    // occurrences are numbered attrs first, then tags, as store_json_choice walks them
    let mut walk: Vec<&Val> = vec![v];
    if let Some(t) = tag {
        walk.push(t);
    }
    for ch in choice_vectors(nocc.min(4), &walk) {
        let j = store_json_choice(&store, &ch);
        l.transitions += 1;
        l.case(hash_of(&(v, tag, &ch)), "choice-vector", ch.iter().any(|c| *c != 0));
        match cedar_policy::Entities::from_json_value(j.clone(), Some(&schema)) {
            Err(e) => ctx.violation(format!("schema-parse:rejected:{}:{}", v.kind(), form_name(&ch)), format!("schema-directed parse rejected {j}: {e}"), rep()),
            Ok(parsed) => {
                if !parsed.deep_eq(&with_schema_ref) {
                    ctx.violation(format!("schema-parse:differs:{}:{}", v.kind(), form_name(&ch)), format!("schema-directed parse of {j} differs from the explicit form parsed without schema"), rep());
                }
            }
        }
        // context with the same choices
        let mut idx = 0usize;
        let cjson = json!({"x": val_json_choice(v, &ch, &mut idx)});
        let action = c_uid(&Uid::new("Action", "act"));
        l.transitions += 1;
        match cedar_policy::Context::from_json_value(cjson.clone(), Some((&schema, &action))) {
            Err(e) => ctx.violation(format!("schema-parse-context:rejected:{}:{}", v.kind(), form_name(&ch)), format!("schema-directed context parse rejected {cjson}: {e}"), rep()),
            Ok(parsed) => {
                if abs_ctx(&parsed) != Some(cm.clone()) {
                    ctx.violation(format!("schema-parse-context:differs:{}:{}", v.kind(), form_name(&ch)), format!("schema-directed context parse of {cjson} gives {:?}", abs_ctx(&parsed)), rep());
                }
            }
        }
    }
}

fn form_name(ch: &[u8]) -> &'static str {
    if ch.iter().all(|c| *c == 0) {
        "explicit"
    } else if ch.iter().any(|c| *c == 2) {
        "bare-constructor-arg"
    } else {
        "implicit"
    }
}

/// read a context back as reference values through the evaluator-independent abstraction
fn abs_ctx(c: &cedar_policy::Context) -> Option<BTreeMap<String, Val>> {
    // evaluate `context` on a request carrying it
    let req = cedar_policy::Request::new(c_uid(&ua()), c_uid(&view()), c_uid(&dd()), c.clone(), None).ok()?;
    let e = <cedar_policy_core::ast::Expr as std::str::FromStr>::from_str("context").ok()?;
    let v = core_eval(&e, &req, &cedar_policy::Entities::empty()).ok()?;
    match abs_value(&v).ok()? {
        Val::Rec(m) => Some(m),
        _ => None,
    }
}

pub fn run(tier: Tier, replay_file: Option<&str>) -> i32 {
    if let Some(path) = replay_file {
        let Some(doc) = std::fs::read_to_string(path).ok().and_then(|s| serde_json::from_str::<J>(&s).ok()) else { return 2 };
        let Ok(v) = serde_json::from_value::<Val>(doc["case"]["value"].clone()) else {
            eprintln!("replay file holds no C10 value case");
            return 2;
        };
        let tag = serde_json::from_value::<Val>(doc["case"]["tag"].clone()).ok();
        let ctx = Ctx::new("C10", tier);
        let mut l = Local::default();
        check_value(&v, tag.as_ref(), &ctx, &mut l);
        return if ctx.violation_seen() > 0 {
            println!("VIOLATION property=C10 replay={path}");
            1
        } else {
            println!("no violation on replay");
            0
        };
    }
    let ctx = Ctx::new("C10", tier);
    quiet_panics();
    let vals = values(tier);
    ctx.set_info("values", json!(vals.len()));
    let tags: Vec<Option<Val>> = vec![None, Some(Val::Long(1)), Some(Val::Uid(ua())), Some(Val::Ext(ExtVal::Decimal(5))), Some(Val::rec(vec![("type".into(), Val::Str("User".into())), ("id".into(), Val::Str("a".into()))]))];
    vals.par_chunks(16).enumerate().for_each(|(ci, chunk)| {
        let mut l = Local::default();
        for (j, v) in chunk.iter().enumerate() {
            let i = ci * 16 + j;
            // every value without tag; tags rotate
            let t = &tags[i % tags.len()];
            ctx.guard("C10 value", || json!({"value": serde_json::to_value(v).unwrap()}), || check_value(v, None, &ctx, &mut l));
            if t.is_some() {
                ctx.guard("C10 value+tag", || json!({"value": serde_json::to_value(v).unwrap()}), || check_value(v, t.as_ref(), &ctx, &mut l));
            }
            ctx.sample_at(i, vals.len(), || refsem::print::val_json(v));
        }
        ctx.merge(l);
    });
    ctx.finish(
        "values to depth 2 over 16 atoms (bools, i64 extremes, strings needing escapes, entity uids with odd ids, every extension type incl. computed datetimes) with sets/records, record keys that look like escapes (type,id,fn,arg,__entity,__extn,__expr); each placed as an entity attribute (and tag) and as a context attribute; (a) to_json -> from_json round trip, (b) parsing with the schema derived for the datum, (c) every implicit|explicit choice vector per entity-reference / extension-value occurrence (<= 4 occurrences) parsed with the schema vs the explicit form parsed without; case = value (+tag) and each choice vector; non-trivial = composite value or one with an entity/extension occurrence",
        json!({"tier": tier.name(), "atoms": atoms().len(), "keys": KEYS.len()}),
        &["deep_eq of the library is the comparison for stores/entities (checked separately against reachability in C04)", "contexts are compared through the evaluator-independent abstraction bind::abs_value"],
        true,
    )
}
