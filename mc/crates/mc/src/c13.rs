//! C13 — partial evaluation with unknowns is sound. Bounded-exhaustive over
//! (policy set, partial inputs, substitution): every substitution of the unknowns is compared
//! with authorizing the fully concrete inputs from scratch.
use crate::bind::*;
use crate::harness::*;
use crate::world::*;
use rayon::prelude::*;
use refsem::print::Style;
use refsem::*;
use serde_json::json;
use std::collections::{BTreeMap, BTreeSet, HashMap};
use std::str::FromStr;

/// which input is unknown
#[derive(Clone, Debug, PartialEq, Eq, Hash, serde::Serialize)]
pub enum Unk {
    /// principal unknown; typed (User) or untyped
    Principal { typed: bool },
    Resource { typed: bool },
    /// the whole context
    Context,
    /// context attribute `n` is `unknown("u")`
    ContextAttr,
    /// attribute `nick` of User::"a" is `unknown("v")`
    EntityAttr,
    /// principal unknown and context attribute unknown
    PrincipalAndContextAttr,
    /// principal unknown AND attribute `nick` of User::"a" unknown: the attribute unknown is only
    /// reached through the other unknown (two-level discovery, after seed C13-b2)
    PrincipalAndEntityAttr,
    /// nothing unknown, but the store is partial with User::"b" omitted
    PartialStore,
}

fn v(x: Var) -> E {
    E::Var(x)
}

/// expressions touching the unknown of each kind
fn touching(u: &Unk) -> Vec<E> {
    let p = v(Var::Principal);
    let r = v(Var::Resource);
    let c = v(Var::Context);
    match u {
        Unk::Principal { .. } | Unk::PrincipalAndContextAttr => vec![
            E::bin(BinOp::Eq, p.clone(), E::Ent(ua())),
            E::bin(BinOp::In, p.clone(), E::Ent(gh())),
            E::bin(BinOp::Gt, E::attr(p.clone(), "age"), E::Long(1)),
            E::has(p.clone(), "nick"),
            E::Is(b(p.clone()), "User".into()),
            E::IsIn(b(p.clone()), "User".into(), b(E::Ent(gg()))),
            E::bin(BinOp::Eq, E::attr(r.clone(), "owner"), p.clone()),
            E::bin(BinOp::Contains, E::Set(vec![E::Ent(ua()), E::Ent(ub())]), p.clone()),
            E::bin(BinOp::HasTag, p.clone(), E::str("t1")),
        ],
        Unk::Resource { .. } => vec![
            E::bin(BinOp::Eq, r.clone(), E::Ent(dd())),
            E::bin(BinOp::In, r.clone(), E::Ent(gg())),
            E::bin(BinOp::Eq, E::attr(r.clone(), "owner"), E::Ent(ua())),
            E::has(r.clone(), "ip"),
            E::Is(b(r.clone()), "Doc".into()),
            E::attr(E::attr(r.clone(), "meta"), "pub"),
        ],
        Unk::Context => vec![
            E::has(c.clone(), "who"),
            E::bin(BinOp::Gt, E::attr(c.clone(), "n"), E::Long(0)),
            E::bin(BinOp::Eq, E::attr(c.clone(), "who"), p.clone()),
            E::bin(BinOp::Gt, E::bin(BinOp::Add, E::attr(c.clone(), "n"), E::Long(1)), E::Long(0)),
        ],
        Unk::ContextAttr => vec![
            E::bin(BinOp::Gt, E::attr(c.clone(), "n"), E::Long(0)),
            E::bin(BinOp::Eq, E::attr(c.clone(), "n"), E::Long(1)),
            E::bin(BinOp::Gt, E::bin(BinOp::Add, E::attr(c.clone(), "n"), E::Long(1)), E::Long(0)),
            E::bin(BinOp::Eq, E::attr(c.clone(), "n"), E::attr(p.clone(), "age")),
            E::bin(BinOp::Contains, E::Set(vec![E::Long(1), E::attr(c.clone(), "n")]), E::Long(0)),
            E::has(c.clone(), "n"),
            E::Like(b(E::attr(c.clone(), "n")), vec![Pat::Char('x'), Pat::Star]),
            E::bin(BinOp::Eq, E::Neg(b(E::attr(c.clone(), "n"))), E::Long(-1)),
            E::bin(BinOp::Eq, E::bin(BinOp::Mul, E::attr(c.clone(), "n"), E::Long(2)), E::Long(2)),
            E::bin(BinOp::In, E::attr(c.clone(), "who"), E::Set(vec![E::Ent(ub()), E::attr(p.clone(), "mgr")])),
            E::bin(BinOp::Eq, E::Rec(vec![("a".into(), E::attr(c.clone(), "n"))]), E::Rec(vec![("a".into(), E::Long(1))])),
            E::bin(BinOp::HasTag, p.clone(), E::ite(E::bin(BinOp::Eq, E::attr(c.clone(), "n"), E::Long(1)), E::str("t1"), E::str("zz"))),
            E::ext("isIpv4", vec![E::ite(E::bin(BinOp::Eq, E::attr(c.clone(), "n"), E::Long(1)), E::ext("ip", vec![E::str("10.0.0.1")]), E::ext("ip", vec![E::str("::1")]))]),
            // every operator kind applied directly to the (untyped) unknown: each one errors for
            // some completions and not for others (after seed C13-a1)
            E::has(E::attr(c.clone(), "n"), "f"),
            E::bin(BinOp::Eq, E::attr(E::attr(c.clone(), "n"), "f"), E::Long(1)),
            E::Is(b(E::attr(c.clone(), "n")), "User".into()),
            E::not(E::attr(c.clone(), "n")),
            E::and(E::attr(c.clone(), "n"), E::Bool(true)),
            E::or(E::Bool(false), E::attr(c.clone(), "n")),
            // `true && <residual>` must keep its `true &&`: it is what type-checks the residual
            // (after hand mutant c13_true_and_residual_optimised)
            E::and(E::Bool(true), E::attr(c.clone(), "n")),
            E::or(E::attr(c.clone(), "n"), E::Bool(false)),
            E::ite(E::attr(c.clone(), "n"), E::Bool(true), E::Bool(false)),
            E::bin(BinOp::Contains, E::attr(c.clone(), "n"), E::Long(1)),
            E::IsEmpty(b(E::attr(c.clone(), "n"))),
            E::bin(BinOp::HasTag, E::attr(c.clone(), "n"), E::str("t1")),
            E::bin(BinOp::In, E::attr(c.clone(), "n"), E::Ent(gh())),
            E::ext("isIpv4", vec![E::attr(c.clone(), "n")]),
            E::ext("isInRange", vec![E::ext("ip", vec![E::str("10.0.0.1")]), E::attr(c.clone(), "n")]),
        ],
        Unk::EntityAttr => vec![
            E::bin(BinOp::Eq, E::attr(p.clone(), "nick"), E::str("al")),
            E::Like(b(E::attr(p.clone(), "nick")), vec![Pat::Char('a'), Pat::Star]),
            E::has(p.clone(), "nick"),
            E::bin(BinOp::Eq, E::attr(E::Ent(ua()), "nick"), E::attr(E::Ent(ub()), "nick")),
        ],
        Unk::PrincipalAndEntityAttr => vec![
            E::bin(BinOp::Eq, E::attr(p.clone(), "nick"), E::str("al")),
            E::and(E::has(p.clone(), "nick"), E::Like(b(E::attr(p.clone(), "nick")), vec![Pat::Char('a'), Pat::Star])),
            E::bin(BinOp::Eq, E::attr(p.clone(), "nick"), E::attr(E::Ent(ub()), "nick")),
            E::bin(BinOp::Gt, E::attr(p.clone(), "age"), E::Long(1)),
            E::bin(BinOp::HasTag, p.clone(), E::attr(p.clone(), "nick")),
        ],
        Unk::PartialStore => vec![
            E::bin(BinOp::Gt, E::attr(E::attr(p.clone(), "mgr"), "age"), E::Long(1)),
            E::bin(BinOp::In, E::attr(p.clone(), "mgr"), E::Ent(gh())),
            E::has(E::attr(p.clone(), "mgr"), "nick"),
            E::bin(BinOp::Eq, E::attr(p.clone(), "mgr"), E::Ent(ub())),
            E::bin(BinOp::HasTag, E::attr(p.clone(), "mgr"), E::str("t1")),
        ],
    }
}

/// constant / erroring operands for the other side
fn konsts() -> Vec<E> {
    vec![
        E::Bool(true),
        E::Bool(false),
        E::bin(BinOp::Eq, E::bin(BinOp::Add, E::Long(1), E::str("a")), E::Long(2)), // type error
        E::attr(v(Var::Context), "missing"),                                        // attr error (or residual when context unknown)
        E::bin(BinOp::Eq, E::attr(v(Var::Resource), "owner"), E::Ent(ua())),
        E::Long(7), // non-boolean
        E::bin(BinOp::Gt, E::attr(E::Ent(uz()), "age"), E::Long(1)), // entity missing
        E::bin(BinOp::Gt, E::bin(BinOp::Add, E::Long(i64::MAX), E::Long(1)), E::Long(0)), // overflow
    ]
}

fn shapes(x: &E, k: &E, k2: &E) -> Vec<E> {
    vec![
        x.clone(),
        E::not(x.clone()),
        E::and(x.clone(), k.clone()),
        E::and(k.clone(), x.clone()),
        E::or(x.clone(), k.clone()),
        E::or(k.clone(), x.clone()),
        E::ite(x.clone(), k.clone(), k2.clone()),
        E::ite(k.clone(), x.clone(), k2.clone()),
        E::ite(k.clone(), k2.clone(), x.clone()),
        E::bin(BinOp::Eq, E::attr(E::Rec(vec![("a".into(), x.clone()), ("b".into(), E::Long(1))]), "b"), E::Long(1)),
        E::attr(E::Rec(vec![("a".into(), x.clone()), ("b".into(), k.clone())]), "a"),
        E::has(E::Rec(vec![("a".into(), x.clone())]), "a"),
        E::bin(BinOp::Contains, E::Set(vec![x.clone(), k.clone()]), E::Bool(true)),
        E::and(E::and(x.clone(), k.clone()), k2.clone()),
        E::or(E::and(k.clone(), x.clone()), k2.clone()),
        E::bin(BinOp::Eq, x.clone(), k.clone()),
        // projection past a nested record / a set that holds the operand
        E::bin(BinOp::Eq, E::attr(E::Rec(vec![("o".into(), E::Rec(vec![("a".into(), x.clone())])), ("b".into(), E::Long(1))]), "b"), E::Long(1)),
        E::bin(BinOp::Eq, E::attr(E::Rec(vec![("a".into(), E::Set(vec![x.clone()])), ("b".into(), E::Long(1))]), "b"), E::Long(1)),
        E::has(E::Rec(vec![("a".into(), x.clone())]), "zz"),
    ]
}

fn policy_bodies(u: &Unk, tier: Tier) -> Vec<E> {
    let xs = touching(u);
    let ks = konsts();
    let mut out = Vec::new();
    for (i, x) in xs.iter().enumerate() {
        for (j, k) in ks.iter().enumerate() {
            let k2s: Vec<&E> = match tier {
                Tier::Quick => vec![&ks[(i + j + 1) % ks.len()]],
                Tier::Thorough => ks.iter().collect(),
            };
            for k2 in k2s {
                out.extend(shapes(x, k, k2));
            }
        }
    }
    out.sort();
    out.dedup();
    out
}

fn tn(s: &str) -> cedar_policy::EntityTypeName {
    cedar_policy::EntityTypeName::from_str(s).unwrap()
}

/// a substitution: values for the unknowns
#[derive(Clone, Debug, serde::Serialize)]
pub struct Sigma {
    pub principal: Option<Uid>,
    pub resource: Option<Uid>,
    pub context: Option<BTreeMap<String, Val>>,
    pub u: Option<Val>,
    pub v: Option<Val>,
    /// data of the entity a partial store omits, in the completed store
    /// (bit 1: tag t1 present, bit 2: nick present, bit 4: member of Group::"h")
    pub bv: Option<u8>,
}

fn sigmas(u: &Unk) -> Vec<Sigma> {
    let none = Sigma { principal: None, resource: None, context: None, u: None, v: None, bv: None };
    let mut out = Vec::new();
    match u {
        Unk::Principal { typed } => {
            let mut ps = vec![ua(), ub(), uz()];
            if !*typed {
                ps.push(gg());
            }
            for p in ps {
                out.push(Sigma { principal: Some(p), ..none.clone() });
            }
        }
        Unk::Resource { typed } => {
            let mut rs = vec![dd(), Uid::new("Doc", "zz")];
            if !*typed {
                rs.push(gg());
                rs.push(ua());
            }
            for r in rs {
                out.push(Sigma { resource: Some(r), ..none.clone() });
            }
        }
        Unk::Context => {
            for (who, n) in [(None, 1i64), (Some(ua()), 0), (Some(ub()), i64::MAX), (None, -5)] {
                let mut c = BTreeMap::new();
                c.insert("n".to_string(), Val::Long(n));
                if let Some(w) = who {
                    c.insert("who".to_string(), Val::Uid(w));
                }
                out.push(Sigma { context: Some(c), ..none.clone() });
            }
        }
        Unk::ContextAttr => {
            let mut rec = BTreeMap::new();
            rec.insert("f".to_string(), Val::Long(1));
            for x in [
                Val::Long(0),
                Val::Long(1),
                Val::Long(3),
                Val::Long(i64::MAX),
                Val::Long(7), // equal to the non-boolean constant operand
                Val::Str("x".into()),
                // the unknown is untyped: any value is an admissible completion
                Val::Bool(true),
                Val::Bool(false),
                Val::Rec(rec),
                Val::Uid(ua()),
                Val::Uid(uz()),
                Val::set(vec![Val::Long(1)]),
                Val::set(vec![]),
                ip_val("10.0.0.0/8"),
            ] {
                out.push(Sigma { u: Some(x), ..none.clone() });
            }
        }
        Unk::EntityAttr => {
            for x in [Val::Str("al".into()), Val::Str("zz".into()), Val::Str("".into()), Val::Long(1)] {
                out.push(Sigma { v: Some(x), ..none.clone() });
            }
        }
        Unk::PrincipalAndContextAttr => {
            for p in [ua(), ub(), uz()] {
                for x in [Val::Long(0), Val::Long(3), Val::Long(i64::MAX)] {
                    out.push(Sigma { principal: Some(p.clone()), u: Some(x), ..none.clone() });
                }
            }
        }
        Unk::PrincipalAndEntityAttr => {
            for p in [ua(), ub(), uz()] {
                for x in [Val::Str("al".into()), Val::Str("zz".into()), Val::Long(1)] {
                    out.push(Sigma { principal: Some(p.clone()), v: Some(x), ..none.clone() });
                }
            }
        }
        Unk::PartialStore => {
            // every shape of the omitted entity (after seed C13-b1: what partial evaluation says
            // about an entity the partial store lacks must hold however it is completed)
            for bv in 0..8u8 {
                out.push(Sigma { bv: Some(bv), ..none.clone() });
            }
        }
    }
    out
}

fn base_store() -> Store {
    let mut s = store1();
    // give b a manager-independent nick so `mgr has nick` is informative
    s.ents.get_mut(&ub()).unwrap().attrs.insert("nick".into(), Val::Str("bo".into()));
    s
}

fn base_context() -> BTreeMap<String, Val> {
    let mut c = BTreeMap::new();
    c.insert("n".to_string(), Val::Long(1));
    c.insert("who".to_string(), Val::Uid(ub()));
    c
}

pub struct PartialInputs {
    pub req: cedar_policy::Request,
    pub ents: cedar_policy::Entities,
}

fn partial_inputs(u: &Unk) -> Result<PartialInputs, String> {
    let store = base_store();
    let mut rb = cedar_policy::Request::builder().action(c_uid(&view()));
    let p_unknown = matches!(u, Unk::Principal { .. } | Unk::PrincipalAndContextAttr | Unk::PrincipalAndEntityAttr);
    rb = match u {
        Unk::Principal { typed: true } | Unk::PrincipalAndContextAttr | Unk::PrincipalAndEntityAttr => rb.unknown_principal_with_type(tn("User")),
        Unk::Principal { typed: false } => rb,
        _ => rb.principal(c_uid(&ua())),
    };
    let _ = p_unknown;
    rb = match u {
        Unk::Resource { typed: true } => rb.unknown_resource_with_type(tn("Doc")),
        Unk::Resource { typed: false } => rb,
        _ => rb.resource(c_uid(&dd())),
    };
    match u {
        Unk::Context => {}
        Unk::ContextAttr | Unk::PrincipalAndContextAttr => {
            let ctx = cedar_policy::Context::from_pairs([("n".to_string(), cedar_policy::RestrictedExpression::new_unknown("u")), ("who".to_string(), c_rexpr(&Val::Uid(ub())))]).map_err(|e| e.to_string())?;
            rb = rb.context(ctx);
        }
        _ => {
            rb = rb.context(c_context(&base_context()));
        }
    }
    let req = rb.build();
    let ents = match u {
        Unk::EntityAttr | Unk::PrincipalAndEntityAttr => {
            let mut list = Vec::new();
            for (uid, e) in &store.ents {
                if *uid == ua() {
                    let mut attrs: HashMap<String, cedar_policy::RestrictedExpression> = e.attrs.iter().map(|(k, v)| (k.clone(), c_rexpr(v))).collect();
                    attrs.insert("nick".into(), cedar_policy::RestrictedExpression::new_unknown("v"));
                    let tags: Vec<(String, cedar_policy::RestrictedExpression)> = e.tags.iter().map(|(k, v)| (k.clone(), c_rexpr(v))).collect();
                    list.push(cedar_policy::Entity::new_with_tags(c_uid(uid), attrs, e.parents.iter().map(c_uid).collect::<Vec<_>>(), tags).map_err(|e| e.to_string())?);
                } else {
                    list.push(c_entity(uid, e));
                }
            }
            cedar_policy::Entities::from_entities(list, None).map_err(|e| e.to_string())?
        }
        Unk::PartialStore => {
            let mut s = store.clone();
            s.ents.remove(&ub());
            c_entities(&s).partial()
        }
        _ => c_entities(&store),
    };
    Ok(PartialInputs { req, ents })
}

/// the fully concrete inputs under a substitution
fn concrete_inputs(s: &Sigma) -> (Req, Store) {
    let mut store = base_store();
    let mut ctx = base_context();
    if let Some(c) = &s.context {
        ctx = c.clone();
    }
    if let Some(x) = &s.u {
        ctx.insert("n".into(), x.clone());
    }
    if let Some(x) = &s.v {
        store.ents.get_mut(&ua()).unwrap().attrs.insert("nick".into(), x.clone());
    }
    if let Some(bv) = s.bv {
        let e = store.ents.get_mut(&ub()).unwrap();
        e.tags.clear();
        if bv & 1 != 0 {
            e.tags.insert("t1".into(), Val::Str("x".into()));
        }
        if bv & 2 == 0 {
            e.attrs.remove("nick");
        }
        e.parents.clear();
        if bv & 4 != 0 {
            e.parents.insert(gh());
        }
    }
    let req = Req { principal: s.principal.clone().unwrap_or(ua()), action: view(), resource: s.resource.clone().unwrap_or(dd()), context: ctx };
    (req, store)
}

fn bindings(s: &Sigma) -> Vec<(String, cedar_policy::RestrictedExpression)> {
    let mut m = Vec::new();
    if let Some(p) = &s.principal {
        m.push(("principal".to_string(), c_rexpr(&Val::Uid(p.clone()))));
    }
    if let Some(r) = &s.resource {
        m.push(("resource".to_string(), c_rexpr(&Val::Uid(r.clone()))));
    }
    if let Some(c) = &s.context {
        m.push(("context".to_string(), c_rexpr(&Val::Rec(c.clone()))));
    }
    if let Some(x) = &s.u {
        m.push(("u".to_string(), c_rexpr(x)));
    }
    if let Some(x) = &s.v {
        m.push(("v".to_string(), c_rexpr(x)));
    }
    m
}

fn ids<'a>(it: impl Iterator<Item = cedar_policy::Policy> + 'a) -> BTreeSet<String> {
    it.map(|p| AsRef::<str>::as_ref(p.id()).to_string()).collect()
}

pub fn run(tier: Tier, replay_file: Option<&str>) -> i32 {
    if let Some(p) = replay_file {
        return replay_by_rerun("C13", p, || run(Tier::Quick, None));
    }
    let ctx = Ctx::new("C13", tier);
    quiet_panics();
    let st = Style::default();
    let unks = vec![
        Unk::Principal { typed: true },
        Unk::Principal { typed: false },
        Unk::Resource { typed: true },
        Unk::Resource { typed: false },
        Unk::Context,
        Unk::ContextAttr,
        Unk::EntityAttr,
        Unk::PrincipalAndContextAttr,
        Unk::PrincipalAndEntityAttr,
        Unk::PartialStore,
    ];
    let auth = cedar_policy::Authorizer::new();
    for u in &unks {
        let bodies = policy_bodies(u, tier);
        let sig = sigmas(u);
        // policy sets: singles (permit), and pairs (permit body_i, forbid body_j)
        let mut sets: Vec<Vec<Pol>> = Vec::new();
        for (i, e) in bodies.iter().enumerate() {
            sets.push(vec![Pol::simple("p0", if i % 3 == 2 { Effect::Forbid } else { Effect::Permit }, Some(e.clone()))]);
        }
        let n = bodies.len();
        let stride = tier.pick(4, 1);
        for i in (0..n).step_by(stride) {
            for d in [1usize, 11, 29] {
                let j = (i + d) % n;
                sets.push(vec![Pol::simple("p0", Effect::Permit, Some(bodies[i].clone())), Pol::simple("p1", Effect::Forbid, Some(bodies[j].clone()))]);
                sets.push(vec![Pol::simple("p0", Effect::Permit, Some(bodies[i].clone())), Pol::simple("p1", Effect::Permit, Some(bodies[j].clone()))]);
            }
        }
        let inputs = match partial_inputs(u) {
            Ok(i) => i,
            Err(e) => {
                ctx.violation("gen:partial-inputs", format!("{u:?}: {e}"), json!({}));
                continue;
            }
        };
        sets.par_chunks(32).for_each(|chunk| {
            let mut l = Local::default();
            for pols in chunk {
                let text: String = pols.iter().map(|p| p.text(&st)).collect::<Vec<_>>().join("\n");
                let mut pset = cedar_policy::PolicySet::new();
                let mut ok = true;
                for p in pols {
                    match cedar_policy::Policy::parse(Some(cedar_policy::PolicyId::new(&p.id)), p.text(&st)) {
                        Ok(q) => {
                            let _ = pset.add(q);
                        }
                        Err(e) => {
                            ctx.violation("gen:text-rejected", format!("{}: {e}", p.text(&st)), json!({}));
                            ok = false;
                        }
                    }
                }
                if !ok {
                    continue;
                }
                let rep = |x: serde_json::Value| json!({"unknown": format!("{u:?}"), "policies": text, "detail": x});
                let Some(presp) = ctx.guard("is_authorized_partial", || rep(json!({})), || auth.is_authorized_partial(&inputs.req, &pset, &inputs.ents)) else { continue };
                l.transitions += 1;
                let decision = presp.decision();
                let must = ids(presp.must_be_determining());
                let may = ids(presp.may_be_determining());
                let def_sat = ids(presp.definitely_satisfied());
                let def_err: BTreeSet<String> = presp.definitely_errored().map(|p| AsRef::<str>::as_ref(p).to_string()).collect();
                // trivially false residuals
                let mut triv_false = BTreeSet::new();
                for r in presp.all_residuals() {
                    let a: &cedar_policy_core::ast::Policy = r.as_ref();
                    if let Ok(E::Bool(false)) = abs_expr(&a.condition()) {
                        triv_false.insert(AsRef::<str>::as_ref(r.id()).to_string());
                    }
                }
                let key = hash_of(&(u, &text));
                l.case(key, match decision {
                    Some(_) => "definite-decision",
                    None => "residual",
                }, true);
                for s in &sig {
                    let (creq_ref, cstore) = concrete_inputs(s);
                    let creq = c_request(&creq_ref);
                    let cents = c_entities(&cstore);
                    let concrete = abs_response(&auth.is_authorized(&creq, &pset, &cents));
                    // the reference authorizer must agree on the concrete inputs (so that an
                    // evaluator fault cannot hide on both sides)
                    let insts: Vec<Inst> = pols.iter().map(|p| Inst::stat(p.clone())).collect();
                    let reference = authorize(&insts, &creq_ref, &cstore);
                    l.transitions += 2;
                    l.case(hash_of(&(key, format!("{s:?}"))), "substitution", true);
                    let rs = |x: serde_json::Value| rep(json!({"substitution": serde_json::to_value(s).unwrap(), "more": x}));
                    if reference != concrete {
                        ctx.violation("concrete-vs-reference", format!("concrete authorization {concrete:?} differs from the reference {reference:?} for `{text}` under {s:?}"), rs(json!({})));
                    }
                    if let Some(d) = decision {
                        if abs_decision(d) != concrete.decision {
                            ctx.violation(format!("definite-decision-wrong:{u:?}"), format!("partial authorization decided {d:?} but substitution {s:?} gives {:?}: `{text}`", concrete.decision), rs(json!({})));
                        }
                    }
                    if !must.is_subset(&concrete.reasons) {
                        ctx.violation(format!("must-not-subset-of-determining:{u:?}"), format!("must_be_determining {must:?} is not a subset of the determining policies {:?} under {s:?}: `{text}`", concrete.reasons), rs(json!({})));
                    }
                    if !concrete.reasons.is_subset(&may) {
                        ctx.violation(format!("determining-not-subset-of-may:{u:?}"), format!("determining policies {:?} not within may_be_determining {may:?} under {s:?}: `{text}`", concrete.reasons), rs(json!({})));
                    }
                    // per-policy outcome under the substitution
                    for p in pols {
                        let env = Env::new(&creq_ref, &cstore);
                        let o = p.eval(&env);
                        if def_sat.contains(&p.id) && o != Ok(true) {
                            ctx.violation(format!("definitely-satisfied-wrong:{u:?}"), format!("`{}` reported definitely satisfied but is {o:?} under {s:?}", p.text(&st)), rs(json!({})));
                        }
                        if def_err.contains(&p.id) && o.is_ok() {
                            ctx.violation(format!("definitely-errored-wrong:{u:?}"), format!("`{}` reported definitely errored but is {o:?} under {s:?}", p.text(&st)), rs(json!({})));
                        }
                        if triv_false.contains(&p.id) && o == Ok(true) {
                            ctx.violation(format!("trivially-false-wrong:{u:?}"), format!("`{}` has residual `false` but is satisfied under {s:?}", p.text(&st)), rs(json!({})));
                        }
                    }
                    // reauthorize with the substitution
                    let mut b_ = bindings(s);
                    if *u == Unk::PartialStore {
                        // an entity omitted from a partial store is an unknown named by its uid;
                        // the completion maps it to itself and supplies the full store
                        b_.push((c_uid(&ub()).to_string(), c_rexpr(&Val::Uid(ub()))));
                        // so is an entity that no store holds: its completion is "still absent"
                        b_.push((c_uid(&uz()).to_string(), c_rexpr(&Val::Uid(uz()))));
                    }
                    // a partial store is completed by handing the full store to reauthorize
                    let re_ents = if *u == Unk::PartialStore { cents.clone() } else { inputs.ents.clone() };
                    l.transitions += 1;
                    let re = ctx.guard("reauthorize", || rs(json!({})), || presp.reauthorize_with_bindings(b_.iter().map(|(k, v)| (k.as_str(), v)), &auth, &re_ents));
                    match re {
                        None => {}
                        Some(Err(e)) => {
                            ctx.violation(format!("reauthorize-error:{u:?}"), format!("reauthorize failed under {s:?}: {e}: `{text}`"), rs(json!({})));
                        }
                        Some(Ok(r2)) => {
                            let d2 = r2.decision();
                            let conc = abs_response(&r2.clone().concretize());
                            if d2.map(abs_decision) != Some(concrete.decision) {
                                ctx.violation(format!("reauthorize-decision:{u:?}"), format!("reauthorize under {s:?} gives {d2:?}, from scratch {:?}: `{text}`", concrete.decision), rs(json!({})));
                            } else if conc.reasons != concrete.reasons {
                                ctx.violation(format!("reauthorize-determining:{u:?}"), format!("reauthorize under {s:?} gives determining policies {:?}, from scratch {:?}: `{text}`", conc.reasons, concrete.reasons), rs(json!({})));
                            }
                        }
                    }
                }
            }
            ctx.merge(l);
        });
        ctx.sample(json!({"unknown": format!("{u:?}"), "policy": sets[sets.len() / 3].iter().map(|p| p.text(&st)).collect::<Vec<_>>(), "substitutions": sig.len()}));
    }
    ctx.finish(
        "10 kinds of unknown input (principal/resource typed or untyped, whole context, one context attribute, one entity attribute, principal + context attribute, principal + entity attribute reached through it, partial store completed with the omitted entity in 8 shapes) x policy sets of 1-2 policies whose bodies put an unknown-touching operand against a constant / erroring / non-boolean operand in 19 shapes (&&, ||, if in every position, !, record projection, has on record literal, set membership, ==) x all substitutions from typed 3-5 value domains (wrong-type values only for untyped unknowns); case = (unknown kind, policy set) and each substitution; all non-trivial",
        json!({"tier": tier.name(), "unknown_kinds": 10, "shapes": 19}),
        &["the fully concrete response is computed by the real authorizer AND the reference authorizer; both must agree"],
        true,
    )
}
