//! C02 — expression evaluation = language semantics. Bounded-exhaustive enumeration of
//! operator x operand-kind x error-position; every expression arrives by five paths and each
//! must agree with the reference evaluator.
use crate::bind::*;
use crate::harness::*;
use crate::world::*;
use cedar_policy_core::ast;
use rayon::prelude::*;
use refsem::print::{Paren, Style};
use refsem::*;
use serde_json::json;
use std::str::FromStr;

pub fn leaves() -> Vec<E> {
    let mut v = vec![E::Bool(true), E::Bool(false)];
    for n in [0, 1, -1, 2, i64::MAX - 1, i64::MAX, i64::MIN, i64::MIN + 1] {
        v.push(E::Long(n));
    }
    for s in ["", "a", "a*", "*", "é"] {
        v.push(E::str(s));
    }
    for u in [ua(), ub(), uz(), view(), gg(), gh(), dd(), readers()] {
        v.push(E::Ent(u));
    }
    for x in [Var::Principal, Var::Action, Var::Resource, Var::Context] {
        v.push(E::Var(x));
    }
    let l = |n: i64| E::Long(n);
    let dec = |s: &str| E::ext("decimal", vec![E::str(s)]);
    // sets
    v.push(E::Set(vec![]));
    v.push(E::Set(vec![l(1)]));
    v.push(E::Set(vec![l(1), l(2)]));
    v.push(E::Set(vec![l(2), l(1), l(1)]));
    v.push(E::Set(vec![l(1), E::str("a")]));
    v.push(E::Set(vec![E::Ent(ua())]));
    v.push(E::Set(vec![E::Ent(gh()), E::Ent(uz())]));
    v.push(E::Set(vec![E::Ent(ua()), l(1)]));
    v.push(E::Set(vec![E::Set(vec![l(1)])]));
    v.push(E::Set(vec![E::Rec(vec![("a".into(), l(1))])]));
    v.push(E::Set(vec![dec("1.0")]));
    v.push(E::Set(vec![dec("1.00"), dec("1.0")]));
    v.push(E::Set(vec![E::str("x"), E::str("y")]));
    // mixed literal / non-literal elements (the two set representations disagree in shape here)
    v.push(E::Set(vec![l(1), E::Set(vec![l(1)])]));
    v.push(E::Set(vec![l(1), l(2), E::Rec(vec![("a".into(), l(1))])]));
    v.push(E::Set(vec![E::Ent(ua()), dec("1.0")]));
    // records
    v.push(E::Rec(vec![]));
    v.push(E::Rec(vec![("a".into(), l(1))]));
    v.push(E::Rec(vec![("a".into(), l(1)), ("b".into(), E::str("x"))]));
    v.push(E::Rec(vec![("k y".into(), E::Bool(true))]));
    v.push(E::Rec(vec![("a".into(), E::Rec(vec![("b".into(), l(2))]))]));
    // nesting of depth 3 and 4: the last attribute of a `has` path present / absent / below a non-record
    v.push(E::Rec(vec![("a".into(), E::Rec(vec![("b".into(), E::Rec(vec![("c".into(), l(3))]))]))]));
    v.push(E::Rec(vec![("a".into(), E::Rec(vec![("b".into(), E::Rec(vec![("x".into(), l(3))]))]))]));
    v.push(E::Rec(vec![("a".into(), E::Rec(vec![("b".into(), E::Rec(vec![("c".into(), E::Rec(vec![("d".into(), l(4))]))]))]))]));
    v.push(E::Rec(vec![("a".into(), E::Rec(vec![("b".into(), E::Rec(vec![("c".into(), E::Rec(vec![]))]))]))]));
    // extension values (+ equal values spelled differently)
    v.push(dec("1.5"));
    v.push(dec("1.50"));
    v.push(dec("-0.0001"));
    for s in ["10.0.0.1", "10.0.0.1/32", "10.0.0.0/8", "127.0.0.1", "::1", "ff00::/8"] {
        v.push(E::ext("ip", vec![E::str(s)]));
    }
    for s in ["2024-01-01", "2024-01-01T00:00:00Z", "1969-12-31T23:59:59.999Z"] {
        v.push(E::ext("datetime", vec![E::str(s)]));
    }
    for s in ["1h", "60m", "-1ms"] {
        v.push(E::ext("duration", vec![E::str(s)]));
    }
    // attribute reads producing values of several kinds
    v.push(E::attr(E::Var(Var::Principal), "age"));
    v.push(E::attr(E::Var(Var::Resource), "owner"));
    v.push(E::attr(E::Var(Var::Resource), "labels"));
    v.push(E::attr(E::Var(Var::Context), "who"));
    // one minimal expression per error class
    v.extend(error_leaves());
    v
}

pub fn error_leaves() -> Vec<E> {
    vec![
        E::bin(BinOp::Add, E::Long(1), E::str("a")),                // type
        E::attr(E::Ent(uz()), "age"),                               // entity missing
        E::attr(E::Var(Var::Context), "missing"),                   // attr missing
        E::bin(BinOp::Add, E::Long(i64::MAX), E::Long(1)),          // overflow
        E::ext("decimal", vec![E::str("x")]),                       // extension
    ]
}

/// kind representatives (a cut of `leaves` with one or two members per kind)
pub fn kind_reps() -> Vec<E> {
    let l = leaves();
    let want = [
        E::Bool(true),
        E::Bool(false),
        E::Long(1),
        E::Long(i64::MAX),
        E::Long(i64::MIN),
        E::str("a"),
        E::Ent(ua()),
        E::Ent(uz()),
        E::Ent(gh()),
        E::Var(Var::Context),
        E::Set(vec![]),
        E::Set(vec![E::Long(1), E::Long(2)]),
        E::Set(vec![E::Ent(gh()), E::Ent(uz())]),
        E::Set(vec![E::Ent(ua()), E::Long(1)]),
        E::Set(vec![E::Long(1), E::Set(vec![E::Long(1)])]),
        E::Rec(vec![("a".into(), E::Long(1))]),
        E::ext("decimal", vec![E::str("1.5")]),
        E::ext("ip", vec![E::str("10.0.0.1")]),
        E::ext("datetime", vec![E::str("2024-01-01")]),
        E::ext("duration", vec![E::str("1h")]),
    ];
    let mut v: Vec<E> = want.into_iter().filter(|w| l.contains(w)).collect();
    v.extend(error_leaves());
    v
}

const BINOPS: [BinOp; 15] = [
    BinOp::Eq,
    BinOp::Neq,
    BinOp::Lt,
    BinOp::Le,
    BinOp::Gt,
    BinOp::Ge,
    BinOp::Add,
    BinOp::Sub,
    BinOp::Mul,
    BinOp::In,
    BinOp::Contains,
    BinOp::ContainsAll,
    BinOp::ContainsAny,
    BinOp::GetTag,
    BinOp::HasTag,
];

pub fn patterns() -> Vec<Vec<Pat>> {
    let c = |x: char| Pat::Char(x);
    vec![
        vec![],
        vec![Pat::Star],
        vec![c('a')],
        vec![c('a'), Pat::Star],
        vec![Pat::Star, c('a')],
        vec![c('a'), c('*')],
        vec![c('*')],
        vec![Pat::Star, Pat::Star],
        vec![c('é')],
        vec![c('a'), Pat::Star, c('*')],
    ]
}

pub fn gen(tier: Tier) -> Vec<E> {
    let l = leaves();
    let k = kind_reps();
    let mut out: Vec<E> = Vec::new();
    out.extend(l.iter().cloned());
    for x in &l {
        out.push(E::not(x.clone()));
        out.push(E::Neg(b(x.clone())));
        out.push(E::IsEmpty(b(x.clone())));
        for p in patterns() {
            out.push(E::Like(b(x.clone()), p));
        }
        for a in ["a", "b", "k y", "age", "nick", "missing", "owner", "if"] {
            out.push(E::attr(x.clone(), a));
            out.push(E::has(x.clone(), a));
        }
        out.push(E::Has(b(x.clone()), vec!["a".into(), "b".into()]));
        out.push(E::Has(b(x.clone()), vec!["meta".into(), "pub".into()]));
        out.push(E::Has(b(x.clone()), vec!["mgr".into(), "age".into()]));
        // paths of 3 and 4 attributes (after hand mutant c02_extended_has_two_levels_only)
        out.push(E::Has(b(x.clone()), vec!["a".into(), "b".into(), "c".into()]));
        out.push(E::Has(b(x.clone()), vec!["a".into(), "b".into(), "c".into(), "d".into()]));
        out.push(E::Has(b(x.clone()), vec!["mgr".into(), "mgr".into(), "age".into()]));
        for t in ["User", "Group", "Doc", "Action", "NS::Thing"] {
            out.push(E::Is(b(x.clone()), t.to_string()));
        }
        for t in ["User", "Group"] {
            for y in &k {
                out.push(E::IsIn(b(x.clone()), t.to_string(), b(y.clone())));
            }
        }
    }
    // binary operators
    match tier {
        Tier::Quick => {
            for op in BINOPS {
                for x in &l {
                    for y in &k {
                        out.push(E::bin(op, x.clone(), y.clone()));
                        out.push(E::bin(op, y.clone(), x.clone()));
                    }
                }
            }
        }
        Tier::Thorough => {
            for op in BINOPS {
                for x in &l {
                    for y in &l {
                        out.push(E::bin(op, x.clone(), y.clone()));
                    }
                }
            }
        }
    }
    // tag keys that exist
    for x in &l {
        for key in ["t1", "n", ""] {
            out.push(E::bin(BinOp::GetTag, x.clone(), E::str(key)));
            out.push(E::bin(BinOp::HasTag, x.clone(), E::str(key)));
        }
    }
    // && || if over leaves x kind reps
    for x in &l {
        for y in &k {
            out.push(E::and(x.clone(), y.clone()));
            out.push(E::or(x.clone(), y.clone()));
            out.push(E::and(y.clone(), x.clone()));
            out.push(E::or(y.clone(), x.clone()));
            out.push(E::ite(x.clone(), y.clone(), E::Long(7)));
            out.push(E::ite(x.clone(), E::Long(7), y.clone()));
        }
    }
    // extension functions
    for (name, arity) in refsem::ext::EXT_FUNCS {
        if *arity == 1 {
            for x in &l {
                out.push(E::ext(name, vec![x.clone()]));
            }
        } else {
            let (xs, ys): (&Vec<E>, &Vec<E>) = match tier {
                Tier::Quick => (&l, &k),
                Tier::Thorough => (&l, &l),
            };
            for x in xs {
                for y in ys {
                    out.push(E::ext(name, vec![x.clone(), y.clone()]));
                    if tier == Tier::Quick {
                        out.push(E::ext(name, vec![y.clone(), x.clone()]));
                    }
                }
            }
        }
    }
    // depth 2: every operator over computed (non-leaf) operands, one per result kind / error class
    {
        let pr = E::Var(Var::Principal);
        let comp: Vec<E> = vec![
            E::bin(BinOp::Add, E::Long(1), E::Long(1)),
            E::bin(BinOp::Mul, E::Long(i64::MAX), E::Long(2)),
            E::Neg(b(E::Long(i64::MIN))),
            E::bin(BinOp::Contains, E::Set(vec![E::Long(1)]), E::Long(1)),
            E::bin(BinOp::In, E::Ent(ua()), E::Ent(gh())),
            E::not(E::Bool(true)),
            E::Like(b(E::str("a")), vec![Pat::Star]),
            E::attr(pr.clone(), "nick"),
            E::attr(E::attr(pr.clone(), "mgr"), "age"),
            E::attr(E::Var(Var::Resource), "meta"),
            E::attr(E::Rec(vec![("a".into(), E::Set(vec![E::Long(1), E::Long(2)]))]), "a"),
            E::ite(E::has(E::Var(Var::Context), "n"), E::Ent(ua()), E::str("a")),
            E::ite(E::Bool(false), E::Long(1), E::Set(vec![E::Ent(ua()), E::Ent(gg())])),
            E::bin(BinOp::GetTag, pr.clone(), E::str("t1")),
            E::ext("offset", vec![E::ext("datetime", vec![E::str("2024-01-01")]), E::ext("duration", vec![E::str("1d")])]),
            E::ext("toDate", vec![E::ext("datetime", vec![E::str("1969-12-31T23:59:59Z")])]),
            E::ext("durationSince", vec![E::ext("datetime", vec![E::str("2024-01-02")]), E::ext("datetime", vec![E::str("2024-01-01")])]),
            E::ext("lessThan", vec![E::ext("decimal", vec![E::str("1.0")]), E::ext("decimal", vec![E::str("2.0")])]),
            E::ext("isInRange", vec![E::ext("ip", vec![E::str("10.0.0.1")]), E::ext("ip", vec![E::str("10.0.0.0/8")])]),
            E::Set(vec![E::attr(pr.clone(), "age"), E::bin(BinOp::Add, E::Long(1), E::Long(2))]),
            E::Rec(vec![("a".into(), E::attr(pr.clone(), "age")), ("b".into(), E::Set(vec![]))]),
            E::attr(E::Ent(uz()), "age"),
            E::bin(BinOp::Lt, E::str("a"), E::Long(1)),
        ];
        for cx in &comp {
            out.push(cx.clone());
            out.push(E::not(cx.clone()));
            out.push(E::Neg(b(cx.clone())));
            out.push(E::IsEmpty(b(cx.clone())));
            out.push(E::Like(b(cx.clone()), vec![Pat::Char('a'), Pat::Star]));
            for a in ["a", "age", "pub", "nick"] {
                out.push(E::attr(cx.clone(), a));
                out.push(E::has(cx.clone(), a));
            }
            out.push(E::Is(b(cx.clone()), "User".into()));
            out.push(E::IsIn(b(cx.clone()), "User".into(), b(E::Ent(gh()))));
            for (name, arity) in refsem::ext::EXT_FUNCS {
                if *arity == 1 {
                    out.push(E::ext(name, vec![cx.clone()]));
                }
            }
            for y in &k {
                for op in BINOPS {
                    out.push(E::bin(op, cx.clone(), y.clone()));
                    out.push(E::bin(op, y.clone(), cx.clone()));
                }
                out.push(E::and(cx.clone(), y.clone()));
                out.push(E::or(y.clone(), cx.clone()));
                out.push(E::ite(cx.clone(), y.clone(), cx.clone()));
            }
            for cy in &comp {
                for op in BINOPS {
                    out.push(E::bin(op, cx.clone(), cy.clone()));
                }
            }
        }
    }
    // depth-2 short-circuit / ordering cores
    let mut core: Vec<E> = vec![E::Bool(true), E::Bool(false), E::Long(1), E::has(E::Var(Var::Context), "n"), E::has(E::Var(Var::Principal), "nick")];
    core.extend(error_leaves());
    for x in &core {
        for y in &core {
            for z in &core {
                out.push(E::and(E::and(x.clone(), y.clone()), z.clone()));
                out.push(E::and(x.clone(), E::and(y.clone(), z.clone())));
                out.push(E::or(E::or(x.clone(), y.clone()), z.clone()));
                out.push(E::or(x.clone(), E::or(y.clone(), z.clone())));
                out.push(E::and(E::or(x.clone(), y.clone()), z.clone()));
                out.push(E::or(E::and(x.clone(), y.clone()), z.clone()));
                out.push(E::or(x.clone(), E::and(y.clone(), z.clone())));
                out.push(E::and(x.clone(), E::or(y.clone(), z.clone())));
                out.push(E::ite(x.clone(), y.clone(), z.clone()));
                out.push(E::not(E::ite(x.clone(), y.clone(), z.clone())));
                out.push(E::ite(E::not(x.clone()), y.clone(), z.clone()));
                out.push(E::ite(E::and(x.clone(), y.clone()), z.clone(), E::Long(7)));
                out.push(E::ite(E::or(x.clone(), y.clone()), E::Long(7), z.clone()));
            }
        }
    }
    // integer boundary sweep: all pairs of 9 boundary longs (as depth-2 too: (x op y) op z on 5)
    let longs: Vec<i64> = vec![0, 1, -1, 2, -2, i64::MAX - 1, i64::MAX, i64::MIN, i64::MIN + 1];
    for op in [BinOp::Add, BinOp::Sub, BinOp::Mul, BinOp::Lt, BinOp::Le, BinOp::Gt, BinOp::Ge, BinOp::Eq, BinOp::Neq] {
        for x in &longs {
            for y in &longs {
                out.push(E::bin(op, E::Long(*x), E::Long(*y)));
                out.push(E::bin(op, E::Neg(b(E::Long(*x))), E::Long(*y)));
            }
        }
    }
    for x in &longs {
        out.push(E::Neg(b(E::Neg(b(E::Long(*x))))));
    }
    // set operators: all pairs of set leaves incl. computed (non-literal) sets
    let sets: Vec<E> = l.iter().filter(|e| matches!(e, E::Set(_))).cloned().collect();
    let mut sets2 = sets.clone();
    sets2.push(E::attr(E::Var(Var::Resource), "labels"));
    sets2.push(E::Set(vec![E::attr(E::Var(Var::Principal), "age"), E::Long(1)]));
    sets2.push(E::Set(vec![E::Var(Var::Principal), E::Ent(ua())]));
    for x in &sets2 {
        for y in &sets2 {
            for op in [BinOp::ContainsAll, BinOp::ContainsAny, BinOp::Eq, BinOp::Contains, BinOp::In] {
                out.push(E::bin(op, x.clone(), y.clone()));
            }
        }
        for y in &l {
            out.push(E::bin(BinOp::Contains, x.clone(), y.clone()));
        }
    }
    out
}

fn envs() -> Vec<(Req, Store)> {
    vec![(req1(), store1()), (req2(), store1()), (req1(), store_empty()), (req3(), store1())]
}

#[derive(Clone, Copy, PartialEq, Eq, Debug)]
pub enum Outcome {
    Sat,
    Unsat,
    Err(ErrClass),
}

pub fn outcome_of(r: &R, when: bool) -> Outcome {
    match r {
        Ok(Val::Bool(x)) => {
            if *x == when {
                Outcome::Sat
            } else {
                Outcome::Unsat
            }
        }
        Ok(_) => Outcome::Err(ErrClass::Type),
        Err(c) => Outcome::Err(*c),
    }
}

/// run a one-policy set through the core authorizer and classify
pub fn policy_outcome(pset: &cedar_policy::PolicySet, req: &cedar_policy::Request, ents: &cedar_policy::Entities) -> Result<Outcome, String> {
    let auth = cedar_policy::Authorizer::new();
    let core_auth: &cedar_policy_core::authorizer::Authorizer = auth.as_ref();
    let r: &ast::Request = req.as_ref();
    let resp = core_auth.is_authorized(r.clone(), pset.as_ref(), ents.as_ref());
    let api = auth.is_authorized(req, pset, ents);
    let n_reason = resp.diagnostics.reason.len();
    let n_err = resp.diagnostics.errors.len();
    if api.diagnostics().reason().count() != n_reason || api.diagnostics().errors().count() != n_err || (api.decision() == cedar_policy::Decision::Allow) != (resp.decision == cedar_policy_core::authorizer::Decision::Allow) {
        return Err("API authorizer and core authorizer disagree".into());
    }
    match (n_reason, n_err) {
        (1, 0) => Ok(Outcome::Sat),
        (0, 0) => Ok(Outcome::Unsat),
        (0, 1) => match &resp.diagnostics.errors[0] {
            cedar_policy_core::authorizer::AuthorizationError::PolicyEvaluationError { error, .. } => Ok(Outcome::Err(class_of(error))),
        },
        _ => Err(format!("single policy gave {n_reason} reasons and {n_err} errors")),
    }
}

pub struct Prepared {
    pub reqs: Vec<(cedar_policy::Request, cedar_policy::Entities)>,
    pub envs: Vec<(Req, Store)>,
}

pub fn prepare() -> Prepared {
    let envs = envs();
    let reqs = envs.iter().map(|(r, s)| (c_request(r), c_entities(s))).collect();
    Prepared { reqs, envs }
}

fn show(r: &R) -> String {
    format!("{r:?}")
}

/// check one expression on all environments through all arrival paths.
/// Returns the list of (fingerprint, description) mismatches.
pub fn check_expr(e: &E, st: &Style, p: &Prepared, l: &mut Local) -> Vec<(String, String)> {
    let mut bad = Vec::new();
    let text = refsem::print::text(e, st);
    // path 1: text
    let parsed = match <ast::Expr as FromStr>::from_str(&text) {
        Ok(x) => x,
        Err(err) => {
            bad.push(("gen:text-rejected".to_string(), format!("generated text rejected by parser: {text}: {err}")));
            return bad;
        }
    };
    // path 2: JSON policy
    let pj = Pol::simple("pj", Effect::Permit, Some(e.clone())).est();
    let from_json = cedar_policy::Policy::from_json(Some(cedar_policy::PolicyId::new("pj")), pj.clone());
    let jpol = match from_json {
        Ok(x) => x,
        Err(err) => {
            bad.push(("gen:json-rejected".to_string(), format!("generated JSON policy rejected: {pj}: {err}")));
            return bad;
        }
    };
    let jast: &ast::Policy = jpol.as_ref();
    let jcond = jast.template().non_scope_constraints().cloned();
    let jset = cedar_policy::PolicySet::from_policies([jpol.clone()]).map_err(|e| e.to_string());
    // paths 3/4: when / unless
    let wtext = format!("permit(principal, action, resource) when {{ {text} }};");
    let utext = format!("permit(principal, action, resource) unless {{ {text} }};");
    let wset = cedar_policy::PolicySet::from_str(&wtext);
    let uset = cedar_policy::PolicySet::from_str(&utext);
    let api_expr = cedar_policy::Expression::from_str(&text);
    for (i, (req, ents)) in p.reqs.iter().enumerate() {
        let (rreq, rstore) = &p.envs[i];
        let env = Env::new(rreq, rstore);
        let expect = refsem::eval(e, &env);
        let key = hash_of(&(e, i));
        let class = match &expect {
            Ok(v) => v.kind(),
            Err(c) => match c {
                ErrClass::Type => "err:type",
                ErrClass::EntityMissing => "err:entity",
                ErrClass::AttrMissing => "err:attr",
                ErrClass::Overflow => "err:overflow",
                ErrClass::Extension => "err:ext",
                ErrClass::Other => "err:other",
            },
        };
        l.case(key, class, e.size() > 1);
        // 1 text
        let got = core_eval(&parsed, req, ents);
        l.transitions += 1;
        match abs_result(&got) {
            Err(inv) => bad.push((format!("set-invariant:{}", head(e)), format!("{inv} (expr {text})"))),
            Ok(g) => {
                if g != expect {
                    bad.push((format!("eval-text:{}", head(e)), format!("text `{text}` env#{i}: expected {} got {}", show(&expect), show(&g))));
                }
            }
        }
        // API eval_expression agrees with core (ok/err)
        if let Ok(ae) = &api_expr {
            let ar = cedar_policy::eval_expression(req, ents, ae);
            l.transitions += 1;
            if ar.is_ok() != expect.is_ok() {
                bad.push((format!("eval-api:{}", head(e)), format!("eval_expression `{text}` env#{i}: expected {} got ok={}", show(&expect), ar.is_ok())));
            } else if let (Ok(ar), Ok(ex)) = (&ar, &expect) {
                let ok = match (ar, ex) {
                    (cedar_policy::EvalResult::Bool(a), Val::Bool(b)) => a == b,
                    (cedar_policy::EvalResult::Long(a), Val::Long(b)) => a == b,
                    (cedar_policy::EvalResult::String(a), Val::Str(b)) => a == b,
                    (cedar_policy::EvalResult::EntityUid(a), Val::Uid(b)) => a.to_string() == c_uid(b).to_string(),
                    (cedar_policy::EvalResult::Set(a), Val::Set(b)) => a.len() == b.len(),
                    (cedar_policy::EvalResult::Record(a), Val::Rec(b)) => a.len() == b.len(),
                    (cedar_policy::EvalResult::ExtensionValue(_), Val::Ext(_)) => true,
                    _ => false,
                };
                if !ok {
                    bad.push((format!("eval-api:{}", head(e)), format!("eval_expression `{text}` env#{i}: expected {} got {ar:?}", show(&expect))));
                }
            }
        } else {
            bad.push(("gen:api-expr-rejected".into(), format!("Expression::from_str rejected {text}")));
        }
        // 2 JSON
        if let Some(c) = &jcond {
            let got = core_eval(c, req, ents);
            l.transitions += 1;
            match abs_result(&got) {
                Err(inv) => bad.push((format!("set-invariant:{}", head(e)), format!("{inv} (json of {text})"))),
                Ok(g) => {
                    // the JSON path wraps a `when` body; its value must be the expression's value
                    if g != expect {
                        bad.push((format!("eval-json:{}", head(e)), format!("JSON policy body of `{text}` env#{i}: expected {} got {}", show(&expect), show(&g))));
                    }
                }
            }
        }
        if let Ok(js) = &jset {
            l.transitions += 1;
            match policy_outcome(js, req, ents) {
                Ok(o) => {
                    if o != outcome_of(&expect, true) {
                        bad.push((format!("auth-json:{}", head(e)), format!("JSON policy when `{text}` env#{i}: expected {:?} got {:?}", outcome_of(&expect, true), o)));
                    }
                }
                Err(m) => bad.push((format!("auth-json:{}", head(e)), format!("{m} on `{text}`"))),
            }
        }
        // 3 when, 4 unless
        for (which, set, when) in [("when", &wset, true), ("unless", &uset, false)] {
            match set {
                Err(err) => bad.push((format!("gen:{which}-rejected"), format!("policy text rejected: {text}: {err}"))),
                Ok(s) => {
                    l.transitions += 1;
                    match policy_outcome(s, req, ents) {
                        Ok(o) => {
                            if o != outcome_of(&expect, when) {
                                bad.push((format!("auth-{which}:{}", head(e)), format!("{which} `{text}` env#{i}: expected {:?} got {:?}", outcome_of(&expect, when), o)));
                            }
                        }
                        Err(m) => bad.push((format!("auth-{which}:{}", head(e)), format!("{m} on `{text}`"))),
                    }
                }
            }
        }
    }
    bad
}

/// name of the top-level operator, for fingerprints
pub fn head(e: &E) -> String {
    match e {
        E::Bool(_) | E::Long(_) | E::Str(_) | E::Ent(_) => "lit".into(),
        E::Var(_) => "var".into(),
        E::Slot(_) => "slot".into(),
        E::Not(_) => "not".into(),
        E::Neg(_) => "neg".into(),
        E::IsEmpty(_) => "isEmpty".into(),
        E::And(..) => "and".into(),
        E::Or(..) => "or".into(),
        E::If(..) => "if".into(),
        E::Bin(op, ..) => format!("{op:?}"),
        E::Like(..) => "like".into(),
        E::Is(..) => "is".into(),
        E::IsIn(..) => "isin".into(),
        E::GetAttr(..) => "getattr".into(),
        E::Has(..) => "has".into(),
        E::Set(_) => "set".into(),
        E::Rec(_) => "record".into(),
        E::Ext(n, _) => format!("ext-{n}"),
    }
}

/// scope-position path: the expression `var op entity` written as a scope constraint
fn scope_cases() -> Vec<Pol> {
    let uids = [ua(), ub(), uz(), gg(), gh(), dd(), view(), readers(), edit()];
    let mut v = Vec::new();
    let mut k = 0;
    let mut push = |p: PR, a: AS, r: PR, v: &mut Vec<Pol>| {
        k += 1;
        v.push(Pol { id: format!("s{k}"), effect: Effect::Permit, annotations: vec![], principal: p, action: a, resource: r, conds: vec![] });
    };
    for u in &uids {
        for t in ["User", "Group", "Doc"] {
            push(PR::IsIn(t.into(), Ref::Uid(u.clone())), AS::Any, PR::Any, &mut v);
            push(PR::Any, AS::Any, PR::IsIn(t.into(), Ref::Uid(u.clone())), &mut v);
        }
        push(PR::Eq(Ref::Uid(u.clone())), AS::Any, PR::Any, &mut v);
        push(PR::In(Ref::Uid(u.clone())), AS::Any, PR::Any, &mut v);
        push(PR::Any, AS::Any, PR::Eq(Ref::Uid(u.clone())), &mut v);
        push(PR::Any, AS::Any, PR::In(Ref::Uid(u.clone())), &mut v);
    }
    // the grammar only admits Action-typed uids in the action constraint
    let acts = [view(), readers(), edit(), u("Action", "zz")];
    for u in &acts {
        push(PR::Any, AS::Eq(u.clone()), PR::Any, &mut v);
        push(PR::Any, AS::In(u.clone()), PR::Any, &mut v);
        for w in &acts {
            push(PR::Any, AS::InList(vec![u.clone(), w.clone()]), PR::Any, &mut v);
        }
    }
    for t in ["User", "Group", "Doc", "Action", "NS::Thing"] {
        push(PR::Is(t.into()), AS::Any, PR::Any, &mut v);
        push(PR::Any, AS::Any, PR::Is(t.into()), &mut v);
    }
    push(PR::Any, AS::InList(vec![]), PR::Any, &mut v);
    v
}

/// re-run one recorded expression case without the explorer
fn replay(path: &str) -> i32 {
    let doc: serde_json::Value = match std::fs::read_to_string(path).ok().and_then(|s| serde_json::from_str(&s).ok()) {
        Some(d) => d,
        None => {
            eprintln!("cannot read replay file {path}");
            return 2;
        }
    };
    let case = &doc["case"];
    let (Ok(e), Ok(st)) = (serde_json::from_value::<E>(case["e"].clone()), serde_json::from_value::<Style>(case["style"].clone())) else {
        eprintln!("replay file holds no expression case (kind={}); re-run the check instead", case["kind"]);
        return 2;
    };
    let p = prepare();
    let mut l = Local::default();
    let bad = check_expr(&e, &st, &p, &mut l);
    println!("replaying `{}`", refsem::print::text(&e, &st));
    for (fp, what) in &bad {
        println!("  [{fp}] {what}");
    }
    if bad.is_empty() {
        println!("no mismatch on replay");
        0
    } else {
        println!("VIOLATION property=C02 replay={path}");
        1
    }
}

pub fn run(tier: Tier, replay_file: Option<&str>) -> i32 {
    if let Some(p) = replay_file {
        return replay(p);
    }
    let ctx = Ctx::new("C02", tier);
    quiet_panics();
    let exprs = gen(tier);
    let total = exprs.len();
    ctx.set_info("expressions", json!(total));
    let styles = [
        Style { paren: Paren::Minimal, index_attrs: false, escape_all: false, dot_reserved: false },
        Style { paren: Paren::Full, index_attrs: true, escape_all: false, dot_reserved: false },
    ];
    exprs.par_chunks(256).enumerate().for_each(|(ci, chunk)| {
        let p = prepare();
        let mut l = Local::default();
        for (j, e) in chunk.iter().enumerate() {
            let idx = ci * 256 + j;
            // every expression in minimal style; every 2nd also fully parenthesised with index-style attrs
            let sts: &[Style] = if idx % 2 == 0 { &styles[..] } else { &styles[..1] };
            for st in sts {
                let res = ctx.guard("C02 expression", || json!({"expr": refsem::print::text(e, st)}), || check_expr(e, st, &p, &mut l));
                if let Some(bad) = res {
                    for (fp, what) in bad {
                        ctx.violation(fp, what, json!({"kind": "expr", "text": refsem::print::text(e, st), "e": serde_json::to_value(e).unwrap(), "style": serde_json::to_value(st).unwrap()}));
                    }
                }
            }
            ctx.sample_at(idx, total, || json!({"expr": refsem::print::text(e, &styles[0])}));
        }
        ctx.merge(l);
    });
    // scope path
    let p = prepare();
    let mut l = Local::default();
    for pol in scope_cases() {
        let text = pol.text(&Style::default());
        let set = match cedar_policy::PolicySet::from_str(&text) {
            Ok(s) => s,
            Err(e) => {
                ctx.violation("gen:scope-rejected", format!("{text}: {e}"), json!({"text": text}));
                continue;
            }
        };
        let jp = cedar_policy::Policy::from_json(Some(cedar_policy::PolicyId::new("pj")), pol.est()).and_then(|p| Ok(cedar_policy::PolicySet::from_policies([p]).unwrap()));
        for (i, (req, ents)) in p.reqs.iter().enumerate() {
            let (rreq, rstore) = &p.envs[i];
            let expect = match pol.eval(&Env::new(rreq, rstore)) {
                Ok(true) => Outcome::Sat,
                Ok(false) => Outcome::Unsat,
                Err(c) => Outcome::Err(c),
            };
            l.case(hash_of(&(&pol, i)), &format!("scope:{expect:?}"), true);
            for (path, s) in [("text", Some(&set)), ("json", jp.as_ref().ok())] {
                let Some(s) = s else {
                    ctx.violation("gen:scope-json-rejected", format!("{}", pol.est()), json!({"est": pol.est()}));
                    continue;
                };
                l.transitions += 1;
                match policy_outcome(s, req, ents) {
                    Ok(o) if o == expect => {}
                    other => ctx.violation(format!("scope-{path}"), format!("scope policy `{text}` env#{i}: expected {expect:?} got {other:?}"), json!({"kind": "scope", "text": text})),
                }
            }
        }
    }
    ctx.merge(l);
    like_sweep(&ctx, tier);
    ctx.finish(
        "every operator applied to every leaf / kind-representative combination (depth 1), the depth-2 short-circuit and ordering cores, all pairs of boundary longs, all pairs of set leaves, like-pattern sweep; case = (expression, environment); non-trivial = the expression has at least one operator",
        json!({"leaves": leaves().len(), "kind_reps": kind_reps().len(), "environments": 4, "paths": ["text", "eval_expression", "json-body", "json-policy", "when", "unless", "scope"], "tier": tier.name()}),
        &["reference evaluator (refsem) is the language definition", "hash-map iteration order is not enumerated"],
        true,
    )
}

/// exhaustive `like` sweep: all patterns <= N over {a,b,*,\*}, all texts <= M over {a,b,*}
fn like_sweep(ctx: &Ctx, tier: Tier) {
    let pn = tier.pick(3, 4);
    let tn = tier.pick(4, 5);
    let palpha = [Pat::Char('a'), Pat::Char('b'), Pat::Star, Pat::Char('*')];
    let talpha = ['a', 'b', '*'];
    let mut pats: Vec<Vec<Pat>> = vec![vec![]];
    let mut frontier = vec![vec![]];
    for _ in 0..pn {
        let mut next = vec![];
        for p in &frontier {
            for a in &palpha {
                let mut q: Vec<Pat> = p.clone();
                q.push(a.clone());
                next.push(q);
            }
        }
        pats.extend(next.iter().cloned());
        frontier = next;
    }
    let mut texts: Vec<String> = vec![String::new()];
    let mut tf = vec![String::new()];
    for _ in 0..tn {
        let mut next = vec![];
        for t in &tf {
            for a in talpha {
                let mut q = t.clone();
                q.push(a);
                next.push(q);
            }
        }
        texts.extend(next.iter().cloned());
        tf = next;
    }
    // one non-BMP text / pattern
    texts.push("a😀b".into());
    pats.push(vec![Pat::Char('a'), Pat::Star, Pat::Char('b')]);
    pats.push(vec![Pat::Char('a'), Pat::Char('😀'), Pat::Char('b')]);
    pats.into_par_iter().for_each(|p| {
        let mut l = Local::default();
        // the pattern goes through the parser once (text form), and is matched against each text
        let ptxt = refsem::print::pat_lit(&p, false);
        let src = format!("context.s like {ptxt}");
        let parsed = match <ast::Expr as FromStr>::from_str(&src) {
            Ok(x) => x,
            Err(e) => {
                ctx.violation("gen:like-rejected", format!("{src}: {e}"), json!({"text": src}));
                return;
            }
        };
        // the parsed pattern must be the generated one
        if let Ok(E::Like(_, pp)) = abs_expr(&parsed) {
            if pp != p {
                ctx.violation("like:pattern-parse", format!("pattern {ptxt} parsed as {pp:?}, expected {p:?}"), json!({"text": src}));
            }
        }
        let pat = match parsed.expr_kind() {
            ast::ExprKind::Like { pattern, .. } => pattern.clone(),
            _ => return,
        };
        for t in &texts {
            let cs: Vec<char> = t.chars().collect();
            let expect = refsem::like(&cs, &p);
            let got = pat.wildcard_match(t);
            l.case(hash_of(&(&p, t)), if expect { "like:match" } else { "like:nomatch" }, true);
            l.transitions += 1;
            if got != expect {
                ctx.violation("like:wildcard_match", format!("`{t:?} like {ptxt}`: expected {expect} got {got}"), json!({"kind": "like", "text": t, "pattern": ptxt}));
            }
        }
        ctx.merge(l);
    });
}
