//! C05 — policy text -> AST -> text round trip preserves structure and meaning.
use crate::bind::*;
use crate::c02::{policy_outcome, Outcome};
use crate::harness::*;
use crate::progs;
use crate::world::*;
use cedar_policy_core::ast;
use rayon::prelude::*;
use refsem::print::{Paren, Style};
use refsem::*;
use serde_json::json;
use std::collections::{BTreeMap, HashMap};
use std::str::FromStr;

pub struct Prep {
    pub envs: Vec<(Req, Store, cedar_policy::Request, cedar_policy::Entities)>,
}

pub fn prep() -> Prep {
    Prep {
        envs: vec![(req1(), store1()), (req2(), store1()), (req3(), store1())].into_iter().map(|(r, s)| (c_request(&r), c_entities(&s), r, s)).map(|(cr, ce, r, s)| (r, s, cr, ce)).collect(),
    }
}

fn pid(s: &str) -> cedar_policy::PolicyId {
    cedar_policy::PolicyId::new(s)
}

fn ann_map(p: &Pol) -> BTreeMap<String, String> {
    p.annotations.iter().map(|(k, v)| (k.clone(), v.clone().unwrap_or_default())).collect()
}

/// slot bindings used to give templates a meaning
fn bindings(p: &Pol) -> (Option<Uid>, Option<Uid>) {
    (if p.principal_slot() { Some(ua()) } else { None }, if p.resource_slot() { Some(gg()) } else { None })
}

fn slot_map(l: &(Option<Uid>, Option<Uid>)) -> HashMap<cedar_policy::SlotId, cedar_policy::EntityUid> {
    let mut m = HashMap::new();
    if let Some(p) = &l.0 {
        m.insert(cedar_policy::SlotId::principal(), c_uid(p));
    }
    if let Some(r) = &l.1 {
        m.insert(cedar_policy::SlotId::resource(), c_uid(r));
    }
    m
}

/// parse `text` as policy or template (by `is_template`), returning the abstract form, the
/// core Display text and a one-policy set that evaluates it (templates are linked with `bind`)
pub struct Parsed {
    pub abs: AbsPol,
    pub display: String,
    pub pset: cedar_policy::PolicySet,
    pub api_to_json: Result<serde_json::Value, String>,
}

pub fn parse_one(text: &str, is_template: bool, bind: &(Option<Uid>, Option<Uid>)) -> Result<Parsed, String> {
    let mut pset = cedar_policy::PolicySet::new();
    if is_template {
        let t = cedar_policy::Template::parse(Some(pid("T")), text).map_err(|e| format!("{e}"))?;
        let at: &ast::Template = t.as_ref();
        let abs = abs_template(at)?;
        let display = at.to_string();
        let api_to_json = t.to_json().map_err(|e| e.to_string());
        pset.add_template(t).map_err(|e| e.to_string())?;
        pset.link(pid("T"), pid("P"), slot_map(bind)).map_err(|e| format!("link: {e}"))?;
        Ok(Parsed { abs, display, pset, api_to_json })
    } else {
        let p = cedar_policy::Policy::parse(Some(pid("P")), text).map_err(|e| format!("{e}"))?;
        let ap: &ast::Policy = p.as_ref();
        let abs = abs_policy(ap)?;
        let display = ap.to_string();
        let api_to_json = p.to_json().map_err(|e| e.to_string());
        pset.add(p).map_err(|e| e.to_string())?;
        Ok(Parsed { abs, display, pset, api_to_json })
    }
}

pub fn expected_outcome(p: &Pol, bind: &(Option<Uid>, Option<Uid>), r: &Req, s: &Store) -> Outcome {
    let inst = Inst { id: "P".into(), pol: p.clone(), slot_principal: bind.0.clone(), slot_resource: bind.1.clone() };
    match inst.eval(r, s) {
        Ok(true) => Outcome::Sat,
        Ok(false) => Outcome::Unsat,
        Err(c) => Outcome::Err(c),
    }
}

pub fn check_pol(p: &Pol, st: &Style, prep: &Prep, l: &mut Local) -> Vec<(String, String)> {
    let mut bad = Vec::new();
    let text1 = p.text(st);
    let is_t = p.has_slots();
    let bind = bindings(p);
    let head = cond_head(p);
    let p1 = match parse_one(&text1, is_t, &bind) {
        Ok(x) => x,
        Err(e) => {
            bad.push(("gen:text-rejected".into(), format!("generated text rejected: {text1}: {e}")));
            return bad;
        }
    };
    l.transitions += 1;
    let mut key_class = "static";
    if is_t {
        key_class = "template";
    }
    l.case(hash_of(&(p, st.paren as u8, st.index_attrs, st.escape_all, st.dot_reserved)), key_class, !p.conds.is_empty() || p.principal != PR::Any);
    // parse result vs generator term: effect, annotations, scope
    if (p1.abs.effect, &p1.abs.principal, &p1.abs.action, &p1.abs.resource) != (p.effect, &p.principal, &norm_action(&p.action), &p.resource) {
        bad.push(("parse:scope".into(), format!("`{text1}` parsed with scope/effect {:?}", (&p1.abs.effect, &p1.abs.principal, &p1.abs.action, &p1.abs.resource))));
    }
    if p1.abs.annotations != ann_map(p) {
        bad.push(("parse:annotations".into(), format!("`{text1}` parsed with annotations {:?}", p1.abs.annotations)));
    }
    // print and re-parse
    let text2 = p1.display.clone();
    match parse_one(&text2, is_t, &bind) {
        Err(e) => bad.push((format!("roundtrip:reparse-failed:{head}"), format!("printing `{text1}` gave `{text2}` which does not parse: {e}"))),
        Ok(p2) => {
            l.transitions += 1;
            if p2.abs != p1.abs {
                bad.push((format!("roundtrip:structure:{head}"), format!("`{text1}` printed as `{text2}` re-parses to a different policy:\n  before {:?}\n  after  {:?}", p1.abs, p2.abs)));
            }
            for (i, (r, s, cr, ce)) in prep.envs.iter().enumerate() {
                let expect = expected_outcome(p, &bind, r, s);
                for (which, set) in [("parsed", &p1.pset), ("reparsed", &p2.pset)] {
                    l.transitions += 1;
                    match policy_outcome(set, cr, ce) {
                        Ok(o) if o == expect => {}
                        other => bad.push((format!("meaning:{which}:{head}"), format!("`{text1}` ({which} as `{text2}`) env#{i}: expected {expect:?} got {other:?}"))),
                    }
                }
            }
        }
    }
    // the API's non-cached printing path: JSON -> from_json -> to_cedar -> parse
    match &p1.api_to_json {
        Err(e) => bad.push((format!("api:to_json:{head}"), format!("to_json failed on `{text1}`: {e}"))),
        Ok(j) => {
            let printed: Result<String, String> = if is_t {
                cedar_policy::Template::from_json(Some(pid("T")), j.clone()).map(|t| t.to_cedar()).map_err(|e| e.to_string())
            } else {
                cedar_policy::Policy::from_json(Some(pid("P")), j.clone()).map_err(|e| e.to_string()).and_then(|q| q.to_cedar().ok_or("to_cedar returned None".to_string()))
            };
            l.transitions += 1;
            match printed {
                Err(e) => bad.push((format!("api:from_json:{head}"), format!("JSON of `{text1}` not accepted / not printable: {e}"))),
                Ok(text3) => match parse_one(&text3, is_t, &bind) {
                    Err(e) => bad.push((format!("api:to_cedar-reparse:{head}"), format!("to_cedar of JSON of `{text1}` gave `{text3}` which does not parse: {e}"))),
                    Ok(p3) => {
                        if p3.abs != p1.abs {
                            bad.push((format!("api:to_cedar-structure:{head}"), format!("`{text1}` -> JSON -> to_cedar `{text3}` re-parses differently:\n  before {:?}\n  after  {:?}", p1.abs, p3.abs)));
                        }
                    }
                },
            }
        }
    }
    bad
}

fn cond_head(p: &Pol) -> String {
    match p.conds.first() {
        Some((_, e)) => crate::c02::head(e),
        None => "scope".into(),
    }
}

pub fn styles() -> Vec<Style> {
    vec![
        Style { paren: Paren::Minimal, index_attrs: false, escape_all: false, dot_reserved: false },
        Style { paren: Paren::Full, index_attrs: true, escape_all: false, dot_reserved: false },
        Style { paren: Paren::Redundant, index_attrs: false, escape_all: true, dot_reserved: false },
    ]
}

pub fn wrap(e: E) -> Pol {
    Pol::simple("P", Effect::Permit, Some(e))
}

pub fn programs(tier: Tier) -> Vec<Pol> {
    let mut out: Vec<Pol> = progs::exprs(tier).into_iter().map(wrap).collect();
    for s in progs::content_strings(tier.pick(2, 2)) {
        for e in progs::content_exprs(&s) {
            out.push(wrap(e));
        }
        // annotation values and entity ids in scope
        let mut p = Pol::simple("P", Effect::Forbid, None);
        p.annotations = vec![("k".into(), Some(s.clone()))];
        p.principal = PR::Eq(Ref::Uid(Uid::new("User", &s)));
        p.action = AS::InList(vec![Uid::new("Action", &s)]);
        out.push(p);
    }
    out.extend(progs::policies(tier));
    out
}

/// policy-set level: print a whole set through the non-cached path and compare the multiset
fn set_level(ctx: &Ctx, tier: Tier) {
    // static policies and (unlinked) templates alike: `to_cedar` prints both
    let pols: Vec<Pol> = progs::policies(Tier::Quick);
    let k = tier.pick(3, 4);
    let st = Style::default();
    let chunks: Vec<&[Pol]> = pols.chunks(k).collect();
    chunks.par_iter().for_each(|chunk| {
        let mut l = Local::default();
        let text: String = chunk.iter().map(|p| p.text(&st)).collect::<Vec<_>>().join("\n");
        let Ok(set) = cedar_policy::PolicySet::from_str(&text) else {
            ctx.violation("gen:set-rejected", format!("{text}"), json!({"text": text}));
            return;
        };
        let abs_of = |s: &cedar_policy::PolicySet| -> Vec<AbsPol> {
            let a: &ast::PolicySet = s.as_ref();
            // every template of the core set (static policies are templates without slots there)
            let mut v: Vec<AbsPol> = a
                .all_templates()
                .filter_map(|t| abs_template(t).ok())
                .map(|mut a| {
                    a.id = String::new();
                    a
                })
                .collect();
            v.sort_by_key(|a| format!("{a:?}"));
            v
        };
        let before = abs_of(&set);
        l.case(hash_of(&text), "policy-set", true);
        // cached-text path
        let routes: Vec<(&str, Option<String>)> = vec![
            ("to_cedar", set.to_cedar()),
            ("json->to_cedar", set.clone().to_json().ok().and_then(|j| cedar_policy::PolicySet::from_json_value(j).ok()).and_then(|s| s.to_cedar())),
        ];
        for (name, printed) in routes {
            l.transitions += 1;
            let Some(printed) = printed else {
                ctx.violation(format!("set:{name}:none"), format!("{name} gave no text for a set of static policies"), json!({"text": text}));
                continue;
            };
            match cedar_policy::PolicySet::from_str(&printed) {
                Err(e) => ctx.violation(format!("set:{name}:reparse"), format!("{name} output does not parse: {e}\n{printed}"), json!({"text": text})),
                Ok(s2) => {
                    let after = abs_of(&s2);
                    if after != before {
                        ctx.violation(format!("set:{name}:collection"), format!("{name} changed the collection of policies:\n{text}\n=>\n{printed}"), json!({"text": text}));
                    }
                }
            }
        }
        ctx.merge(l);
    });
}

fn replay(path: &str) -> i32 {
    let Some(doc) = std::fs::read_to_string(path).ok().and_then(|s| serde_json::from_str::<serde_json::Value>(&s).ok()) else {
        eprintln!("cannot read {path}");
        return 2;
    };
    let (Ok(p), Ok(st)) = (serde_json::from_value::<Pol>(doc["case"]["pol"].clone()), serde_json::from_value::<Style>(doc["case"]["style"].clone())) else {
        eprintln!("replay file holds no C05 policy case");
        return 2;
    };
    let mut l = Local::default();
    let bad = check_pol(&p, &st, &prep(), &mut l);
    println!("replaying `{}`", p.text(&st));
    for (fp, what) in &bad {
        println!("  [{fp}] {what}");
    }
    if bad.is_empty() {
        println!("no mismatch on replay");
        0
    } else {
        println!("VIOLATION property=C05 replay={path}");
        1
    }
}

pub fn run(tier: Tier, replay_file: Option<&str>) -> i32 {
    if let Some(p) = replay_file {
        return replay(p);
    }
    let ctx = Ctx::new("C05", tier);
    quiet_panics();
    let progs = programs(tier);
    let total = progs.len();
    ctx.set_info("programs", json!(total));
    let sts = styles();
    progs.par_chunks(128).enumerate().for_each(|(ci, chunk)| {
        let pr = prep();
        let mut l = Local::default();
        for (j, p) in chunk.iter().enumerate() {
            for st in &sts {
                let res = ctx.guard("C05 program", || json!({"text": p.text(st)}), || check_pol(p, st, &pr, &mut l));
                if let Some(bad) = res {
                    for (fp, what) in bad {
                        ctx.violation(fp, what, json!({"pol": serde_json::to_value(p).unwrap(), "style": serde_json::to_value(st).unwrap(), "text": p.text(st)}));
                    }
                }
            }
            ctx.sample_at(ci * 128 + j, total, || json!({"text": p.text(&sts[0])}));
        }
        ctx.merge(l);
    });
    set_level(&ctx, tier);
    ctx.finish(
        "every operator nesting parent x child-position x child (depth 2), depth-3 chains, unary-minus/boundary-literal corners, reserved words as attribute names, all strings of length <= 2 over a 15-char content alphabet in every string-bearing position, policy-level grid (effect x principal x action x resource x annotations x clauses), each in 3 parenthesisation/escape styles; case = (policy term, style); non-trivial = has a condition or a scope constraint",
        json!({"content_alphabet": progs::content_alphabet().len(), "content_len": 2, "styles": 3, "tier": tier.name()}),
        &["refsem printer emits grammar-valid text (a reject is reported as gen:*)", "structural identity is decided by bind::abs_policy (loc-free)"],
        true,
    )
}
