//! The small universe W shared by the checks (DESIGN §2.1).
use refsem::*;
use std::collections::BTreeMap;

pub fn u(ty: &str, id: &str) -> Uid {
    Uid::new(ty, id)
}

pub fn ua() -> Uid {
    u("User", "a")
}
pub fn ub() -> Uid {
    u("User", "b")
}
pub fn uz() -> Uid {
    u("User", "z")
}
pub fn gg() -> Uid {
    u("Group", "g")
}
pub fn gh() -> Uid {
    u("Group", "h")
}
pub fn dd() -> Uid {
    u("Doc", "d")
}
pub fn view() -> Uid {
    u("Action", "view")
}
pub fn edit() -> Uid {
    u("Action", "edit")
}
pub fn readers() -> Uid {
    u("Action", "readers")
}

fn ent(attrs: Vec<(&str, Val)>, tags: Vec<(&str, Val)>, parents: Vec<Uid>) -> Ent {
    Ent {
        attrs: attrs.into_iter().map(|(k, v)| (k.to_string(), v)).collect(),
        tags: tags.into_iter().map(|(k, v)| (k.to_string(), v)).collect(),
        parents: parents.into_iter().collect(),
    }
}

pub fn rec(v: Vec<(&str, Val)>) -> Val {
    Val::Rec(v.into_iter().map(|(k, v)| (k.to_string(), v)).collect())
}

pub fn ip_val(s: &str) -> Val {
    Val::Ext(ExtVal::Ip(refsem::ext::parse_ip(s).unwrap()))
}

/// the main store
pub fn store1() -> Store {
    let mut s = Store::default();
    s.ents.insert(
        ua(),
        ent(
            vec![("age", Val::Long(3)), ("nick", Val::Str("al".into())), ("mgr", Val::Uid(ub())), ("k y", Val::Bool(true))],
            vec![("t1", Val::Str("x".into()))],
            vec![gg()],
        ),
    );
    s.ents.insert(ub(), ent(vec![("age", Val::Long(i64::MAX))], vec![], vec![]));
    s.ents.insert(gg(), ent(vec![], vec![], vec![gh()]));
    s.ents.insert(gh(), ent(vec![], vec![], vec![]));
    s.ents.insert(
        dd(),
        ent(
            vec![
                ("owner", Val::Uid(ua())),
                ("labels", Val::set(vec![Val::Str("x".into()), Val::Str("y".into())])),
                ("meta", rec(vec![("pub", Val::Bool(true))])),
                ("ip", ip_val("10.0.0.1")),
            ],
            vec![("n", Val::Long(1))],
            vec![gg()],
        ),
    );
    s.ents.insert(view(), ent(vec![], vec![], vec![readers()]));
    s.ents.insert(readers(), ent(vec![], vec![], vec![]));
    s.ents.insert(edit(), ent(vec![], vec![], vec![]));
    s
}

pub fn store_empty() -> Store {
    Store::default()
}

pub fn req1() -> Req {
    let mut c = BTreeMap::new();
    c.insert("n".to_string(), Val::Long(1));
    c.insert("who".to_string(), Val::Uid(ub()));
    c.insert("flag".to_string(), Val::Bool(true));
    Req { principal: ua(), action: view(), resource: dd(), context: c }
}

pub fn req2() -> Req {
    Req { principal: uz(), action: edit(), resource: dd(), context: BTreeMap::new() }
}

pub fn req3() -> Req {
    let mut c = BTreeMap::new();
    c.insert("n".to_string(), Val::Long(i64::MIN));
    Req { principal: ub(), action: view(), resource: gg(), context: c }
}
