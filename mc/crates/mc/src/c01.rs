//! C01 — authorization semantics and purity. All ordered tuples of policy behaviour atoms
//! (effect x outcome, rotating realisations) up to n, x id spelling x construction path x
//! entity insertion order x authorizer reuse, against the reference authorizer.
use crate::bind::*;
use crate::harness::*;
use crate::world::*;
use rayon::prelude::*;
use refsem::print::Style;
use refsem::*;
use serde_json::json;
use std::collections::HashMap;
use std::str::FromStr;

#[derive(Clone, Debug, serde::Serialize, serde::Deserialize)]
pub struct Atom {
    pub pol: Pol,
    /// Some((principal binding, resource binding)) when the atom is a template + link
    pub link: Option<(Option<Uid>, Option<Uid>)>,
    pub label: String,
}

fn v(x: Var) -> E {
    E::Var(x)
}

/// realisations of (effect, intended outcome on req1/store1); the reference authorizer decides
/// the actual outcome on each request, so the labels are documentation only.
pub fn atoms(effect: Effect) -> Vec<Vec<Atom>> {
    let mk = |label: &str, principal: PR, resource: PR, conds: Vec<(bool, E)>, link: Option<(Option<Uid>, Option<Uid>)>| Atom {
        pol: Pol { id: String::new(), effect, annotations: vec![], principal, action: AS::Any, resource, conds },
        link,
        label: label.to_string(),
    };
    let ctx_missing = E::attr(v(Var::Context), "missing");
    let sat = vec![
        mk("sat:scope", PR::Eq(Ref::Uid(ua())), PR::Any, vec![], None),
        mk("sat:when", PR::Any, PR::Any, vec![(true, E::bin(BinOp::Eq, E::attr(v(Var::Principal), "age"), E::Long(3)))], None),
        mk("sat:unless", PR::Any, PR::Any, vec![(false, E::bin(BinOp::Eq, E::attr(v(Var::Context), "n"), E::Long(2)))], None),
        mk("sat:link", PR::Eq(Ref::Slot), PR::In(Ref::Slot), vec![], Some((Some(ua()), Some(gh())))),
    ];
    let unsat = vec![
        mk("unsat:scope", PR::Eq(Ref::Uid(ub())), PR::Any, vec![], None),
        mk("unsat:when", PR::Any, PR::Any, vec![(true, E::bin(BinOp::Eq, E::attr(v(Var::Resource), "owner"), E::Ent(ub())))], None),
        mk("unsat:unless", PR::Any, PR::Any, vec![(false, E::has(v(Var::Context), "n"))], None),
        mk("unsat:link", PR::In(Ref::Slot), PR::Any, vec![], Some((Some(dd()), None))),
    ];
    let err = vec![
        mk("err:attr", PR::Any, PR::Any, vec![(true, ctx_missing.clone())], None),
        mk("err:type", PR::Any, PR::Any, vec![(true, E::bin(BinOp::Eq, E::bin(BinOp::Add, E::Long(1), E::str("a")), E::Long(2)))], None),
        mk("err:entity-unless", PR::Any, PR::Any, vec![(false, E::bin(BinOp::Gt, E::attr(E::Ent(uz()), "age"), E::Long(1)))], None),
        mk("err:link", PR::Any, PR::Eq(Ref::Slot), vec![(true, E::Bool(true)), (true, ctx_missing)], Some((None, Some(dd())))),
    ];
    vec![sat, unsat, err]
}

#[derive(Clone, Copy, Debug, PartialEq, Eq, serde::Serialize, serde::Deserialize)]
pub enum Spelling {
    Default,
    ReverseSorted,
    Unicode,
}

pub fn spell(sp: Spelling, i: usize, n: usize) -> String {
    match sp {
        Spelling::Default => format!("policy{i}"),
        // sort order is the reverse of insertion order
        Spelling::ReverseSorted => format!("{}{}", (b'a' + (n - i) as u8) as char, i),
        Spelling::Unicode => ["p\"0", "é 1", "😀2", "a\\n3", " ", "policy0", "", "p\u{0}7", "\u{202e}8", "'9'"][i % 10].to_string(),
    }
}

#[derive(Clone, Copy, Debug, PartialEq, Eq, serde::Serialize, serde::Deserialize)]
pub enum Path {
    /// one `PolicySet::from_str` of the concatenated text, then `link`
    FromStr,
    /// `add` / `add_template` + `link` one by one with explicit ids
    AddOneByOne,
    /// the same, inserted in reverse order
    AddReversed,
    /// `PolicySet::from_json_value`
    FromJson,
}

/// One case: the ordered tuple of atoms + spelling; returns the reference instances (ids assigned)
#[derive(Clone, Debug, serde::Serialize, serde::Deserialize)]
pub struct Case {
    pub atoms: Vec<Atom>,
    pub spelling: Spelling,
    pub path: Path,
}

pub struct Built {
    pub pset: cedar_policy::PolicySet,
    pub insts: Vec<Inst>,
}

fn slot_map(link: &(Option<Uid>, Option<Uid>)) -> HashMap<cedar_policy::SlotId, cedar_policy::EntityUid> {
    let mut m = HashMap::new();
    if let Some(p) = &link.0 {
        m.insert(cedar_policy::SlotId::principal(), c_uid(p));
    }
    if let Some(r) = &link.1 {
        m.insert(cedar_policy::SlotId::resource(), c_uid(r));
    }
    m
}

pub fn build(case: &Case) -> Result<Built, String> {
    let n = case.atoms.len();
    let st = Style::default();
    let mut insts = Vec::new();
    let pid = |s: &str| cedar_policy::PolicyId::new(s);
    match case.path {
        Path::FromStr => {
            // ids are assigned by position: policy0.. for statics and templates alike; links get
            // ids "link{i}"
            let mut text = String::new();
            for a in &case.atoms {
                text.push_str(&a.pol.text(&st));
                text.push('\n');
            }
            let mut pset = cedar_policy::PolicySet::from_str(&text).map_err(|e| format!("from_str: {e}\n{text}"))?;
            for (i, a) in case.atoms.iter().enumerate() {
                let tid = format!("policy{i}");
                match &a.link {
                    None => {
                        let mut p = a.pol.clone();
                        p.id = tid.clone();
                        insts.push(Inst::stat(p));
                    }
                    Some(l) => {
                        let lid = format!("link{i}");
                        pset.link(pid(&tid), pid(&lid), slot_map(l)).map_err(|e| format!("link: {e}"))?;
                        insts.push(Inst { id: lid, pol: a.pol.clone(), slot_principal: l.0.clone(), slot_resource: l.1.clone() });
                    }
                }
            }
            Ok(Built { pset, insts })
        }
        Path::AddOneByOne | Path::AddReversed => {
            let mut pset = cedar_policy::PolicySet::new();
            let mut order: Vec<usize> = (0..n).collect();
            if case.path == Path::AddReversed {
                order.reverse();
            }
            for &i in &order {
                let a = &case.atoms[i];
                let id = spell(case.spelling, i, n);
                match &a.link {
                    None => {
                        let p = cedar_policy::Policy::parse(Some(pid(&id)), a.pol.text(&st)).map_err(|e| format!("parse: {e}"))?;
                        pset.add(p).map_err(|e| format!("add: {e}"))?;
                    }
                    Some(l) => {
                        let tid = format!("T-{id}");
                        let t = cedar_policy::Template::parse(Some(pid(&tid)), a.pol.text(&st)).map_err(|e| format!("parse template: {e}"))?;
                        pset.add_template(t).map_err(|e| format!("add_template: {e}"))?;
                        pset.link(pid(&tid), pid(&id), slot_map(l)).map_err(|e| format!("link: {e}"))?;
                    }
                }
            }
            for (i, a) in case.atoms.iter().enumerate() {
                let id = spell(case.spelling, i, n);
                let (sp, sr) = a.link.clone().unwrap_or((None, None));
                insts.push(Inst { id, pol: a.pol.clone(), slot_principal: sp, slot_resource: sr });
            }
            Ok(Built { pset, insts })
        }
        Path::FromJson => {
            let mut statics = serde_json::Map::new();
            let mut templates = serde_json::Map::new();
            let mut links = Vec::new();
            for (i, a) in case.atoms.iter().enumerate() {
                let id = spell(case.spelling, i, n);
                match &a.link {
                    None => {
                        statics.insert(id.clone(), a.pol.est());
                    }
                    Some(l) => {
                        let tid = format!("T-{id}");
                        templates.insert(tid.clone(), a.pol.est());
                        let mut vals = serde_json::Map::new();
                        if let Some(p) = &l.0 {
                            vals.insert("?principal".into(), refsem::print::uid_json(p));
                        }
                        if let Some(r) = &l.1 {
                            vals.insert("?resource".into(), refsem::print::uid_json(r));
                        }
                        links.push(json!({"templateId": tid, "newId": id, "values": vals}));
                    }
                }
                let (sp, sr) = a.link.clone().unwrap_or((None, None));
                insts.push(Inst { id, pol: a.pol.clone(), slot_principal: sp, slot_resource: sr });
            }
            let doc = json!({"staticPolicies": statics, "templates": templates, "templateLinks": links});
            let pset = cedar_policy::PolicySet::from_json_value(doc.clone()).map_err(|e| format!("from_json_value: {e}\n{doc}"))?;
            Ok(Built { pset, insts })
        }
    }
}

pub struct Prep {
    pub envs: Vec<(Req, Store, cedar_policy::Request, cedar_policy::Entities, cedar_policy::Entities)>,
    pub shared_auth: cedar_policy::Authorizer,
}

pub fn prep() -> Prep {
    let envs = vec![(req1(), store1()), (req2(), store1()), (req3(), store1()), (req1(), store_empty())]
        .into_iter()
        .map(|(r, s)| {
            let cr = c_request(&r);
            let e1 = c_entities_ordered(&s, false).unwrap();
            let e2 = c_entities_ordered(&s, true).unwrap();
            (r, s, cr, e1, e2)
        })
        .collect();
    Prep { envs, shared_auth: cedar_policy::Authorizer::new() }
}

pub fn check_case(case: &Case, p: &Prep, l: &mut Local) -> Vec<(String, String)> {
    let mut bad = Vec::new();
    // spelling only matters for the explicit-id paths
    let built = match build(case) {
        Ok(b) => b,
        Err(e) => {
            // duplicate ids in the Unicode spelling cannot occur for n <= 10; any failure is reported
            bad.push((format!("build:{:?}", case.path), format!("could not build policy set: {e}")));
            return bad;
        }
    };
    // a second, independently built copy (different HashMap seeds) and a clone
    let built2 = build(case).ok();
    let cloned = built.pset.clone();
    let labels: Vec<&str> = case.atoms.iter().map(|a| a.label.as_str()).collect();
    for (ei, (r, s, cr, e1, e2)) in p.envs.iter().enumerate() {
        let expect = authorize(&built.insts, r, s);
        let class = format!(
            "{:?}/reasons{}/errors{}",
            expect.decision,
            expect.reasons.len().min(2),
            expect.errors.len().min(2)
        );
        let mixes = case.atoms.len() >= 2;
        l.case(hash_of(&(&labels, case.atoms.iter().map(|a| a.pol.effect).collect::<Vec<_>>(), ei)), &class, mixes);
        let fresh = cedar_policy::Authorizer::new();
        let runs: Vec<(&str, Resp)> = vec![
            ("fresh", abs_response(&fresh.is_authorized(cr, &built.pset, e1))),
            ("shared-authorizer", abs_response(&p.shared_auth.is_authorized(cr, &built.pset, e1))),
            ("reversed-entity-insertion", abs_response(&fresh.is_authorized(cr, &built.pset, e2))),
            ("cloned-policy-set", abs_response(&fresh.is_authorized(cr, &cloned, e1))),
            ("second-call", abs_response(&fresh.is_authorized(cr, &built.pset, e1))),
        ];
        l.transitions += runs.len() as u64;
        for (name, got) in &runs {
            if *got != expect {
                bad.push((
                    format!("authorize:{name}:{}", fp_of(&expect, got)),
                    format!("path {:?} spelling {:?} atoms {:?} env#{ei} [{name}]: expected {:?} got {:?}", case.path, case.spelling, labels, expect, got),
                ));
            }
        }
        if let Some(b2) = &built2 {
            let got = abs_response(&fresh.is_authorized(cr, &b2.pset, e1));
            l.transitions += 1;
            if got != expect {
                bad.push((format!("authorize:rebuilt:{}", fp_of(&expect, &got)), format!("rebuilt set atoms {labels:?} env#{ei}: expected {expect:?} got {got:?}")));
            }
        }
    }
    bad
}

/// which component of the response differs
fn fp_of(e: &Resp, g: &Resp) -> &'static str {
    if e.decision != g.decision {
        "decision"
    } else if e.reasons != g.reasons {
        "reasons"
    } else {
        "errors"
    }
}

pub fn cases(tier: Tier) -> Vec<Case> {
    let maxn = tier.pick(4, 5);
    let per_effect: Vec<Vec<Vec<Atom>>> = vec![atoms(Effect::Permit), atoms(Effect::Forbid)];
    // behaviour atoms: (effect index, outcome index)
    let beh: Vec<(usize, usize)> = (0..2).flat_map(|e| (0..3).map(move |o| (e, o))).collect();
    let mut tuples: Vec<Vec<(usize, usize)>> = vec![vec![]];
    let mut frontier: Vec<Vec<(usize, usize)>> = vec![vec![]];
    for _ in 0..maxn {
        let mut next = Vec::new();
        for t in &frontier {
            for bh in &beh {
                let mut q = t.clone();
                q.push(*bh);
                next.push(q);
            }
        }
        tuples.extend(next.iter().cloned());
        frontier = next;
    }
    let mut out = Vec::new();
    for (ti, t) in tuples.iter().enumerate() {
        // rotating realisation: every (behaviour, realisation) pair occurs at every position
        let atoms_for = |rot: usize| -> Vec<Atom> { t.iter().enumerate().map(|(pos, (e, o))| per_effect[*e][*o][(pos + rot) % 4].clone()).collect() };
        let paths = [Path::FromStr, Path::AddOneByOne, Path::AddReversed, Path::FromJson];
        let spellings = [Spelling::Default, Spelling::ReverseSorted, Spelling::Unicode];
        match tier {
            Tier::Quick => {
                // n <= 3: full product; n = 4: all paths with one rotation, spellings rotate
                if t.len() <= 3 {
                    for rot in 0..4 {
                        for path in paths {
                            for sp in spellings {
                                if path == Path::FromStr && sp != Spelling::Default {
                                    continue;
                                }
                                out.push(Case { atoms: atoms_for(rot), spelling: sp, path });
                            }
                        }
                    }
                } else {
                    for (k, path) in paths.iter().enumerate() {
                        let sp = if *path == Path::FromStr { Spelling::Default } else { spellings[(ti + k) % 3] };
                        out.push(Case { atoms: atoms_for((ti + k) % 4), spelling: sp, path: *path });
                    }
                }
            }
            Tier::Thorough => {
                let rots: Vec<usize> = if t.len() <= 4 { (0..4).collect() } else { vec![ti % 4] };
                for rot in rots {
                    for path in paths {
                        for sp in spellings {
                            if path == Path::FromStr && sp != Spelling::Default {
                                continue;
                            }
                            if t.len() == 5 && sp != spellings[(ti + rot) % 3] && path != Path::FromStr {
                                continue;
                            }
                            out.push(Case { atoms: atoms_for(rot), spelling: sp, path });
                        }
                    }
                }
            }
        }
    }
    out
}

/// histories: BFS over sequences of (policy set, request) calls of depth <= 3 on ONE authorizer
/// and shared policy-set objects; the last answer must equal its answer in isolation.
fn histories(ctx: &Ctx) {
    let p = prep();
    let all = cases(Tier::Quick);
    // six fixed (pset, env) pairs chosen to differ in decision / reasons / errors
    let picks: Vec<&Case> = all.iter().filter(|c| c.atoms.len() == 3 && c.path == Path::AddOneByOne && c.spelling == Spelling::Default).step_by(41).take(6).collect();
    let built: Vec<Built> = picks.iter().filter_map(|c| build(c).ok()).collect();
    let auth = cedar_policy::Authorizer::new();
    let iso: Vec<Vec<Resp>> = built.iter().map(|b| p.envs.iter().map(|(_, _, cr, e1, _)| abs_response(&cedar_policy::Authorizer::new().is_authorized(cr, &b.pset, e1))).collect()).collect();
    let k = built.len() * p.envs.len();
    let mut l = Local::default();
    let mut seqs: Vec<Vec<usize>> = vec![vec![]];
    for _ in 0..3 {
        let mut next = Vec::new();
        for s in &seqs {
            for c in 0..k {
                let mut q = s.clone();
                q.push(c);
                next.push(q);
            }
        }
        for s in &next {
            let mut last = None;
            for &c in s {
                let (bi, ei) = (c / p.envs.len(), c % p.envs.len());
                let (_, _, cr, e1, _) = &p.envs[ei];
                last = Some((bi, ei, abs_response(&auth.is_authorized(cr, &built[bi].pset, e1))));
                l.transitions += 1;
            }
            let (bi, ei, got) = last.unwrap();
            l.case(hash_of(&("hist", s)), "history", s.len() >= 2);
            if got != iso[bi][ei] {
                ctx.violation("authorize:history", format!("after call sequence {s:?} the answer {got:?} differs from the isolated answer {:?}", iso[bi][ei]), json!({"kind": "history", "seq": s}));
            }
        }
        seqs = next;
    }
    ctx.merge(l);
}

fn replay(path: &str) -> i32 {
    let Some(doc) = std::fs::read_to_string(path).ok().and_then(|s| serde_json::from_str::<serde_json::Value>(&s).ok()) else {
        eprintln!("cannot read {path}");
        return 2;
    };
    let Ok(case) = serde_json::from_value::<Case>(doc["case"].clone()) else {
        eprintln!("replay file holds no C01 case");
        return 2;
    };
    let mut l = Local::default();
    let bad = check_case(&case, &prep(), &mut l);
    for (fp, what) in &bad {
        println!("  [{fp}] {what}");
    }
    if bad.is_empty() {
        println!("no mismatch on replay");
        0
    } else {
        println!("VIOLATION property=C01 replay={path}");
        1
    }
}

pub fn run(tier: Tier, replay_file: Option<&str>) -> i32 {
    if let Some(p) = replay_file {
        return replay(p);
    }
    let ctx = Ctx::new("C01", tier);
    quiet_panics();
    let cs = cases(tier);
    let total = cs.len();
    ctx.set_info("policy_set_cases", json!(total));
    cs.par_chunks(64).enumerate().for_each(|(ci, chunk)| {
        let p = prep();
        let mut l = Local::default();
        for (j, c) in chunk.iter().enumerate() {
            let res = ctx.guard("C01 case", || serde_json::to_value(c).unwrap(), || check_case(c, &p, &mut l));
            if let Some(bad) = res {
                for (fp, what) in bad {
                    ctx.violation(fp, what, serde_json::to_value(c).unwrap());
                }
            }
            ctx.sample_at(ci * 64 + j, total, || json!({"atoms": c.atoms.iter().map(|a| format!("{:?}:{}", a.pol.effect, a.label)).collect::<Vec<_>>(), "path": format!("{:?}", c.path), "spelling": format!("{:?}", c.spelling)}));
        }
        ctx.merge(l);
    });
    histories(&ctx);
    // hash-seed replay: one case in every 64 is rebuilt and re-run in a fresh thread
    let sub: Vec<&Case> = cs.iter().step_by(64).collect();
    for c in sub {
        let c2 = c.clone();
        let h = std::thread::spawn(move || {
            let p = prep();
            let b = build(&c2).ok()?;
            Some(p.envs.iter().map(|(_, _, cr, e1, _)| abs_response(&cedar_policy::Authorizer::new().is_authorized(cr, &b.pset, e1))).collect::<Vec<_>>())
        });
        let there = h.join().ok().flatten();
        let p = prep();
        let here = build(c).ok().map(|b| p.envs.iter().map(|(_, _, cr, e1, _)| abs_response(&cedar_policy::Authorizer::new().is_authorized(cr, &b.pset, e1))).collect::<Vec<_>>());
        ctx.calls(8);
        if there != here {
            ctx.violation("authorize:thread-divergence", format!("responses differ between two threads: {here:?} vs {there:?}"), serde_json::to_value(c).unwrap());
        }
    }
    ctx.finish(
        "all ordered tuples of n behaviour atoms (effect x {satisfied, unsatisfied, erroring}), realisations (scope / when / unless / template-link) rotating over positions, x construction path x id spelling; case = (tuple of (effect, realisation), environment); non-trivial = at least two policies",
        json!({"max_policies": tier.pick(4, 5), "environments": 4, "paths": ["from_str+link", "add one by one", "add reversed", "from_json_value"], "spellings": 3, "history_depth": 3, "tier": tier.name()}),
        &["reference authorizer in refsem::policy", "hash-map iteration order is varied only by rebuilding sets and by a fresh-thread replay of 1 case in 64, not enumerated"],
        true,
    )
}
