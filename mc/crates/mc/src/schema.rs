//! Schema model (DESIGN §2.5): one struct renders to both schema syntaxes, decides
//! `value ∈ type` / conformance from the statement of C11, and enumerates conformant stores and
//! requests of the small universe W.
use crate::bind::*;
use crate::harness::Tier;
use crate::world::*;
use refsem::*;
use serde_json::{json, Value as J};
use std::collections::{BTreeMap, BTreeSet};

#[derive(Clone, Debug, PartialEq, Eq, Hash)]
pub enum Ty {
    Bool,
    Long,
    Str,
    Ent(String),
    Set(Box<Ty>),
    Rec(Vec<Attr>),
    Ext(&'static str),
}

#[derive(Clone, Debug, PartialEq, Eq, Hash)]
pub struct Attr {
    pub name: String,
    pub ty: Ty,
    pub required: bool,
}

pub fn at(name: &str, ty: Ty, required: bool) -> Attr {
    Attr { name: name.to_string(), ty, required }
}

#[derive(Clone, Debug, PartialEq, Eq, Hash)]
pub struct EntDef {
    pub name: String,
    pub member_of: Vec<String>,
    pub attrs: Vec<Attr>,
    pub tags: Option<Ty>,
    pub enum_ids: Option<Vec<String>>,
}

#[derive(Clone, Debug, PartialEq, Eq, Hash)]
pub struct ActDef {
    pub id: String,
    pub member_of: Vec<String>,
    pub principals: Vec<String>,
    pub resources: Vec<String>,
    pub context: Vec<Attr>,
}

#[derive(Clone, Debug, PartialEq, Eq, Hash)]
pub struct Schema {
    pub ents: Vec<EntDef>,
    pub acts: Vec<ActDef>,
}

impl Ty {
    pub fn cedar(&self) -> String {
        match self {
            Ty::Bool => "Bool".into(),
            Ty::Long => "Long".into(),
            Ty::Str => "String".into(),
            Ty::Ent(n) => n.clone(),
            Ty::Set(t) => format!("Set<{}>", t.cedar()),
            Ty::Rec(a) => format!("{{{}}}", attrs_cedar(a)),
            Ty::Ext(n) => n.to_string(),
        }
    }
    pub fn json(&self) -> J {
        match self {
            Ty::Bool => json!({"type": "Boolean"}),
            Ty::Long => json!({"type": "Long"}),
            Ty::Str => json!({"type": "String"}),
            Ty::Ent(n) => json!({"type": "Entity", "name": n}),
            Ty::Set(t) => json!({"type": "Set", "element": t.json()}),
            Ty::Rec(a) => attrs_json(a),
            Ty::Ext(n) => json!({"type": "Extension", "name": n}),
        }
    }
}

fn attr_name_cedar(n: &str) -> String {
    if refsem::print::is_plain_ident(n) {
        n.to_string()
    } else {
        refsem::print::str_lit(n, false)
    }
}

fn attrs_cedar(a: &[Attr]) -> String {
    a.iter().map(|x| format!("{}{}: {}", attr_name_cedar(&x.name), if x.required { "" } else { "?" }, x.ty.cedar())).collect::<Vec<_>>().join(", ")
}

fn attrs_json(a: &[Attr]) -> J {
    let mut m = serde_json::Map::new();
    for x in a {
        let mut t = x.ty.json();
        if !x.required {
            t.as_object_mut().unwrap().insert("required".into(), json!(false));
        }
        m.insert(x.name.clone(), t);
    }
    json!({"type": "Record", "attributes": J::Object(m)})
}

impl Schema {
    pub fn cedar(&self) -> String {
        let mut s = String::new();
        for e in &self.ents {
            if let Some(ids) = &e.enum_ids {
                s.push_str(&format!("entity {} enum [{}];\n", e.name, ids.iter().map(|i| refsem::print::str_lit(i, false)).collect::<Vec<_>>().join(", ")));
                continue;
            }
            s.push_str(&format!("entity {}", e.name));
            if !e.member_of.is_empty() {
                s.push_str(&format!(" in [{}]", e.member_of.join(", ")));
            }
            if !e.attrs.is_empty() {
                s.push_str(&format!(" {{ {} }}", attrs_cedar(&e.attrs)));
            }
            if let Some(t) = &e.tags {
                s.push_str(&format!(" tags {}", t.cedar()));
            }
            s.push_str(";\n");
        }
        for a in &self.acts {
            s.push_str(&format!("action {}", refsem::print::str_lit(&a.id, false)));
            if !a.member_of.is_empty() {
                s.push_str(&format!(" in [{}]", a.member_of.iter().map(|i| refsem::print::str_lit(i, false)).collect::<Vec<_>>().join(", ")));
            }
            if !a.principals.is_empty() || !a.resources.is_empty() {
                s.push_str(&format!(" appliesTo {{ principal: [{}], resource: [{}], context: {{{}}} }}", a.principals.join(", "), a.resources.join(", "), attrs_cedar(&a.context)));
            }
            s.push_str(";\n");
        }
        s
    }

    pub fn json(&self) -> J {
        let mut ets = serde_json::Map::new();
        for e in &self.ents {
            if let Some(ids) = &e.enum_ids {
                ets.insert(e.name.clone(), json!({"enum": ids}));
                continue;
            }
            let mut o = serde_json::Map::new();
            o.insert("memberOfTypes".into(), json!(e.member_of));
            o.insert("shape".into(), attrs_json(&e.attrs));
            if let Some(t) = &e.tags {
                o.insert("tags".into(), t.json());
            }
            ets.insert(e.name.clone(), J::Object(o));
        }
        let mut acts = serde_json::Map::new();
        for a in &self.acts {
            let mut o = serde_json::Map::new();
            if !a.member_of.is_empty() {
                o.insert("memberOf".into(), J::Array(a.member_of.iter().map(|i| json!({"id": i})).collect()));
            }
            if !a.principals.is_empty() || !a.resources.is_empty() {
                o.insert("appliesTo".into(), json!({"principalTypes": a.principals, "resourceTypes": a.resources, "context": attrs_json(&a.context)}));
            }
            acts.insert(a.id.clone(), J::Object(o));
        }
        json!({"": {"entityTypes": J::Object(ets), "actions": J::Object(acts)}})
    }

    pub fn ent(&self, name: &str) -> Option<&EntDef> {
        self.ents.iter().find(|e| e.name == name)
    }
    pub fn act(&self, id: &str) -> Option<&ActDef> {
        self.acts.iter().find(|a| a.id == id)
    }

    /// entity types a type may (transitively) be a member of
    pub fn member_of_closure(&self, ty: &str) -> BTreeSet<String> {
        let mut seen = BTreeSet::new();
        let mut todo = vec![ty.to_string()];
        while let Some(t) = todo.pop() {
            if let Some(e) = self.ent(&t) {
                for p in &e.member_of {
                    if seen.insert(p.clone()) {
                        todo.push(p.clone());
                    }
                }
            }
        }
        seen
    }

    /// value ∈ type, from the statement of C11 (recursively; enum ids among the declared
    /// choices wherever they occur; entity references only need a declared type)
    pub fn value_in(&self, v: &Val, t: &Ty) -> bool {
        match (v, t) {
            (Val::Bool(_), Ty::Bool) | (Val::Long(_), Ty::Long) | (Val::Str(_), Ty::Str) => true,
            (Val::Uid(u), Ty::Ent(n)) => &u.ty == n && self.uid_ok(u),
            (Val::Set(s), Ty::Set(el)) => s.iter().all(|x| self.value_in(x, el)),
            (Val::Rec(r), Ty::Rec(attrs)) => self.record_in(r, attrs),
            (Val::Ext(ExtVal::Decimal(_)), Ty::Ext("decimal")) | (Val::Ext(ExtVal::Ip(_)), Ty::Ext("ipaddr")) | (Val::Ext(ExtVal::Datetime(_)), Ty::Ext("datetime")) | (Val::Ext(ExtVal::Duration(_)), Ty::Ext("duration")) => true,
            _ => false,
        }
    }
    pub fn record_in(&self, r: &BTreeMap<String, Val>, attrs: &[Attr]) -> bool {
        attrs.iter().all(|a| match r.get(&a.name) {
            Some(v) => self.value_in(v, &a.ty),
            None => !a.required,
        }) && r.keys().all(|k| attrs.iter().any(|a| &a.name == k))
    }
    /// a uid is acceptable wherever it occurs: declared type, and for enum types a declared id
    pub fn uid_ok(&self, u: &Uid) -> bool {
        if u.ty == "Action" {
            return self.act(&u.id).is_some();
        }
        match self.ent(&u.ty) {
            None => false,
            Some(e) => match &e.enum_ids {
                Some(ids) => ids.contains(&u.id),
                None => true,
            },
        }
    }

    pub fn entity_conforms(&self, u: &Uid, e: &Ent) -> bool {
        if u.ty == "Action" {
            // must be identical to the schema's definition
            return match self.act(&u.id) {
                None => false,
                Some(a) => e.attrs.is_empty() && e.tags.is_empty() && e.parents == self.action_ancestors(&a.id).into_iter().map(|i| Uid::new("Action", &i)).collect(),
            };
        }
        let Some(d) = self.ent(&u.ty) else { return false };
        if !self.uid_ok(u) {
            return false;
        }
        if d.enum_ids.is_some() {
            return e.attrs.is_empty() && e.tags.is_empty() && e.parents.is_empty();
        }
        if !self.record_in(&e.attrs, &d.attrs) {
            return false;
        }
        match &d.tags {
            None => {
                if !e.tags.is_empty() {
                    return false;
                }
            }
            Some(t) => {
                if !e.tags.values().all(|v| self.value_in(v, t)) {
                    return false;
                }
            }
        }
        let allowed = self.member_of_closure(&u.ty);
        e.parents.iter().all(|p| allowed.contains(&p.ty) && self.uid_ok(p))
    }

    /// transitive action ancestors (the schema's action entities carry the closure)
    pub fn action_ancestors(&self, id: &str) -> BTreeSet<String> {
        let mut seen = BTreeSet::new();
        let mut todo = vec![id.to_string()];
        while let Some(t) = todo.pop() {
            if let Some(a) = self.act(&t) {
                for p in &a.member_of {
                    if seen.insert(p.clone()) {
                        todo.push(p.clone());
                    }
                }
            }
        }
        seen
    }

    pub fn request_conforms(&self, r: &Req) -> bool {
        if r.action.ty != "Action" {
            return false;
        }
        let Some(a) = self.act(&r.action.id) else { return false };
        a.principals.contains(&r.principal.ty) && a.resources.contains(&r.resource.ty) && self.uid_ok(&r.principal) && self.uid_ok(&r.resource) && self.record_in(&r.context, &a.context)
    }

    /// the schema's action entities as reference entities (direct parents = declared memberOf)
    pub fn action_entities(&self) -> Vec<(Uid, Ent)> {
        self.acts
            .iter()
            .map(|a| (Uid::new("Action", &a.id), Ent { attrs: BTreeMap::new(), tags: BTreeMap::new(), parents: a.member_of.iter().map(|p| Uid::new("Action", p)).collect() }))
            .collect()
    }

    pub fn load_cedar(&self) -> Result<cedar_policy::Schema, String> {
        cedar_policy::Schema::from_cedarschema_str(&self.cedar()).map(|(s, _)| s).map_err(|e| format!("{e}\n{}", self.cedar()))
    }
    pub fn load_json(&self) -> Result<cedar_policy::Schema, String> {
        cedar_policy::Schema::from_json_value(self.json()).map_err(|e| format!("{e}\n{}", self.json()))
    }
}

/// the schema of universe W
pub fn w_schema() -> Schema {
    Schema {
        ents: vec![
            EntDef {
                name: "User".into(),
                member_of: vec!["Group".into()],
                attrs: vec![
                    at("age", Ty::Long, true),
                    at("nick", Ty::Str, false),
                    at("mgr", Ty::Ent("User".into()), false),
                    at("k y", Ty::Bool, false),
                    at("fav", Ty::Ent("Color".into()), false),
                    at("cols", Ty::Set(Box::new(Ty::Ent("Color".into()))), false),
                    // enum ids inside non-literal set elements
                    at("pals", Ty::Set(Box::new(Ty::Set(Box::new(Ty::Ent("Color".into()))))), false),
                    at("recs", Ty::Set(Box::new(Ty::Rec(vec![at("c", Ty::Ent("Color".into()), true), at("o", Ty::Long, false)]))), false),
                ],
                tags: Some(Ty::Str),
                enum_ids: None,
            },
            EntDef { name: "Group".into(), member_of: vec!["Group".into()], attrs: vec![], tags: None, enum_ids: None },
            EntDef {
                name: "Doc".into(),
                member_of: vec!["Group".into()],
                attrs: vec![
                    at("owner", Ty::Ent("User".into()), true),
                    at("labels", Ty::Set(Box::new(Ty::Str)), true),
                    at("meta", Ty::Rec(vec![at("pub", Ty::Bool, true), at("rev", Ty::Long, false), at("col", Ty::Ent("Color".into()), false)]), true),
                    at("ip", Ty::Ext("ipaddr"), false),
                    at("eds", Ty::Set(Box::new(Ty::Ent("User".into()))), false),
                ],
                tags: Some(Ty::Long),
                enum_ids: None,
            },
            EntDef { name: "Color".into(), member_of: vec![], attrs: vec![], tags: None, enum_ids: Some(vec!["red".into(), "green".into()]) },
            EntDef { name: "Pal".into(), member_of: vec!["Color".into()], attrs: vec![], tags: Some(Ty::Ent("Color".into())), enum_ids: None },
        ],
        acts: vec![
            ActDef { id: "readers".into(), member_of: vec![], principals: vec![], resources: vec![], context: vec![] },
            ActDef {
                id: "view".into(),
                member_of: vec!["readers".into()],
                principals: vec!["User".into()],
                resources: vec!["Doc".into()],
                context: vec![at("n", Ty::Long, true), at("who", Ty::Ent("User".into()), false), at("col", Ty::Ent("Color".into()), false), at("flag", Ty::Bool, false), at("rec", Ty::Rec(vec![at("a", Ty::Long, true), at("b", Ty::Long, false)]), false)],
            },
            ActDef { id: "edit".into(), member_of: vec![], principals: vec!["User".into()], resources: vec!["Doc".into(), "Group".into()], context: vec![] },
            ActDef { id: "paint".into(), member_of: vec![], principals: vec!["Color".into()], resources: vec!["Color".into(), "Pal".into()], context: vec![at("cs", Ty::Set(Box::new(Ty::Ent("Color".into()))), false)] },
        ],
    }
}

/// Conformant stores of W: a product of binary/ternary choices (entity present|absent, optional
/// attribute present|absent, 2-value attribute domains, allowed parents).
pub fn w_stores(tier: Tier) -> Vec<Store> {
    let mut out = Vec::new();
    let bools = [false, true];
    let thorough = tier == Tier::Thorough;
    // choice vectors
    for a_present in bools {
        for a_nick in bools {
            for a_mgr in [0u8, 1, 2] {
                // 0 none, 1 -> b, 2 -> z (not stored)
                for a_in_g in bools {
                    for a_tag in bools {
                        for b_present in bools {
                            for d_variant in 0..(if thorough { 8u8 } else { 4 }) {
                                for g_present in bools {
                                    if !a_present && (a_nick || a_mgr != 0 || a_in_g || a_tag) {
                                        continue;
                                    }
                                    if !thorough && (a_tag != a_in_g) {
                                        // quick cut: tag presence tied to membership
                                        continue;
                                    }
                                    let mut s = Store::default();
                                    if a_present {
                                        let mut e = Ent::default();
                                        e.attrs.insert("age".into(), Val::Long(if a_mgr == 2 { i64::MAX } else { 3 }));
                                        if a_nick {
                                            e.attrs.insert("nick".into(), Val::Str("al".into()));
                                            e.attrs.insert("k y".into(), Val::Bool(true));
                                            // an empty Set<Color> (inhabits every set type)
                                            e.attrs.insert("cols".into(), Val::set(vec![]));
                                        }
                                        match a_mgr {
                                            1 => {
                                                e.attrs.insert("mgr".into(), Val::Uid(ub()));
                                            }
                                            2 => {
                                                e.attrs.insert("mgr".into(), Val::Uid(uz()));
                                            }
                                            _ => {}
                                        }
                                        if a_in_g {
                                            e.parents.insert(gg());
                                        }
                                        if a_tag {
                                            e.tags.insert("t1".into(), Val::Str("x".into()));
                                        }
                                        s.ents.insert(ua(), e);
                                    }
                                    if b_present {
                                        let mut e = Ent::default();
                                        e.attrs.insert("age".into(), Val::Long(40));
                                        e.attrs.insert("mgr".into(), Val::Uid(ua()));
                                        e.parents.insert(gh());
                                        s.ents.insert(ub(), e);
                                    }
                                    if g_present {
                                        let mut e = Ent::default();
                                        e.parents.insert(gh());
                                        s.ents.insert(gg(), e);
                                        s.ents.insert(gh(), Ent::default());
                                    }
                                    // doc variants: bit0 rev present, bit1 ip present + tag, bit2 absent-owner
                                    if d_variant != 3 || thorough {
                                        let mut e = Ent::default();
                                        e.attrs.insert("owner".into(), Val::Uid(if d_variant & 4 != 0 { uz() } else { ua() }));
                                        e.attrs.insert("labels".into(), Val::set(vec![Val::Str("x".into())]));
                                        let mut meta = BTreeMap::new();
                                        meta.insert("pub".to_string(), Val::Bool(d_variant & 1 == 0));
                                        if d_variant & 1 != 0 {
                                            meta.insert("rev".to_string(), Val::Long(7));
                                            // Set<User>: empty when ip is absent, [a] otherwise
                                            e.attrs.insert("eds".into(), if d_variant & 2 != 0 { Val::set(vec![Val::Uid(ua())]) } else { Val::set(vec![]) });
                                        }
                                        e.attrs.insert("meta".into(), Val::Rec(meta));
                                        if d_variant & 2 != 0 {
                                            e.attrs.insert("ip".into(), ip_val("10.0.0.1"));
                                            e.tags.insert("n".into(), Val::Long(1));
                                        }
                                        e.parents.insert(gg());
                                        s.ents.insert(dd(), e);
                                    }
                                    out.push(s);
                                }
                            }
                        }
                    }
                }
            }
        }
    }
    out
}

pub fn w_requests() -> Vec<Req> {
    let mut out = Vec::new();
    for p in [ua(), ub(), uz()] {
        for (who, col, flag, n) in [(None, None, None, 1i64), (Some(ub()), None, Some(true), i64::MAX), (Some(uz()), Some("red"), Some(false), 0), (Some(ua()), Some("green"), None, i64::MIN)] {
            let mut c = BTreeMap::new();
            c.insert("n".to_string(), Val::Long(n));
            if let Some(w) = who {
                c.insert("who".to_string(), Val::Uid(w));
            }
            if let Some(col) = col {
                c.insert("col".to_string(), Val::Uid(Uid::new("Color", col)));
            }
            if let Some(f) = flag {
                c.insert("flag".to_string(), Val::Bool(f));
            }
            out.push(Req { principal: p.clone(), action: view(), resource: dd(), context: c });
        }
        out.push(Req { principal: p.clone(), action: edit(), resource: dd(), context: BTreeMap::new() });
        out.push(Req { principal: p.clone(), action: edit(), resource: gg(), context: BTreeMap::new() });
    }
    out
}

/// build the cedar store WITH schema validation (adds the schema's action entities)
pub fn c_entities_schema(s: &Store, schema: &cedar_policy::Schema) -> Result<cedar_policy::Entities, String> {
    let ents: Vec<cedar_policy::Entity> = s.ents.iter().map(|(u, e)| c_entity(u, e)).collect();
    cedar_policy::Entities::from_entities(ents, Some(schema)).map_err(|e| e.to_string())
}

pub fn c_request_schema(r: &Req, schema: &cedar_policy::Schema) -> Result<cedar_policy::Request, String> {
    cedar_policy::Request::new(c_uid(&r.principal), c_uid(&r.action), c_uid(&r.resource), c_context(&r.context), Some(schema)).map_err(|e| e.to_string())
}

/// reference store = given entities + the schema's action entities
pub fn with_actions(s: &Store, sch: &Schema) -> Store {
    let mut s = s.clone();
    for (u, e) in sch.action_entities() {
        s.ents.insert(u, e);
    }
    s
}
