//! C15 — batched (loader-driven) authorization equals ordinary authorization, for every
//! iteration budget 0..n+1 and two loader answer policies (exact / generous).
use crate::bind::*;
use crate::c14;
use crate::harness::*;
use crate::schema::*;
use cedar_policy::{Entity, EntityLoader, EntityUid};
use rayon::prelude::*;
use refsem::print::Style;
use refsem::*;
use serde_json::json;
use std::collections::{BTreeSet, HashMap, HashSet};

/// loader over a concrete store that logs every call
struct LoggingLoader<'a> {
    ents: &'a cedar_policy::Entities,
    generous: bool,
    calls: Vec<Vec<String>>,
    returned: HashSet<String>,
}

impl EntityLoader for LoggingLoader<'_> {
    fn load_entities(&mut self, uids: &HashSet<EntityUid>) -> HashMap<EntityUid, Option<Entity>> {
        let mut sorted: Vec<String> = uids.iter().map(|u| u.to_string()).collect();
        sorted.sort();
        self.calls.push(sorted);
        let mut out: HashMap<EntityUid, Option<Entity>> = HashMap::new();
        for u in uids {
            out.insert(u.clone(), self.ents.get(u).cloned());
        }
        if self.generous {
            // also the ancestors of what was asked for (every time, as a loader that fetches
            // "entity + its ancestor chain" would), and one unrelated entity not returned before
            for u in uids {
                for a in self.ents.ancestors(u).into_iter().flatten() {
                    // a shared ancestor is handed out again by a later call: "loading more
                    // entities than requested is allowed" (finding F5: this used to fail with
                    // "duplicate entity entry")
                    out.entry(a.clone()).or_insert_with(|| self.ents.get(a).cloned());
                }
            }
            let mut all: Vec<&Entity> = self.ents.iter().collect();
            all.sort_by_key(|e| e.uid().to_string());
            if let Some(e) = all.into_iter().find(|e| !self.returned.contains(&e.uid().to_string()) && !out.contains_key(&e.uid())) {
                out.insert(e.uid(), Some(e.clone()));
            }
        }
        for k in out.keys() {
            self.returned.insert(k.to_string());
        }
        out
    }
}

fn uids_of_expr(e: &E, acc: &mut BTreeSet<Uid>) {
    if let E::Ent(u) = e {
        acc.insert(u.clone());
    }
    e.for_children(&mut |c| uids_of_expr(c, acc));
}

fn uids_of_val(v: &Val, acc: &mut BTreeSet<Uid>) {
    match v {
        Val::Uid(u) => {
            acc.insert(u.clone());
        }
        Val::Set(s) => s.iter().for_each(|x| uids_of_val(x, acc)),
        Val::Rec(r) => r.values().for_each(|x| uids_of_val(x, acc)),
        _ => {}
    }
}

/// number of distinct entity ids occurring in the store, the request and the policies
fn distinct_uids(pols: &[Pol], req: &Req, store: &Store) -> usize {
    let mut acc = BTreeSet::new();
    for p in pols {
        for c in p.conjuncts() {
            uids_of_expr(&c, &mut acc);
        }
    }
    acc.insert(req.principal.clone());
    acc.insert(req.action.clone());
    acc.insert(req.resource.clone());
    for v in req.context.values() {
        uids_of_val(v, &mut acc);
    }
    for (u, e) in &store.ents {
        acc.insert(u.clone());
        for v in e.attrs.values().chain(e.tags.values()) {
            uids_of_val(v, &mut acc);
        }
        for p in &e.parents {
            acc.insert(p.clone());
        }
    }
    acc.len()
}

pub fn run(tier: Tier, replay_file: Option<&str>) -> i32 {
    if let Some(p) = replay_file {
        return replay_by_rerun("C15", p, || run(Tier::Quick, None));
    }
    let ctx = Ctx::new("C15", tier);
    quiet_panics();
    let sch = w_schema();
    let Ok(schema) = sch.load_cedar() else {
        eprintln!("MACHINERY ERROR: schema does not load");
        return 2;
    };
    let psets = c14::policy_sets(tier, &schema);
    // environments: the W stores (entities present/absent, dangling references) x W requests
    let stores: Vec<Store> = w_stores(Tier::Quick).into_iter().step_by(tier.pick(13, 2)).collect();
    let mut reqs: Vec<Req> = w_requests();
    // + a resource that no store holds (after seed C15-b1)
    {
        let mut c = std::collections::BTreeMap::new();
        c.insert("n".to_string(), Val::Long(1));
        reqs.push(Req { principal: crate::world::ua(), action: crate::world::view(), resource: Uid::new("Doc", "zz"), context: c });
    }
    let mut envs = Vec::new();
    for s in &stores {
        let Ok(ce) = c_entities_schema(s, &schema) else {
            ctx.violation("precondition:store-rejected", "conformant store rejected", json!({}));
            continue;
        };
        for r in &reqs {
            let Ok(cr) = c_request_schema(r, &schema) else { continue };
            envs.push((r.clone(), with_actions(s, &sch), cr, ce.clone()));
        }
    }
    ctx.set_info("policy_sets", json!(psets.len()));
    ctx.set_info("environments", json!(envs.len()));
    let auth = cedar_policy::Authorizer::new();
    let work: Vec<(usize, usize)> = (0..psets.len()).flat_map(|p| (0..envs.len()).map(move |e| (p, e))).collect();
    work.par_chunks(64).for_each(|chunk| {
        let mut l = Local::default();
        for &(pi, ei) in chunk {
            let (pols, pset) = &psets[pi];
            let (req, store, creq, cents) = &envs[ei];
            let expect = auth.is_authorized(creq, pset, cents).decision();
            let n = distinct_uids(pols, req, store);
            let rep = |x: serde_json::Value| json!({"policies": pols.iter().map(|p| p.text(&Style::default())).collect::<Vec<_>>(), "request": format!("{req:?}"), "store": serde_json::to_value(store).unwrap(), "detail": x});
            for generous in [false, true] {
                let mut first_ok: Option<u32> = None;
                let max = (n + 1) as u32;
                let mut b = 0u32;
                while b <= max {
                    let mut loader = LoggingLoader { ents: cents, generous, calls: vec![], returned: HashSet::new() };
                    let res = ctx.guard("is_authorized_batched", || rep(json!({"budget": b})), || pset.is_authorized_batched(creq, &schema, &mut loader, b));
                    l.transitions += 1;
                    let Some(res) = res else { break };
                    let class = match &res {
                        Ok(_) => "decision",
                        Err(_) => "insufficient",
                    };
                    l.case(hash_of(&(pi, ei, generous, b)), class, true);
                    // the loader call log is the trace: never ask for the same uid twice, at most `b` calls
                    let mut seen = HashSet::new();
                    for call in &loader.calls {
                        for u in call {
                            if !seen.insert(u.clone()) {
                                ctx.violation("loader:uid-requested-twice", format!("the loader was asked for {u} twice (calls {:?})", loader.calls), rep(json!({"budget": b, "generous": generous})));
                            }
                        }
                    }
                    if loader.calls.len() as u32 > b {
                        ctx.violation("loader:more-calls-than-budget", format!("{} loader calls with budget {b}", loader.calls.len()), rep(json!({"budget": b})));
                    }
                    match res {
                        Ok(d) => {
                            if d != expect {
                                ctx.violation(
                                    format!("decision-differs:{}", if generous { "generous-loader" } else { "exact-loader" }),
                                    format!("batched authorization (budget {b}) gives {d:?}, ordinary authorization gives {expect:?} for {req:?}"),
                                    rep(json!({"budget": b, "generous": generous, "loader_calls": loader.calls})),
                                );
                            }
                            if first_ok.is_none() {
                                first_ok = Some(b);
                            }
                        }
                        Err(e) => {
                            if !matches!(e, cedar_policy_core::batched_evaluator::err::BatchedEvalError::InsufficientIterations(_)) {
                                ctx.violation("error-other-than-insufficient-iterations", format!("budget {b}: {e}"), rep(json!({"budget": b, "generous": generous})));
                            } else {
                                if let Some(f) = first_ok {
                                    ctx.violation("not-monotone-in-budget", format!("a decision was obtained with budget {f} but budget {b} reports insufficient iterations"), rep(json!({"budget": b, "first_ok": f})));
                                }
                                if b == max {
                                    ctx.violation("budget-n-plus-1-insufficient", format!("budget {b} = n+1 (n = {n} distinct entity ids) still reports insufficient iterations"), rep(json!({"budget": b, "n": n, "loader_calls": loader.calls})));
                                }
                            }
                        }
                    }
                    // after the first decision: check the next budget and the largest one, skip the rest
                    b = match first_ok {
                        Some(f) if b == f => b + 1,
                        Some(_) if b < max => max,
                        _ => b + 1,
                    };
                }
            }
        }
        ctx.merge(l);
    });
    ctx.sample(json!({"policy_set": psets[psets.len() / 2].0.iter().map(|p| p.text(&Style::default())).collect::<Vec<_>>(), "request": format!("{:?}", envs[envs.len() / 2].0)}));
    ctx.sample(json!({"policy_set": psets[0].0.iter().map(|p| p.text(&Style::default())).collect::<Vec<_>>(), "request": format!("{:?}", envs[0].0)}));
    ctx.finish(
        "strictly valid policy sets x conformant (request, store) pairs of universe W (entities present or absent, dangling references) x loader answer policy {exact, generous} x iteration budgets 0.. up to the first decision, the next one, and n+1; the loader call log is checked as the trace; case = (policy set, environment, loader, budget); all non-trivial",
        json!({"tier": tier.name(), "budgets": "0..first decision, +1, n+1"}),
        &["ordinary Authorizer::is_authorized is the reference (itself checked against the reference authorizer in C01/C02)", "between the first decision and n+1 only budgets first+1 and n+1 are run (monotonicity is checked on those)"],
        true,
    )
}
