//! C11 — schema conformance checks accept exactly conformant requests and entities.
//! Fault enumeration: every conformant datum of W through every entry point must be accepted;
//! every single-fault mutation must be rejected by every entry point that receives the fault.
use crate::bind::*;
use crate::harness::*;
use crate::schema::*;
use crate::world::*;
use rayon::prelude::*;
use refsem::*;
use serde_json::{json, Value as J};
use std::collections::BTreeMap;

#[derive(Clone, Debug, PartialEq, Eq, serde::Serialize, serde::Deserialize)]
pub enum Part {
    Entity(Uid),
    Principal,
    Action,
    Resource,
    Context,
}

#[derive(Clone, Debug, serde::Serialize, serde::Deserialize)]
pub struct Fault {
    pub class: String,
    pub store: Store,
    pub req: Req,
    pub part: Part,
}

pub fn color(id: &str) -> Uid {
    Uid::new("Color", id)
}
pub fn pal() -> Uid {
    Uid::new("Pal", "p")
}

/// a rich conformant store exercising every schema feature
pub fn rich_store() -> Store {
    let mut s = store1();
    // store1 carries Action entities without schema knowledge; drop them (the schema adds its own)
    s.ents.retain(|u, _| u.ty != "Action");
    let a = s.ents.get_mut(&ua()).unwrap();
    a.attrs.insert("fav".into(), Val::Uid(color("red")));
    a.attrs.insert("cols".into(), Val::set(vec![Val::Uid(color("red")), Val::Uid(color("green"))]));
    a.attrs.insert("pals".into(), Val::set(vec![Val::set(vec![Val::Uid(color("red"))]), Val::set(vec![])]));
    a.attrs.insert("recs".into(), Val::set(vec![rec(vec![("c", Val::Uid(color("green")))]), rec(vec![("c", Val::Uid(color("red"))), ("o", Val::Long(1))])]));
    let d = s.ents.get_mut(&dd()).unwrap();
    d.attrs.insert("meta".into(), rec(vec![("pub", Val::Bool(true)), ("rev", Val::Long(2)), ("col", Val::Uid(color("green")))]));
    let mut p = Ent::default();
    p.tags.insert("t".into(), Val::Uid(color("red")));
    p.parents.insert(color("red"));
    s.ents.insert(pal(), p);
    s.ents.insert(color("green"), Ent::default());
    s
}

pub fn lean_store() -> Store {
    let mut s = Store::default();
    let mut a = Ent::default();
    a.attrs.insert("age".into(), Val::Long(1));
    s.ents.insert(ua(), a);
    let mut d = Ent::default();
    d.attrs.insert("owner".into(), Val::Uid(uz()));
    d.attrs.insert("labels".into(), Val::set(vec![]));
    d.attrs.insert("meta".into(), rec(vec![("pub", Val::Bool(false))]));
    s.ents.insert(dd(), d);
    s.ents.insert(gg(), Ent::default());
    s.ents.insert(pal(), Ent::default());
    s
}

pub fn base_requests() -> Vec<Req> {
    let mut v = vec![];
    let mut c = BTreeMap::new();
    c.insert("n".to_string(), Val::Long(1));
    c.insert("who".to_string(), Val::Uid(ub()));
    c.insert("col".to_string(), Val::Uid(color("red")));
    c.insert("flag".to_string(), Val::Bool(true));
    v.push(Req { principal: ua(), action: view(), resource: dd(), context: c });
    v.push(Req { principal: ua(), action: edit(), resource: gg(), context: BTreeMap::new() });
    // a lean view request: every optional context attribute absent, optional nested attribute absent
    let mut c = BTreeMap::new();
    c.insert("n".to_string(), Val::Long(1));
    v.push(Req { principal: ub(), action: view(), resource: dd(), context: c });
    let mut c = BTreeMap::new();
    c.insert("n".to_string(), Val::Long(2));
    c.insert("rec".to_string(), rec(vec![("a", Val::Long(1))]));
    v.push(Req { principal: ua(), action: view(), resource: dd(), context: c });
    let mut c = BTreeMap::new();
    c.insert("cs".to_string(), Val::set(vec![Val::Uid(color("red"))]));
    v.push(Req { principal: color("red"), action: Uid::new("Action", "paint"), resource: pal(), context: c });
    v.push(Req { principal: color("green"), action: Uid::new("Action", "paint"), resource: color("red"), context: BTreeMap::new() });
    v
}

fn set_attr(s: &mut Store, u: &Uid, k: &str, v: Val) {
    s.ents.get_mut(u).unwrap().attrs.insert(k.to_string(), v);
}

/// all single-fault mutations of (store, request)
pub fn faults(store: &Store, req: &Req) -> Vec<Fault> {
    let mut out = Vec::new();
    let mut ef = |class: &str, u: Uid, f: &dyn Fn(&mut Store)| {
        let mut s = store.clone();
        if !s.ents.contains_key(&u) && u.ty != "Action" && u.ty != "Nope" && !(u.ty == "Color" && u.id == "blue") {
            return;
        }
        f(&mut s);
        out.push(Fault { class: class.to_string(), store: s, req: req.clone(), part: Part::Entity(u) });
    };
    let a = ua();
    let d = dd();
    let g = gg();
    let p = pal();
    ef("wrong-primitive:long-gets-string", a.clone(), &|s| set_attr(s, &ua(), "age", Val::Str("x".into())));
    ef("wrong-primitive:long-gets-bool", a.clone(), &|s| set_attr(s, &ua(), "age", Val::Bool(true)));
    ef("wrong-primitive:string-gets-long", a.clone(), &|s| set_attr(s, &ua(), "nick", Val::Long(1)));
    ef("wrong-primitive:bool-gets-string", a.clone(), &|s| set_attr(s, &ua(), "k y", Val::Str("t".into())));
    ef("wrong-kind:long-gets-set", a.clone(), &|s| set_attr(s, &ua(), "age", Val::set(vec![Val::Long(1)])));
    ef("wrong-kind:entity-gets-string", a.clone(), &|s| set_attr(s, &ua(), "mgr", Val::Str("User::\"b\"".into())));
    ef("wrong-entity-type:attr", a.clone(), &|s| set_attr(s, &ua(), "mgr", Val::Uid(gg())));
    ef("wrong-entity-type:required-attr", d.clone(), &|s| set_attr(s, &dd(), "owner", Val::Uid(gg())));
    ef("unknown-entity-type:attr", a.clone(), &|s| set_attr(s, &ua(), "mgr", Val::Uid(Uid::new("Nope", "x"))));
    ef("wrong-set-element", d.clone(), &|s| set_attr(s, &dd(), "labels", Val::set(vec![Val::Str("x".into()), Val::Long(1)])));
    ef("wrong-set-element:single", d.clone(), &|s| set_attr(s, &dd(), "labels", Val::set(vec![Val::Long(1)])));
    ef("set-gets-scalar", d.clone(), &|s| set_attr(s, &dd(), "labels", Val::Str("x".into())));
    ef("wrong-nested-field", d.clone(), &|s| set_attr(s, &dd(), "meta", rec(vec![("pub", Val::Long(1))])));
    ef("wrong-nested-optional-field", d.clone(), &|s| set_attr(s, &dd(), "meta", rec(vec![("pub", Val::Bool(true)), ("rev", Val::Str("2".into()))])));
    ef("record-gets-scalar", d.clone(), &|s| set_attr(s, &dd(), "meta", Val::Bool(true)));
    ef("missing-required:top", a.clone(), &|s| {
        s.ents.get_mut(&ua()).unwrap().attrs.remove("age");
    });
    ef("missing-required:top-entity-typed", d.clone(), &|s| {
        s.ents.get_mut(&dd()).unwrap().attrs.remove("owner");
    });
    ef("missing-required:record-attr", d.clone(), &|s| {
        s.ents.get_mut(&dd()).unwrap().attrs.remove("meta");
    });
    ef("missing-required:nested", d.clone(), &|s| set_attr(s, &dd(), "meta", rec(vec![("rev", Val::Long(1))])));
    ef("undeclared-attr:top", a.clone(), &|s| set_attr(s, &ua(), "extra", Val::Long(1)));
    ef("undeclared-attr:on-attrless-type", g.clone(), &|s| set_attr(s, &gg(), "extra", Val::Long(1)));
    ef("undeclared-attr:nested", d.clone(), &|s| set_attr(s, &dd(), "meta", rec(vec![("pub", Val::Bool(true)), ("extra", Val::Long(1))])));
    ef("wrong-extension-type", d.clone(), &|s| set_attr(s, &dd(), "ip", Val::Ext(ExtVal::Decimal(10000))));
    ef("extension-gets-string", d.clone(), &|s| set_attr(s, &dd(), "ip", Val::Str("not an ip".into())));
    ef("tag-on-tagless-type", g.clone(), &|s| {
        s.ents.get_mut(&gg()).unwrap().tags.insert("t".into(), Val::Str("x".into()));
    });
    ef("wrong-tag-type:string-tags-get-long", a.clone(), &|s| {
        s.ents.get_mut(&ua()).unwrap().tags.insert("t9".into(), Val::Long(1));
    });
    ef("wrong-tag-type:long-tags-get-string", d.clone(), &|s| {
        s.ents.get_mut(&dd()).unwrap().tags.insert("t9".into(), Val::Str("x".into()));
    });
    ef("wrong-tag-type:entity-tags-get-wrong-entity", p.clone(), &|s| {
        s.ents.get_mut(&pal()).unwrap().tags.insert("t9".into(), Val::Uid(ua()));
    });
    ef("parent-of-unpermitted-type:user-in-doc", a.clone(), &|s| {
        s.ents.get_mut(&ua()).unwrap().parents.insert(dd());
    });
    ef("parent-of-unpermitted-type:group-in-user", g.clone(), &|s| {
        s.ents.get_mut(&gg()).unwrap().parents.insert(ua());
    });
    ef("parent-of-unpermitted-type:user-in-color", a.clone(), &|s| {
        s.ents.get_mut(&ua()).unwrap().parents.insert(color("red"));
    });
    ef("parent-of-unknown-type", a.clone(), &|s| {
        s.ents.get_mut(&ua()).unwrap().parents.insert(Uid::new("Nope", "x"));
    });
    ef("enum-id-not-declared:entity-uid", color("blue"), &|s| {
        s.ents.insert(color("blue"), Ent::default());
    });
    ef("enum-id-not-declared:in-attr", a.clone(), &|s| set_attr(s, &ua(), "fav", Val::Uid(color("blue"))));
    ef("enum-id-not-declared:in-set", a.clone(), &|s| set_attr(s, &ua(), "cols", Val::set(vec![Val::Uid(color("red")), Val::Uid(color("blue"))])));
    ef("enum-id-not-declared:in-set-of-sets", a.clone(), &|s| set_attr(s, &ua(), "pals", Val::set(vec![Val::set(vec![Val::Uid(color("red"))]), Val::set(vec![Val::Uid(color("blue"))])])));
    ef("enum-id-not-declared:in-set-of-records", a.clone(), &|s| set_attr(s, &ua(), "recs", Val::set(vec![rec(vec![("c", Val::Uid(color("blue")))])])));
    ef("wrong-type:in-set-of-records", a.clone(), &|s| set_attr(s, &ua(), "recs", Val::set(vec![rec(vec![("c", Val::Uid(color("red"))), ("o", Val::Str("x".into()))])])));
    ef("undeclared-attr:in-set-of-records", a.clone(), &|s| set_attr(s, &ua(), "recs", Val::set(vec![rec(vec![("c", Val::Uid(color("red"))), ("zz", Val::Long(1))])])));
    ef("missing-required:in-set-of-records", a.clone(), &|s| set_attr(s, &ua(), "recs", Val::set(vec![rec(vec![("o", Val::Long(1))])])));
    ef("wrong-element:in-set-of-sets", a.clone(), &|s| set_attr(s, &ua(), "pals", Val::set(vec![Val::set(vec![Val::Long(1)])])));
    ef("enum-id-not-declared:in-record", d.clone(), &|s| set_attr(s, &dd(), "meta", rec(vec![("pub", Val::Bool(true)), ("col", Val::Uid(color("blue")))])));
    ef("enum-id-not-declared:as-parent", p.clone(), &|s| {
        s.ents.get_mut(&pal()).unwrap().parents.insert(color("blue"));
    });
    ef("enum-id-not-declared:in-tag", p.clone(), &|s| {
        s.ents.get_mut(&pal()).unwrap().tags.insert("t9".into(), Val::Uid(color("blue")));
    });
    ef("enum-entity-with-attr", color("green"), &|s| {
        s.ents.insert(color("green"), Ent { attrs: [("x".to_string(), Val::Long(1))].into_iter().collect(), ..Default::default() });
    });
    ef("unknown-entity-type:entity", Uid::new("Nope", "x"), &|s| {
        s.ents.insert(Uid::new("Nope", "x"), Ent::default());
    });
    ef("action-entity-differs:extra-attr", view(), &|s| {
        s.ents.insert(view(), Ent { attrs: [("x".to_string(), Val::Long(1))].into_iter().collect(), parents: [readers()].into_iter().collect(), ..Default::default() });
    });
    ef("action-entity-differs:missing-parent", view(), &|s| {
        s.ents.insert(view(), Ent::default());
    });
    ef("action-entity-differs:extra-parent", edit(), &|s| {
        s.ents.insert(edit(), Ent { parents: [readers()].into_iter().collect(), ..Default::default() });
    });
    ef("action-entity-undeclared", Uid::new("Action", "zz"), &|s| {
        s.ents.insert(Uid::new("Action", "zz"), Ent::default());
    });
    // request faults
    let mut rf = |class: &str, part: Part, f: &dyn Fn(&mut Req) -> bool| {
        let mut r = req.clone();
        if f(&mut r) {
            out.push(Fault { class: class.to_string(), store: store.clone(), req: r, part });
        }
    };
    let is_view = req.action == view();
    let is_paint = req.action.id == "paint";
    rf("undeclared-action", Part::Action, &|r| {
        r.action = Uid::new("Action", "zz");
        true
    });
    rf("action-of-wrong-type", Part::Action, &|r| {
        r.action = Uid::new("User", "view");
        true
    });
    rf("principal-type-not-in-appliesTo", Part::Principal, &|r| {
        r.principal = gg();
        true
    });
    rf("principal-unknown-type", Part::Principal, &|r| {
        r.principal = Uid::new("Nope", "x");
        true
    });
    rf("resource-type-not-in-appliesTo", Part::Resource, &|r| {
        r.resource = ua();
        true
    });
    rf("resource-type-other-actions-resource", Part::Resource, &|r| {
        if is_view {
            r.resource = gg();
            true
        } else {
            false
        }
    });
    rf("enum-id-not-declared:principal", Part::Principal, &|r| {
        if is_paint {
            r.principal = color("blue");
            true
        } else {
            false
        }
    });
    rf("enum-id-not-declared:resource", Part::Resource, &|r| {
        if is_paint && r.resource.ty == "Color" {
            r.resource = color("blue");
            true
        } else {
            false
        }
    });
    // the action is declared but applies to nothing: the fault is in the principal/resource
    // types, so only the entry points that see the scope variables receive it
    rf("action-group-without-appliesTo", Part::Principal, &|r| {
        r.action = readers();
        true
    });
    rf("context:missing-required", Part::Context, &|r| r.context.remove("n").is_some());
    rf("context:wrong-type", Part::Context, &|r| {
        if is_view {
            r.context.insert("n".into(), Val::Str("1".into()));
            true
        } else {
            false
        }
    });
    rf("context:wrong-optional-type", Part::Context, &|r| {
        if is_view {
            r.context.insert("flag".into(), Val::Long(1));
            true
        } else {
            false
        }
    });
    rf("context:wrong-entity-type", Part::Context, &|r| {
        if is_view {
            r.context.insert("who".into(), Val::Uid(gg()));
            true
        } else {
            false
        }
    });
    rf("context:undeclared-attr", Part::Context, &|r| {
        r.context.insert("extra".into(), Val::Long(1));
        true
    });
    rf("context:nested-undeclared-attr", Part::Context, &|r| {
        if is_view {
            r.context.insert("rec".into(), rec(vec![("a", Val::Long(1)), ("zz", Val::Long(1))]));
            true
        } else {
            false
        }
    });
    rf("context:nested-wrong-type", Part::Context, &|r| {
        if is_view {
            r.context.insert("rec".into(), rec(vec![("a", Val::Str("1".into()))]));
            true
        } else {
            false
        }
    });
    rf("context:nested-missing-required", Part::Context, &|r| {
        if is_view {
            r.context.insert("rec".into(), rec(vec![("b", Val::Long(1))]));
            true
        } else {
            false
        }
    });
    rf("enum-id-not-declared:in-context", Part::Context, &|r| {
        if is_view {
            r.context.insert("col".into(), Val::Uid(color("blue")));
            true
        } else {
            false
        }
    });
    rf("enum-id-not-declared:in-context-set", Part::Context, &|r| {
        if is_paint {
            r.context.insert("cs".into(), Val::set(vec![Val::Uid(color("red")), Val::Uid(color("blue"))]));
            true
        } else {
            false
        }
    });
    rf("context:set-wrong-element", Part::Context, &|r| {
        if is_paint {
            r.context.insert("cs".into(), Val::set(vec![Val::Long(1)]));
            true
        } else {
            false
        }
    });
    out
}

pub fn entity_json(u: &Uid, e: &Ent) -> J {
    let mut attrs = serde_json::Map::new();
    for (k, v) in &e.attrs {
        attrs.insert(k.clone(), refsem::print::val_json(v));
    }
    let mut o = json!({"uid": refsem::print::uid_json(u), "attrs": J::Object(attrs), "parents": e.parents.iter().map(refsem::print::uid_json).collect::<Vec<_>>()});
    if !e.tags.is_empty() {
        let mut tags = serde_json::Map::new();
        for (k, v) in &e.tags {
            tags.insert(k.clone(), refsem::print::val_json(v));
        }
        o.as_object_mut().unwrap().insert("tags".into(), J::Object(tags));
    }
    o
}

pub fn store_json(s: &Store) -> J {
    J::Array(s.ents.iter().map(|(u, e)| entity_json(u, e)).collect())
}

pub fn context_json(c: &BTreeMap<String, Val>) -> J {
    refsem::print::val_json(&Val::Rec(c.clone()))
}

/// run all entity-side entry points; returns (entry point, accepted?)
pub fn entity_entry_points(s: &Store, focus: Option<&Uid>, good: Option<&Store>, schema: &cedar_policy::Schema) -> Vec<(&'static str, bool)> {
    let mut out = Vec::new();
    let all = || -> Vec<cedar_policy::Entity> { s.ents.iter().map(|(u, e)| c_entity(u, e)).collect() };
    out.push(("Entities::from_entities", cedar_policy::Entities::from_entities(all(), Some(schema)).is_ok()));
    out.push(("Entities::from_json_value", cedar_policy::Entities::from_json_value(store_json(s), Some(schema)).is_ok()));
    out.push(("Entities::from_json_str", cedar_policy::Entities::from_json_str(&store_json(s).to_string(), Some(schema)).is_ok()));
    out.push(("Entities::empty().add_entities", cedar_policy::Entities::empty().add_entities(all(), Some(schema)).is_ok()));
    out.push(("Entities::empty().upsert_entities", cedar_policy::Entities::empty().upsert_entities(all(), Some(schema)).is_ok()));
    out.push(("Entities::empty().add_entities_from_json_value", cedar_policy::Entities::empty().add_entities_from_json_value(store_json(s), Some(schema)).is_ok()));
    if let Some(u) = focus {
        if let Some(e) = s.ents.get(u) {
            // the rest of the store is valid: add / upsert only the focused entity
            let mut rest = s.clone();
            rest.ents.remove(u);
            if let Ok(base) = cedar_policy::Entities::from_entities(rest.ents.iter().map(|(u, e)| c_entity(u, e)), Some(schema)) {
                out.push(("valid-store.add_entities([e])", base.clone().add_entities([c_entity(u, e)], Some(schema)).is_ok()));
                out.push(("valid-store.upsert_entities([e]) (new)", base.clone().upsert_entities([c_entity(u, e)], Some(schema)).is_ok()));
                out.push(("valid-store.add_entities_from_json_value([e])", base.add_entities_from_json_value(J::Array(vec![entity_json(u, e)]), Some(schema)).is_ok()));
            }
            // the store holds the conformant version: upsert replaces it
            if let Some(g) = good {
                if g.ents.contains_key(u) {
                    if let Ok(base) = cedar_policy::Entities::from_entities(g.ents.iter().map(|(u, e)| c_entity(u, e)), Some(schema)) {
                        out.push(("valid-store.upsert_entities([e]) (replace)", base.upsert_entities([c_entity(u, e)], Some(schema)).is_ok()));
                    }
                }
            }
            out.push(("Entity::from_json_value", cedar_policy::Entity::from_json_value(entity_json(u, e), Some(schema)).is_ok()));
        }
    }
    out
}

pub fn request_entry_points(r: &Req, part: Option<&Part>, schema: &cedar_policy::Schema) -> Vec<(&'static str, bool)> {
    let mut out = Vec::new();
    let (p, a, res) = (c_uid(&r.principal), c_uid(&r.action), c_uid(&r.resource));
    let ctx = c_context(&r.context);
    out.push(("Request::new", cedar_policy::Request::new(p.clone(), a.clone(), res.clone(), ctx.clone(), Some(schema)).is_ok()));
    out.push((
        "RequestBuilder::schema().build",
        cedar_policy::Request::builder().principal(p.clone()).action(a.clone()).resource(res.clone()).context(ctx.clone()).schema(schema).build().is_ok(),
    ));
    let ctx_visible = matches!(part, None | Some(Part::Context) | Some(Part::Action));
    let scope_visible = matches!(part, None | Some(Part::Principal) | Some(Part::Action) | Some(Part::Resource));
    if ctx_visible {
        // the context entry points receive (context, action)
        let from_json = cedar_policy::Context::from_json_value(context_json(&r.context), Some((schema, &a)));
        out.push(("Context::from_json_value(schema, action)", from_json.is_ok()));
        out.push(("Context::validate", ctx.validate(schema, &a).is_ok()));
        if let Ok(c) = from_json {
            out.push(("Request::new(context from schema-JSON)", cedar_policy::Request::new(p.clone(), a.clone(), res.clone(), c, Some(schema)).is_ok()));
        }
    }
    if scope_visible {
        out.push(("validate_scope_variables", cedar_policy::validate_scope_variables(&p, &a, &res, schema).is_ok()));
    }
    out
}

fn replay(path: &str) -> i32 {
    let Some(doc) = std::fs::read_to_string(path).ok().and_then(|s| serde_json::from_str::<J>(&s).ok()) else {
        eprintln!("cannot read {path}");
        return 2;
    };
    let Ok(f) = serde_json::from_value::<Fault>(doc["case"].clone()) else {
        eprintln!("replay file holds no C11 fault case");
        return 2;
    };
    let sch = w_schema();
    let schema = sch.load_cedar().unwrap();
    println!("fault class {} part {:?}", f.class, f.part);
    let res = match &f.part {
        Part::Entity(u) => entity_entry_points(&f.store, Some(u), None, &schema),
        p => request_entry_points(&f.req, Some(p), &schema),
    };
    let mut fail = false;
    for (ep, ok) in res {
        println!("  {ep}: accepted={ok}");
        if ok {
            fail = true;
        }
    }
    if fail {
        println!("VIOLATION property=C11 replay={path}");
        1
    } else {
        0
    }
}

pub fn run(tier: Tier, replay_file: Option<&str>) -> i32 {
    if let Some(p) = replay_file {
        return replay(p);
    }
    let mut ctx = Ctx::new("C11", tier);
    ctx.level = "fault_enumeration";
    quiet_panics();
    let sch = w_schema();
    let schemas: Vec<(&str, cedar_policy::Schema)> = match (sch.load_cedar(), sch.load_json()) {
        (Ok(a), Ok(b)) => vec![("cedar-syntax", a), ("json-syntax", b)],
        (a, b) => {
            eprintln!("MACHINERY ERROR: W schema does not load: {:?} {:?}", a.err(), b.err());
            return 2;
        }
    };
    // ---- conformant data must be accepted everywhere ----
    let mut stores = w_stores(tier);
    stores.push(rich_store());
    stores.push(lean_store());
    let mut reqs = w_requests();
    reqs.extend(base_requests());
    ctx.set_info("conformant_stores", json!(stores.len()));
    ctx.set_info("conformant_requests", json!(reqs.len()));
    for (sname, schema) in &schemas {
        stores.par_iter().enumerate().for_each(|(i, s)| {
            let mut l = Local::default();
            // the oracle must agree that the generated store is conformant
            for (u, e) in &s.ents {
                if !sch.entity_conforms(u, e) {
                    ctx.violation("gen:store-not-conformant", format!("generator produced a non-conformant entity {u:?}"), json!({"store": i}));
                }
            }
            let focus = s.ents.keys().nth(i % s.ents.len().max(1)).cloned();
            let res = ctx.guard("C11 conformant store", || json!({"store": i}), || entity_entry_points(s, focus.as_ref(), Some(s), schema));
            l.case(hash_of(&(s, sname)), "conformant-store", true);
            for (ep, ok) in res.unwrap_or_default() {
                l.transitions += 1;
                if !ok {
                    ctx.violation(format!("conformant-rejected:{ep}"), format!("[{sname}] conformant store #{i} rejected by {ep}: {}", store_json(s)), json!({"kind": "conformant-store", "store": serde_json::to_value(s).unwrap()}));
                }
            }
            ctx.merge(l);
        });
        for (i, r) in reqs.iter().enumerate() {
            let mut l = Local::default();
            if !sch.request_conforms(r) {
                ctx.violation("gen:request-not-conformant", format!("{r:?}"), json!({"req": i}));
            }
            l.case(hash_of(&(r, sname)), "conformant-request", true);
            for (ep, ok) in request_entry_points(r, None, schema) {
                l.transitions += 1;
                if !ok {
                    ctx.violation(format!("conformant-rejected:{ep}"), format!("[{sname}] conformant request rejected by {ep}: {r:?}"), json!({"kind": "conformant-request", "req": serde_json::to_value(r).unwrap()}));
                }
            }
            ctx.merge(l);
        }
    }
    // ---- single faults must be rejected by every entry point that receives them ----
    let bases: Vec<Store> = match tier {
        Tier::Quick => vec![rich_store(), lean_store()],
        Tier::Thorough => {
            let mut v = vec![rich_store(), lean_store()];
            // every 8th store of the conformant enumeration as a further base
            v.extend(w_stores(Tier::Quick).into_iter().step_by(8));
            v
        }
    };
    let mut all_faults: Vec<(usize, Fault, Store)> = Vec::new();
    for (bi, b) in bases.iter().enumerate() {
        for r in base_requests() {
            for f in faults(b, &r) {
                // entity faults do not depend on the request: keep them once per base
                if matches!(f.part, Part::Entity(_)) && r.action != view() {
                    continue;
                }
                all_faults.push((bi, f, b.clone()));
            }
        }
    }
    ctx.set_info("single_fault_data", json!(all_faults.len()));
    for (sname, schema) in &schemas {
        all_faults.par_iter().for_each(|(bi, f, good)| {
            let mut l = Local::default();
            // sanity of the oracle: the mutated part must really be non-conformant
            let nonconf = match &f.part {
                Part::Entity(u) => f.store.ents.get(u).map(|e| !sch.entity_conforms(u, e)).unwrap_or(true),
                _ => !sch.request_conforms(&f.req),
            };
            if !nonconf {
                ctx.violation("gen:fault-is-conformant", format!("fault {} on base {bi} is conformant by the oracle", f.class), serde_json::to_value(f).unwrap());
                return;
            }
            l.case(hash_of(&(&f.class, bi, &f.req.action, sname)), &format!("fault:{}", f.class.split(':').next().unwrap_or("")), true);
            let res = ctx.guard("C11 fault", || serde_json::to_value(f).unwrap(), || match &f.part {
                Part::Entity(u) => entity_entry_points(&f.store, Some(u), Some(good), schema),
                p => request_entry_points(&f.req, Some(p), schema),
            });
            for (ep, ok) in res.unwrap_or_default() {
                l.transitions += 1;
                if ok {
                    ctx.violation(format!("fault-accepted:{}:{ep}", f.class), format!("[{sname}] single fault `{}` (base {bi}, part {:?}) ACCEPTED by {ep}", f.class, f.part), serde_json::to_value(f).unwrap());
                }
            }
            ctx.merge(l);
        });
    }
    if let Some(f) = all_faults.first() {
        ctx.sample(json!({"fault": f.1.class, "part": format!("{:?}", f.1.part)}));
    }
    ctx.sample(json!({"conformant_store": store_json(&stores[stores.len() / 2])}));
    ctx.sample(json!({"conformant_request": format!("{:?}", reqs[0])}));
    ctx.finish(
        "conformant stores/requests of universe W (product of presence/optional/value/parent choices) through every schema-taking entry point must be accepted; every single-fault mutation (60+ fault classes x positions x bases) must be rejected by every entry point that receives the faulty part; case = (datum, schema syntax); all fault cases are non-trivial",
        json!({"entry_points_entities": 11, "entry_points_requests": 6, "schema_syntaxes": 2, "tier": tier.name()}),
        &["conformance oracle schema.rs::{entity_conforms, request_conforms} written from the statement of C11", "faults are single; the oracle is only asked about data it generated"],
        true,
    )
}
