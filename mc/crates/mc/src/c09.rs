//! C09 — the JSON and Cedar schema syntaxes denote the same schema.
//! Deviation bounding from a minimal schema: all feature subsets of size <= 3 (quick) / <= 4
//! (thorough); each schema is written in both syntaxes, translated by the real code in both
//! directions and re-loaded; loaded schemas must be equal and give identical verdicts.
use crate::harness::*;
use rayon::prelude::*;
use serde_json::{json, Value as J};
use std::collections::BTreeMap;

/// a schema under construction, rendered to both syntaxes
#[derive(Clone, Default)]
struct Doc {
    /// namespace -> (cedar declarations, json entityTypes, json actions, json commonTypes)
    ns: BTreeMap<String, NsDoc>,
}

#[derive(Clone, Default)]
struct NsDoc {
    cedar: Vec<String>,
    ents: serde_json::Map<String, J>,
    acts: serde_json::Map<String, J>,
    commons: serde_json::Map<String, J>,
    /// extra attributes of the designated entity `User` of the empty namespace
    user_attrs_cedar: Vec<String>,
    user_attrs_json: serde_json::Map<String, J>,
}

impl Doc {
    fn ns(&mut self, n: &str) -> &mut NsDoc {
        self.ns.entry(n.to_string()).or_default()
    }
    fn cedar(&self) -> String {
        let mut out = String::new();
        for (name, d) in &self.ns {
            let mut body = String::new();
            if name.is_empty() {
                // the designated User entity
                body.push_str(&format!("entity User in [Group] {{ age: Long{} }};\n", d.user_attrs_cedar.iter().map(|a| format!(", {a}")).collect::<String>()));
            }
            for c in &d.cedar {
                body.push_str(c);
                body.push('\n');
            }
            if name.is_empty() {
                out.push_str(&body);
            } else {
                out.push_str(&format!("namespace {name} {{\n{body}}}\n"));
            }
        }
        out
    }
    fn json(&self) -> J {
        let mut top = serde_json::Map::new();
        for (name, d) in &self.ns {
            let mut ents = d.ents.clone();
            if name.is_empty() {
                let mut attrs = serde_json::Map::new();
                attrs.insert("age".into(), json!({"type": "Long"}));
                for (k, v) in &d.user_attrs_json {
                    attrs.insert(k.clone(), v.clone());
                }
                ents.insert("User".into(), json!({"memberOfTypes": ["Group"], "shape": {"type": "Record", "attributes": J::Object(attrs)}}));
            }
            let mut o = serde_json::Map::new();
            if !d.commons.is_empty() {
                o.insert("commonTypes".into(), J::Object(d.commons.clone()));
            }
            o.insert("entityTypes".into(), J::Object(ents));
            o.insert("actions".into(), J::Object(d.acts.clone()));
            top.insert(name.clone(), J::Object(o));
        }
        J::Object(top)
    }
}

fn base() -> Doc {
    let mut d = Doc::default();
    let n = d.ns("");
    n.cedar.push("entity Group in [Group];".into());
    n.cedar.push("entity Doc in [Group] { owner: User };".into());
    n.cedar.push("action view appliesTo { principal: [User], resource: [Doc], context: { n: Long } };".into());
    n.ents.insert("Group".into(), json!({"memberOfTypes": ["Group"]}));
    n.ents.insert("Doc".into(), json!({"memberOfTypes": ["Group"], "shape": {"type": "Record", "attributes": {"owner": {"type": "Entity", "name": "User"}}}}));
    n.acts.insert("view".into(), json!({"appliesTo": {"principalTypes": ["User"], "resourceTypes": ["Doc"], "context": {"type": "Record", "attributes": {"n": {"type": "Long"}}}}}));
    d
}

type Feature = (&'static str, fn(&mut Doc));

fn user_attr(d: &mut Doc, cedar: &str, name: &str, j: J) {
    let n = d.ns("");
    n.user_attrs_cedar.push(cedar.to_string());
    n.user_attrs_json.insert(name.to_string(), j);
}

fn features() -> Vec<Feature> {
    vec![
        ("namespace-1", |d| {
            let n = d.ns("NS1");
            n.cedar.push("entity Thing in [Box] { owner: User, next?: Thing };".into());
            n.cedar.push("entity Box;".into());
            n.ents.insert("Thing".into(), json!({"memberOfTypes": ["Box"], "shape": {"type": "Record", "attributes": {"owner": {"type": "Entity", "name": "User"}, "next": {"type": "Entity", "name": "Thing", "required": false}}}}));
            n.ents.insert("Box".into(), json!({}));
        }),
        ("namespace-2-cross-ref", |d| {
            let n = d.ns("A::B");
            n.cedar.push("entity E { d: Doc, g: Set<Group> };".into());
            n.cedar.push("action \"act\" appliesTo { principal: [E, User], resource: [E] };".into());
            n.ents.insert("E".into(), json!({"shape": {"type": "Record", "attributes": {"d": {"type": "Entity", "name": "Doc"}, "g": {"type": "Set", "element": {"type": "Entity", "name": "Group"}}}}}));
            n.acts.insert("act".into(), json!({"appliesTo": {"principalTypes": ["E", "User"], "resourceTypes": ["E"]}}));
        }),
        ("common-type-plain", |d| {
            let n = d.ns("");
            n.cedar.push("type Info = { n: Long, s?: String };".into());
            n.commons.insert("Info".into(), json!({"type": "Record", "attributes": {"n": {"type": "Long"}, "s": {"type": "String", "required": false}}}));
            user_attr(d, "info: Info", "info", json!({"type": "Info"}));
        }),
        ("common-type-chain", |d| {
            let n = d.ns("");
            n.cedar.push("type T1 = T2;".into());
            n.cedar.push("type T2 = Set<T3>;".into());
            n.cedar.push("type T3 = { u: User };".into());
            n.commons.insert("T1".into(), json!({"type": "T2"}));
            n.commons.insert("T2".into(), json!({"type": "Set", "element": {"type": "T3"}}));
            n.commons.insert("T3".into(), json!({"type": "Record", "attributes": {"u": {"type": "Entity", "name": "User"}}}));
            user_attr(d, "t1?: T1", "t1", json!({"type": "T1", "required": false}));
        }),
        ("common-type-cross-namespace", |d| {
            {
                let n = d.ns("NSC");
                n.cedar.push("type Tag = { k: String, who: User };".into());
                n.cedar.push("entity Holder { t: Tag };".into());
                n.commons.insert("Tag".into(), json!({"type": "Record", "attributes": {"k": {"type": "String"}, "who": {"type": "Entity", "name": "User"}}}));
                n.ents.insert("Holder".into(), json!({"shape": {"type": "Record", "attributes": {"t": {"type": "Tag"}}}}));
            }
            user_attr(d, "tag?: NSC::Tag", "tag", json!({"type": "NSC::Tag", "required": false}));
        }),
        ("common-type-named-like-extension", |d| {
            let n = d.ns("NSX");
            n.cedar.push("type ipaddr = String;".into());
            n.cedar.push("entity Host { a: ipaddr, b: __cedar::ipaddr };".into());
            n.commons.insert("ipaddr".into(), json!({"type": "String"}));
            n.ents.insert("Host".into(), json!({"shape": {"type": "Record", "attributes": {"a": {"type": "ipaddr"}, "b": {"type": "Extension", "name": "ipaddr"}}}}));
        }),
        ("common-type-shadows-entity-in-other-namespace", |d| {
            let n = d.ns("NSS");
            // a common type and an entity type of the same name in one namespace: an unqualified
            // reference resolves to the common type in both syntaxes
            n.cedar.push("type Item = { members: Set<User> };".into());
            n.cedar.push("entity Item;".into());
            n.cedar.push("entity Club { g: Item };".into());
            n.commons.insert("Item".into(), json!({"type": "Record", "attributes": {"members": {"type": "Set", "element": {"type": "Entity", "name": "User"}}}}));
            n.ents.insert("Item".into(), json!({}));
            n.ents.insert("Club".into(), json!({"shape": {"type": "Record", "attributes": {"g": {"type": "Item"}}}}));
        }),
        ("nested-attr-types", |d| {
            user_attr(d, "deep: { a: Set<Set<Long>>, r: { b?: Bool, e: Doc } }", "deep", json!({"type": "Record", "attributes": {"a": {"type": "Set", "element": {"type": "Set", "element": {"type": "Long"}}}, "r": {"type": "Record", "attributes": {"b": {"type": "Boolean", "required": false}, "e": {"type": "Entity", "name": "Doc"}}}}}));
        }),
        ("extension-attr-types", |d| {
            user_attr(d, "ip?: ipaddr", "ip", json!({"type": "Extension", "name": "ipaddr", "required": false}));
            user_attr(d, "dec: decimal", "dec", json!({"type": "Extension", "name": "decimal"}));
            user_attr(d, "at: datetime", "at", json!({"type": "Extension", "name": "datetime"}));
            user_attr(d, "du: duration", "du", json!({"type": "Extension", "name": "duration"}));
        }),
        ("tags", |d| {
            let n = d.ns("");
            n.cedar.push("entity Tagged in [Group] { x: Long } tags Set<String>;".into());
            n.ents.insert("Tagged".into(), json!({"memberOfTypes": ["Group"], "shape": {"type": "Record", "attributes": {"x": {"type": "Long"}}}, "tags": {"type": "Set", "element": {"type": "String"}}}));
            // tags on an entity type WITHOUT attributes, with and without parents, entity-typed tags
            // (after hand mutant c09_tags_only_with_shape)
            n.cedar.push("entity Bare tags Long;".into());
            n.ents.insert("Bare".into(), json!({"tags": {"type": "Long"}}));
            n.cedar.push("entity BareIn in [Group] tags User;".into());
            n.ents.insert("BareIn".into(), json!({"memberOfTypes": ["Group"], "tags": {"type": "Entity", "name": "User"}}));
        }),
        ("enum-entity", |d| {
            let n = d.ns("");
            n.cedar.push("entity Color enum [\"red\", \"green\", \"a b\\\"c\"];".into());
            n.ents.insert("Color".into(), json!({"enum": ["red", "green", "a b\"c"]}));
            user_attr(d, "fav?: Color", "fav", json!({"type": "Entity", "name": "Color", "required": false}));
        }),
        ("member-of-cross-namespace", |d| {
            let n = d.ns("NSM");
            n.cedar.push("entity Team in [Group, Org];".into());
            n.cedar.push("entity Org;".into());
            n.ents.insert("Team".into(), json!({"memberOfTypes": ["Group", "Org"]}));
            n.ents.insert("Org".into(), json!({}));
        }),
        ("action-groups", |d| {
            let n = d.ns("");
            n.cedar.push("action readers;".into());
            n.cedar.push("action writers in [readers];".into());
            n.cedar.push("action edit in [writers, readers] appliesTo { principal: [User], resource: [Doc, Group], context: {} };".into());
            n.acts.insert("readers".into(), json!({}));
            n.acts.insert("writers".into(), json!({"memberOf": [{"id": "readers"}]}));
            n.acts.insert("edit".into(), json!({"memberOf": [{"id": "writers"}, {"id": "readers"}], "appliesTo": {"principalTypes": ["User"], "resourceTypes": ["Doc", "Group"], "context": {"type": "Record", "attributes": {}}}}));
        }),
        ("action-group-cross-namespace", |d| {
            {
                let n = d.ns("");
                n.cedar.push("action allActs;".into());
                n.acts.insert("allActs".into(), json!({}));
            }
            let n = d.ns("NSA");
            n.cedar.push("entity R;".into());
            n.cedar.push("action local;".into());
            n.cedar.push("action go in [Action::\"allActs\", local] appliesTo { principal: [User], resource: [R] };".into());
            n.ents.insert("R".into(), json!({}));
            n.acts.insert("local".into(), json!({}));
            n.acts.insert("go".into(), json!({"memberOf": [{"id": "allActs", "type": "Action"}, {"id": "local"}], "appliesTo": {"principalTypes": ["User"], "resourceTypes": ["R"]}}));
        }),
        ("context-common-type-ref", |d| {
            let n = d.ns("");
            n.cedar.push("type Ctx = { who?: User, flags: Set<String> };".into());
            n.cedar.push("action share appliesTo { principal: [User], resource: [Doc], context: Ctx };".into());
            n.commons.insert("Ctx".into(), json!({"type": "Record", "attributes": {"who": {"type": "Entity", "name": "User", "required": false}, "flags": {"type": "Set", "element": {"type": "String"}}}}));
            n.acts.insert("share".into(), json!({"appliesTo": {"principalTypes": ["User"], "resourceTypes": ["Doc"], "context": {"type": "Ctx"}}}));
        }),
        ("annotations", |d| {
            let n = d.ns("");
            n.cedar.push("@doc(\"an \\\"annotated\\\" entity\")\n@other\nentity Noted { @doc(\"attr\") a: Long };".into());
            n.cedar.push("@doc(\"act\")\naction noted appliesTo { principal: [User], resource: [Noted] };".into());
            n.ents.insert("Noted".into(), json!({"annotations": {"doc": "an \"annotated\" entity", "other": ""}, "shape": {"type": "Record", "attributes": {"a": {"type": "Long", "annotations": {"doc": "attr"}}}}}));
            n.acts.insert("noted".into(), json!({"annotations": {"doc": "act"}, "appliesTo": {"principalTypes": ["User"], "resourceTypes": ["Noted"]}}));
        }),
        ("identifiers-needing-quotes", |d| {
            user_attr(d, "\"if\": Long", "if", json!({"type": "Long"}));
            user_attr(d, "\"a b\"?: String", "a b", json!({"type": "String", "required": false}));
            user_attr(d, "\"in\": { \"true\": Bool }", "in", json!({"type": "Record", "attributes": {"true": {"type": "Boolean"}}}));
            // names that are identifiers only after trimming, or not identifiers at all
            user_attr(d, "\" lead\": Long", " lead", json!({"type": "Long"}));
            user_attr(d, "\"trail \"?: Long", "trail ", json!({"type": "Long", "required": false}));
            user_attr(d, "\"9x\": { \"a::b\": Bool, \" \": Long, \"é\"?: String, \"a\\tb\": Long }", "9x", json!({"type": "Record", "attributes": {"a::b": {"type": "Boolean"}, " ": {"type": "Long"}, "é": {"type": "String", "required": false}, "a\tb": {"type": "Long"}}}));
            let n = d.ns("");
            n.cedar.push("action \"view photo\", \"é \\\"q\\\"\" appliesTo { principal: [User], resource: [Doc] };".into());
            n.acts.insert("view photo".into(), json!({"appliesTo": {"principalTypes": ["User"], "resourceTypes": ["Doc"]}}));
            n.acts.insert("é \"q\"".into(), json!({"appliesTo": {"principalTypes": ["User"], "resourceTypes": ["Doc"]}}));
        }),
        ("applies-to-variants", |d| {
            let n = d.ns("");
            n.cedar.push("action multi appliesTo { principal: [User, Group], resource: [Doc, Group, User] };".into());
            n.cedar.push("action none;".into());
            n.acts.insert("multi".into(), json!({"appliesTo": {"principalTypes": ["User", "Group"], "resourceTypes": ["Doc", "Group", "User"]}}));
            n.acts.insert("none".into(), json!({}));
        }),
    ]
}

fn subsets(n: usize, k: usize) -> Vec<Vec<usize>> {
    let mut out = vec![vec![]];
    let mut frontier: Vec<Vec<usize>> = vec![vec![]];
    for _ in 0..k {
        let mut next = Vec::new();
        for s in &frontier {
            let start = s.last().map(|x| x + 1).unwrap_or(0);
            for i in start..n {
                let mut t = s.clone();
                t.push(i);
                next.push(t);
            }
        }
        out.extend(next.iter().cloned());
        frontier = next;
    }
    out
}

fn core(s: &cedar_policy::Schema) -> &cedar_policy_core::validator::ValidatorSchema {
    s.as_ref()
}

fn battery() -> Vec<&'static str> {
    vec![
        "permit(principal, action, resource);",
        "permit(principal is User, action == Action::\"view\", resource is Doc) when { principal.age > 1 && resource.owner == principal };",
        "permit(principal, action == Action::\"view\", resource) when { context.n > 0 };",
        "permit(principal, action == Action::\"view\", resource) when { context.missing };",
        "permit(principal, action, resource) when { principal has info && principal.info.n > 0 };",
        "permit(principal, action, resource) when { principal has t1 && principal.t1.isEmpty() };",
        "permit(principal, action, resource) when { principal has tag && principal.tag.who == principal };",
        "permit(principal, action, resource) when { principal has deep && principal.deep.r.e in Group::\"g\" };",
        "permit(principal, action, resource) when { principal has ip && principal.ip.isIpv4() };",
        "permit(principal, action, resource) when { principal has fav && principal.fav == Color::\"red\" };",
        "permit(principal, action, resource) when { principal has fav && principal.fav == Color::\"blue\" };",
        "permit(principal, action in [Action::\"readers\"], resource);",
        "permit(principal, action == Action::\"edit\", resource) when { resource is Group };",
        "permit(principal, action == NSA::Action::\"go\", resource) when { action in Action::\"allActs\" };",
        "permit(principal, action == Action::\"share\", resource) when { context has who && context.flags.contains(\"x\") };",
        "permit(principal, action, resource) when { principal[\"if\"] > 0 && principal[\"in\"][\"true\"] };",
        "permit(principal, action == Action::\"view photo\", resource);",
        "permit(principal, action == Action::\"multi\", resource) when { principal in resource };",
        "permit(principal is NS1::Thing, action, resource);",
        "permit(principal, action == A::B::Action::\"act\", resource) when { resource.d.owner.age > 0 };",
        "permit(principal, action, resource is NSX::Host) when { resource.a like \"*\" && resource.b.isLoopback() };",
        "permit(principal, action, resource is NSS::Club) when { resource.g.members.contains(principal) };",
        "permit(principal, action, resource is Tagged) when { resource.hasTag(\"t\") && resource.getTag(\"t\").contains(\"x\") };",
        "permit(principal, action == Action::\"noted\", resource) when { resource.a == 1 };",
        "permit(principal in NSM::Org::\"o\", action, resource);",
    ]
}

/// validation verdicts of the battery under a schema: per policy, the sorted error kinds
fn verdicts(s: &cedar_policy::Schema) -> Vec<Vec<String>> {
    let v = cedar_policy::Validator::new(s.clone());
    battery()
        .iter()
        .map(|t| match cedar_policy::PolicySet::from_str_checked(t) {
            Some(ps) => {
                let r = v.validate(&ps, cedar_policy::ValidationMode::Strict);
                let mut e: Vec<String> = r.validation_errors().map(|e| format!("{e}")).collect();
                e.sort();
                e
            }
            None => vec!["<unparseable>".into()],
        })
        .collect()
}

trait FromStrChecked {
    fn from_str_checked(t: &str) -> Option<cedar_policy::PolicySet>;
}
impl FromStrChecked for cedar_policy::PolicySet {
    fn from_str_checked(t: &str) -> Option<cedar_policy::PolicySet> {
        <cedar_policy::PolicySet as std::str::FromStr>::from_str(t).ok()
    }
}

/// request / entity validation verdicts on a few data under a schema
fn data_verdicts(s: &cedar_policy::Schema) -> Vec<bool> {
    use std::str::FromStr;
    let uid = |t: &str| cedar_policy::EntityUid::from_str(t).unwrap();
    let mut out = Vec::new();
    let reqs = [
        ("User::\"a\"", "Action::\"view\"", "Doc::\"d\"", json!({"n": 1})),
        ("User::\"a\"", "Action::\"view\"", "Doc::\"d\"", json!({"n": "x"})),
        ("User::\"a\"", "Action::\"view\"", "Group::\"g\"", json!({"n": 1})),
        ("User::\"a\"", "Action::\"edit\"", "Group::\"g\"", json!({})),
        ("User::\"a\"", "Action::\"view photo\"", "Doc::\"d\"", json!({})),
        ("Group::\"g\"", "Action::\"multi\"", "User::\"a\"", json!({})),
        ("User::\"a\"", "NSA::Action::\"go\"", "NSA::R::\"r\"", json!({})),
        ("User::\"a\"", "Action::\"share\"", "Doc::\"d\"", json!({"flags": ["x"], "who": {"__entity": {"type": "User", "id": "b"}}})),
        ("User::\"a\"", "Action::\"none\"", "Doc::\"d\"", json!({})),
    ];
    for (p, a, r, c) in reqs {
        let ok = cedar_policy::Context::from_json_value(c, None).ok().map(|ctx| cedar_policy::Request::new(uid(p), uid(a), uid(r), ctx, Some(s)).is_ok()).unwrap_or(false);
        out.push(ok);
    }
    let ents = [
        json!([{"uid": {"type": "Doc", "id": "d"}, "attrs": {"owner": {"__entity": {"type": "User", "id": "a"}}}, "parents": [{"type": "Group", "id": "g"}]}]),
        json!([{"uid": {"type": "Doc", "id": "d"}, "attrs": {"owner": {"__entity": {"type": "Group", "id": "a"}}}, "parents": []}]),
        json!([{"uid": {"type": "Group", "id": "g"}, "attrs": {}, "parents": [{"type": "Doc", "id": "d"}]}]),
        json!([{"uid": {"type": "Tagged", "id": "t"}, "attrs": {"x": 1}, "parents": [], "tags": {"k": ["a"]}}]),
        json!([{"uid": {"type": "Color", "id": "blue"}, "attrs": {}, "parents": []}]),
        json!([{"uid": {"type": "NS1::Thing", "id": "t"}, "attrs": {"owner": {"__entity": {"type": "User", "id": "a"}}}, "parents": [{"type": "NS1::Box", "id": "b"}]}]),
        json!([{"uid": {"type": "NSM::Team", "id": "t"}, "attrs": {}, "parents": [{"type": "Group", "id": "g"}, {"type": "NSM::Org", "id": "o"}]}]),
        json!([{"uid": {"type": "NSX::Host", "id": "h"}, "attrs": {"a": "x", "b": {"__extn": {"fn": "ip", "arg": "127.0.0.1"}}}, "parents": []}]),
    ];
    for e in ents {
        out.push(cedar_policy::Entities::from_json_value(e, Some(s)).is_ok());
    }
    out
}

/// constructs only the JSON syntax can write
fn json_only_extras() -> Vec<(&'static str, fn(&mut J))> {
    fn ns_with_shadowed_entity(doc: &mut J, ns: &str) {
        let o = doc.as_object_mut().unwrap();
        let entry = o.entry(ns.to_string()).or_insert_with(|| json!({"entityTypes": {}, "actions": {}}));
        let e = entry.as_object_mut().unwrap();
        let commons = e.entry("commonTypes".to_string()).or_insert_with(|| json!({}));
        commons.as_object_mut().unwrap().insert("Tz".into(), json!({"type": "String"}));
        let ets = e.get_mut("entityTypes").unwrap().as_object_mut().unwrap();
        ets.insert("Tz".into(), json!({}));
        ets.insert("Hz".into(), json!({"shape": {"type": "Record", "attributes": {"x": {"type": "Entity", "name": "Tz"}, "y": {"type": "Tz"}}}}));
    }
    vec![
        ("json-only:entity-ref-shadowed-in-early-namespace", |d| ns_with_shadowed_entity(d, "AAJ")),
        ("json-only:entity-ref-shadowed-in-late-namespace", |d| ns_with_shadowed_entity(d, "ZZJ")),
        ("json-only:entity-ref-shadowed-in-empty-namespace", |d| ns_with_shadowed_entity(d, "")),
    ]
}

/// leg (1): JSON -> to_cedarschema -> load must give the schema `sj` (a refused translation is
/// skipped and counted)
fn leg_json_to_cedar(ctx: &Ctx, l: &mut Local, fp_prefix: &str, names: &[&str], json_val: &J, sj: &cedar_policy::Schema, rep: &dyn Fn() -> J) {
    l.transitions += 1;
    match cedar_policy::SchemaFragment::from_json_value(json_val.clone()) {
        Err(e) => ctx.violation("fragment:json-rejected", format!("Schema accepts but SchemaFragment::from_json_value rejects: {e}"), rep()),
        Ok(frag) => match frag.to_cedarschema() {
            Err(_) => {
                // translation may legitimately fail (name collisions): skipped, counted
                l.case(hash_of(&(names, "j2c-skip")), "json->cedar:translation-refused", false);
            }
            Ok(text) => match cedar_policy::Schema::from_cedarschema_str(&text) {
                Err(e) => ctx.violation(format!("{fp_prefix}json->cedar:reload-failed:{}", names.join("+")), format!("to_cedarschema output does not load: {e}\n{text}"), rep()),
                Ok((back, _)) => {
                    l.case(hash_of(&(names, "j2c")), "json->cedar->load", true);
                    if core(&back) != core(sj) {
                        ctx.violation(format!("{fp_prefix}json->cedar:schema-changed:{}", names.join("+")), format!("JSON schema -> to_cedarschema -> load gives a different schema (features {names:?}):\n{text}"), rep());
                    } else {
                        if verdicts(&back) != verdicts(sj) {
                            ctx.violation(format!("{fp_prefix}json->cedar:verdicts-differ:{}", names.join("+")), "policy validation verdicts differ after translation", rep());
                        }
                        if data_verdicts(&back) != data_verdicts(sj) {
                            ctx.violation(format!("{fp_prefix}json->cedar:data-verdicts-differ:{}", names.join("+")), "request/entity validation verdicts differ after translation", rep());
                        }
                    }
                }
            },
        },
    }
}

pub fn run(tier: Tier, replay_file: Option<&str>) -> i32 {
    if let Some(p) = replay_file {
        return replay_by_rerun("C09", p, || run(Tier::Quick, None));
    }
    let ctx = Ctx::new("C09", tier);
    quiet_panics();
    let feats = features();
    // the base must load in both syntaxes and be equal
    {
        let b = base();
        let c = cedar_policy::Schema::from_cedarschema_str(&b.cedar());
        let j = cedar_policy::Schema::from_json_value(b.json());
        match (c, j) {
            (Ok((c, _)), Ok(j)) => {
                if core(&c) != core(&j) {
                    eprintln!("MACHINERY ERROR: the two renderings of the base schema differ");
                    return 2;
                }
            }
            (c, j) => {
                eprintln!("MACHINERY ERROR: base schema does not load: {:?} {:?}\n{}\n{}", c.err().map(|e| e.to_string()), j.err().map(|e| e.to_string()), b.cedar(), b.json());
                return 2;
            }
        }
    }
    let subs = subsets(feats.len(), tier.pick(3, 4));
    ctx.set_info("features", json!(feats.iter().map(|f| f.0).collect::<Vec<_>>()));
    ctx.set_info("schemas", json!(subs.len()));
    subs.par_iter().for_each(|sub| {
        let mut l = Local::default();
        let mut d = base();
        for i in sub {
            (feats[*i].1)(&mut d);
        }
        let names: Vec<&str> = sub.iter().map(|i| feats[*i].0).collect();
        let cedar_text = d.cedar();
        let json_val = d.json();
        let rep = || json!({"features": names, "cedar": cedar_text, "json": json_val});
        let key = hash_of(&names);
        // load both renderings
        let from_cedar = cedar_policy::Schema::from_cedarschema_str(&cedar_text).map(|x| x.0).map_err(|e| e.to_string());
        let from_json = cedar_policy::Schema::from_json_value(json_val.clone()).map_err(|e| e.to_string());
        l.transitions += 2;
        let (sc, sj) = match (from_cedar, from_json) {
            (Ok(a), Ok(b_)) => (a, b_),
            (a, b_) => {
                // the generator's feature combination is not a valid schema in one syntax:
                // not a case of the property (which quantifies over accepted schemas), but counted
                l.case(key, "generator-schema-rejected", false);
                ctx.set_info("last_rejected_combination", json!({"features": names, "cedar_err": a.err(), "json_err": b_.err()}));
                ctx.merge(l);
                return;
            }
        };
        l.case(key, if sub.is_empty() { "base" } else { "accepted" }, !sub.is_empty());
        // (3) the two renderings denote the same schema
        if core(&sc) != core(&sj) {
            ctx.violation(format!("renderings-differ:{}", names.join("+")), format!("the Cedar-syntax and JSON renderings of the same model load to different schemas (features {names:?})"), rep());
        }
        // (1) JSON -> Cedar syntax -> load
        leg_json_to_cedar(&ctx, &mut l, "", &names, &json_val, &sj, &rep);
        // (1') JSON-only documents: the same model plus a construct only the JSON syntax can
        // express (an explicit Entity reference to a name that a common type shadows)
        for (xname, extra) in json_only_extras() {
            let mut jv = json_val.clone();
            extra(&mut jv);
            let mut xn: Vec<&str> = names.clone();
            xn.push(xname);
            let Ok(sjx) = cedar_policy::Schema::from_json_value(jv.clone()) else {
                l.case(hash_of(&(&xn, "json-only")), "generator-schema-rejected", false);
                continue;
            };
            l.transitions += 1;
            l.case(hash_of(&(&xn, "json-only")), "json-only-accepted", true);
            let repx = || json!({"features": xn, "json": jv});
            leg_json_to_cedar(&ctx, &mut l, &format!("{xname}:"), &names, &jv, &sjx, &repx);
        }
        // (2) Cedar syntax -> JSON -> load
        l.transitions += 1;
        match cedar_policy::SchemaFragment::from_cedarschema_str(&cedar_text) {
            Err(e) => ctx.violation("fragment:cedar-rejected", format!("Schema accepts but SchemaFragment::from_cedarschema_str rejects: {e}"), rep()),
            Ok((frag, _)) => match frag.to_json_value() {
                Err(_) => {
                    l.case(hash_of(&(&names, "c2j-skip")), "cedar->json:translation-refused", false);
                }
                Ok(j) => match cedar_policy::Schema::from_json_value(j.clone()) {
                    Err(e) => ctx.violation(format!("cedar->json:reload-failed:{}", names.join("+")), format!("to_json_value output does not load: {e}\n{j}"), rep()),
                    Ok(back) => {
                        l.case(hash_of(&(&names, "c2j")), "cedar->json->load", true);
                        if core(&back) != core(&sc) {
                            ctx.violation(format!("cedar->json:schema-changed:{}", names.join("+")), format!("Cedar schema -> to_json_value -> load gives a different schema (features {names:?}):\n{j}"), rep());
                        } else {
                            if verdicts(&back) != verdicts(&sc) {
                                ctx.violation(format!("cedar->json:verdicts-differ:{}", names.join("+")), "policy validation verdicts differ after translation", rep());
                            }
                            if data_verdicts(&back) != data_verdicts(&sc) {
                                ctx.violation(format!("cedar->json:data-verdicts-differ:{}", names.join("+")), "request/entity validation verdicts differ after translation", rep());
                            }
                        }
                        // and back again: JSON -> Cedar -> load
                        if let Ok(f2) = cedar_policy::SchemaFragment::from_json_value(j) {
                            if let Ok(t2) = f2.to_cedarschema() {
                                match cedar_policy::Schema::from_cedarschema_str(&t2) {
                                    Ok((b2, _)) => {
                                        if core(&b2) != core(&sc) {
                                            ctx.violation(format!("cedar->json->cedar:schema-changed:{}", names.join("+")), format!("two translations changed the schema:\n{t2}"), rep());
                                        }
                                    }
                                    Err(e) => ctx.violation(format!("cedar->json->cedar:reload-failed:{}", names.join("+")), format!("{e}\n{t2}"), rep()),
                                }
                            }
                        }
                    }
                },
            },
        }
        // (4) verdicts under the two originals
        if verdicts(&sc) != verdicts(&sj) {
            ctx.violation(format!("verdicts-differ-between-syntaxes:{}", names.join("+")), "policy validation verdicts differ between the two syntaxes of the same model", rep());
        }
        if data_verdicts(&sc) != data_verdicts(&sj) {
            ctx.violation(format!("data-verdicts-differ-between-syntaxes:{}", names.join("+")), "request/entity validation verdicts differ between the two syntaxes", rep());
        }
        ctx.merge(l);
    });
    let mut d = base();
    (feats[2].1)(&mut d);
    (feats[13].1)(&mut d);
    ctx.sample(json!({"cedar": d.cedar(), "json": d.json()}));
    ctx.sample(json!({"cedar": base().cedar()}));
    ctx.finish(
        "deviation bounding from a minimal schema: every subset of <= 3 (quick) / <= 4 (thorough) of 18 schema features (extra namespaces with cross references, common types: plain / chained / cross-namespace / named like an extension type / shadowing an entity name of another namespace, nested and extension attribute types, tags, enum entities, memberOf across namespaces, action groups within and across namespaces, context by common-type reference, annotations, identifiers needing quotes, appliesTo variants), written in both syntaxes; translation both ways + reload, schema equality, 25-policy validation battery and 17 request/entity validations under every variant; case = feature subset and each translation leg; non-trivial = at least one feature on",
        json!({"tier": tier.name(), "features": 18, "max_features_on": tier.pick(3, 4)}),
        &["ValidatorSchema: PartialEq is the schema equality (cross-checked by validation verdicts)", "a translation that returns Err is skipped and counted, as the statement allows"],
        true,
    )
}
