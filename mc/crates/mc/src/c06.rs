//! C06 — structured policy formats (JSON/EST, PST, protobuf) are lossless.
use crate::bind::*;
use crate::c02::policy_outcome;
use crate::c05::{expected_outcome, parse_one, prep, Prep};
use crate::harness::*;
use crate::progs;
use crate::world::*;
use cedar_policy::proto::traits::Protobuf;
use cedar_policy_core::{ast, est, pst};
use rayon::prelude::*;
use refsem::print::Style;
use refsem::*;
use serde_json::json;
use std::collections::{BTreeMap, HashMap};

fn pid(s: &str) -> cedar_policy::PolicyId {
    cedar_policy::PolicyId::new(s)
}

fn bindings(p: &Pol) -> (Option<Uid>, Option<Uid>) {
    (if p.principal_slot() { Some(ua()) } else { None }, if p.resource_slot() { Some(gg()) } else { None })
}

fn with_id(mut a: AbsPol, id: &str) -> AbsPol {
    a.id = id.to_string();
    a
}

/// EST -> AST through the entry point for the policy's kind
fn est_to_ast(e: est::Policy, is_t: bool, id: &ast::PolicyID) -> Result<ast::Template, String> {
    if is_t {
        e.try_into_ast_template(Some(id.clone())).map_err(|e| e.to_string())
    } else {
        e.try_into_ast_policy(Some(id.clone())).map(|p| (*p.template()).clone()).map_err(|e| e.to_string())
    }
}

/// all conversions of one program
pub fn check_pol(p: &Pol, pr: &Prep, l: &mut Local) -> Vec<(String, String)> {
    let mut bad = Vec::new();
    let st = Style::default();
    let text = p.text(&st);
    let is_t = p.has_slots();
    let bind = bindings(p);
    let head = match p.conds.first() {
        Some((_, e)) => crate::c02::head(e),
        None => "scope".into(),
    };
    let p1 = match parse_one(&text, is_t, &bind) {
        Ok(x) => x,
        Err(e) => {
            bad.push(("gen:text-rejected".into(), format!("{text}: {e}")));
            return bad;
        }
    };
    l.case(hash_of(p), if is_t { "template" } else { "static" }, !p.conds.is_empty() || p.principal != PR::Any);
    let base = with_id(p1.abs.clone(), "X");
    let ast_t: ast::Template = {
        let aset: &ast::PolicySet = p1.pset.as_ref();
        if is_t {
            aset.templates().next().cloned().unwrap()
        } else {
            let pol = aset.policies().next().unwrap();
            (*pol.template()).clone()
        }
    };
    let core_id = ast::PolicyID::from_string("X");
    let conv = |name: &str, r: Result<ast::Template, String>, bad: &mut Vec<(String, String)>, l: &mut Local| {
        l.transitions += 1;
        match r {
            Err(e) => bad.push((format!("{name}:failed:{head}"), format!("{name} failed on `{text}`: {e}"))),
            Ok(t) => match abs_template(&t) {
                Err(e) => bad.push((format!("{name}:abs:{head}"), e)),
                Ok(a) => {
                    let a = with_id(a, "X");
                    if a != base {
                        bad.push((format!("{name}:changed:{head}"), format!("{name} changed `{text}`:\n  before {base:?}\n  after  {a:?}")));
                    }
                }
            },
        }
    };
    // (1) text -> CST -> EST JSON (API to_json of a text-parsed policy) -> from JSON
    match &p1.api_to_json {
        Err(e) => bad.push((format!("cst-est:to_json:{head}"), format!("{text}: {e}"))),
        Ok(j) => {
            let r = serde_json::from_value::<est::Policy>(j.clone()).map_err(|e| e.to_string()).and_then(|e| est_to_ast(e, is_t, &core_id));
            conv("text->cst->est->json->ast", r, &mut bad, l);
        }
    }
    // (2) AST -> EST -> serde JSON -> EST -> AST
    {
        let e: est::Policy = ast_t.clone().into();
        let r = serde_json::to_value(&e)
            .map_err(|e| e.to_string())
            .and_then(|j| serde_json::to_string(&j).map_err(|e| e.to_string()))
            .and_then(|s| serde_json::from_str::<est::Policy>(&s).map_err(|e| e.to_string()))
            .and_then(|e| est_to_ast(e, is_t, &core_id));
        conv("ast->est->json->est->ast", r, &mut bad, l);
    }
    // (3) AST -> PST -> AST
    let pst_t: Result<pst::Template, String> = pst::Template::try_from(ast_t.clone()).map_err(|e| e.to_string());
    match &pst_t {
        Err(e) => bad.push((format!("ast->pst:failed:{head}"), format!("{text}: {e}"))),
        Ok(pt) => {
            let r = ast::Template::try_from(pt.clone()).map_err(|e| e.to_string());
            conv("ast->pst->ast", r, &mut bad, l);
            // (4) PST -> EST -> PST, and on to AST
            match est::Policy::try_from(pt.clone()) {
                Err(e) => bad.push((format!("pst->est:failed:{head}"), format!("{text}: {e}"))),
                Ok(e) => {
                    let r = est_to_ast(e.clone(), is_t, &core_id);
                    conv("ast->pst->est->ast", r, &mut bad, l);
                    match pst::Template::try_from(e) {
                        Err(e) => bad.push((format!("est->pst:failed:{head}"), format!("{text}: {e}"))),
                        Ok(pt2) => {
                            let r = ast::Template::try_from(pt2).map_err(|e| e.to_string());
                            conv("pst->est->pst->ast", r, &mut bad, l);
                        }
                    }
                }
            }
        }
    }
    // (5) API level: to_pst / from_pst
    if is_t {
        let t = cedar_policy::Template::parse(Some(pid("X")), &text).unwrap();
        let r = t.to_pst().map_err(|e| e.to_string()).and_then(|p| cedar_policy::Template::from_pst(p).map_err(|e| e.to_string())).map(|t| AsRef::<ast::Template>::as_ref(&t).clone());
        conv("api:to_pst->from_pst", r, &mut bad, l);
        // protobuf of a template
        let r = t.encode().map_err(|e| e.to_string()).and_then(|b| cedar_policy::Template::decode(&b[..]).map_err(|e| e.to_string())).map(|t| AsRef::<ast::Template>::as_ref(&t).clone());
        conv("api:protobuf-template", r, &mut bad, l);
    } else {
        let q = cedar_policy::Policy::parse(Some(pid("X")), &text).unwrap();
        let r = q.to_pst().map_err(|e| e.to_string()).and_then(|p| cedar_policy::Policy::from_pst(p).map_err(|e| e.to_string())).map(|q| (*AsRef::<ast::Policy>::as_ref(&q).template()).clone());
        conv("api:to_pst->from_pst", r, &mut bad, l);
        let r = q.to_json().map_err(|e| e.to_string()).and_then(|j| cedar_policy::Policy::from_json(Some(pid("X")), j).map_err(|e| e.to_string())).map(|q| (*AsRef::<ast::Policy>::as_ref(&q).template()).clone());
        conv("api:to_json->from_json", r, &mut bad, l);
    }
    // (6) policy set with the (linked) policy: JSON, PST and protobuf round trips keep ids, links, bodies
    let set_abs = |s: &cedar_policy::PolicySet| -> Result<(Vec<AbsPol>, Vec<AbsPol>), String> {
        let a: &ast::PolicySet = s.as_ref();
        let mut ps = Vec::new();
        for q in a.policies() {
            ps.push(abs_policy(q)?);
        }
        let mut ts = Vec::new();
        for t in a.templates() {
            // static policies appear as templates too in the core representation
            ts.push(abs_template(t)?);
        }
        ps.sort_by(|a, b| a.id.cmp(&b.id));
        ts.sort_by(|a, b| a.id.cmp(&b.id));
        Ok((ps, ts))
    };
    let before = set_abs(&p1.pset);
    let setconv = |name: &str, r: Result<cedar_policy::PolicySet, String>, bad: &mut Vec<(String, String)>, l: &mut Local| {
        l.transitions += 1;
        match r {
            Err(e) => bad.push((format!("{name}:failed:{head}"), format!("{name} failed on set of `{text}`: {e}"))),
            Ok(s2) => {
                let after = set_abs(&s2);
                if after != before {
                    bad.push((format!("{name}:changed:{head}"), format!("{name} changed the set of `{text}`:\n  before {before:?}\n  after  {after:?}")));
                }
                // same authorization response
                for (i, (r, s, cr, ce)) in pr.envs.iter().enumerate() {
                    let expect = expected_outcome(p, &bind, r, s);
                    match policy_outcome(&s2, cr, ce) {
                        Ok(o) if o == expect => {}
                        other => bad.push((format!("{name}:meaning:{head}"), format!("{name} of `{text}` env#{i}: expected {expect:?} got {other:?}"))),
                    }
                }
            }
        }
    };
    setconv("set:to_json->from_json", p1.pset.clone().to_json().map_err(|e| e.to_string()).and_then(|j| cedar_policy::PolicySet::from_json_value(j).map_err(|e| e.to_string())), &mut bad, l);
    setconv("set:to_pst->from_pst", p1.pset.to_pst().map_err(|e| e.to_string()).and_then(|j| cedar_policy::PolicySet::from_pst(j).map_err(|e| e.to_string())), &mut bad, l);
    setconv("set:protobuf", p1.pset.encode().map_err(|e| e.to_string()).and_then(|b| cedar_policy::PolicySet::decode(&b[..]).map_err(|e| e.to_string())), &mut bad, l);
    // (7) the harness's own JSON rendering -> from_json -> to_cedar -> parse: equal structure, same meaning
    {
        let j = p.est();
        let r: Result<(AbsPol, String), String> = if is_t {
            cedar_policy::Template::from_json(Some(pid("X")), j.clone()).map_err(|e| e.to_string()).and_then(|t| Ok((abs_template(t.as_ref())?, t.to_cedar())))
        } else {
            cedar_policy::Policy::from_json(Some(pid("X")), j.clone()).map_err(|e| e.to_string()).and_then(|q| Ok((abs_policy(q.as_ref())?, q.to_cedar().ok_or("to_cedar None")?)))
        };
        l.transitions += 1;
        match r {
            Err(e) => bad.push((format!("own-json:rejected:{head}"), format!("JSON policy {j} rejected: {e}"))),
            Ok((a, printed)) => match parse_one(&printed, is_t, &bind) {
                Err(e) => bad.push((format!("own-json:to_cedar-reparse:{head}"), format!("JSON policy {j} prints as `{printed}` which does not parse: {e}"))),
                Ok(p3) => {
                    if with_id(p3.abs.clone(), "X") != with_id(a, "X") {
                        bad.push((format!("own-json:to_cedar-structure:{head}"), format!("JSON policy {j} prints as `{printed}` which parses to a different policy")));
                    }
                    for (i, (r, s, cr, ce)) in pr.envs.iter().enumerate() {
                        let expect = expected_outcome(p, &bind, r, s);
                        match policy_outcome(&p3.pset, cr, ce) {
                            Ok(o) if o == expect => {}
                            other => bad.push((format!("own-json:meaning:{head}"), format!("JSON policy {j} printed as `{printed}` env#{i}: expected {expect:?} got {other:?}"))),
                        }
                    }
                }
            },
        }
    }
    bad
}

/// a mixed policy set: statics + templates + links with both slots; all three encodings
fn mixed_sets(ctx: &Ctx) {
    let st = Style::default();
    let pols = progs::policies(Tier::Quick);
    let statics: Vec<&Pol> = pols.iter().filter(|p| !p.has_slots()).collect();
    let templates: Vec<&Pol> = pols.iter().filter(|p| p.has_slots()).collect();
    let n = templates.len();
    (0..n).into_par_iter().for_each(|i| {
        let mut l = Local::default();
        let t = templates[i];
        let s1 = statics[i % statics.len()];
        let s2 = statics[(i * 7 + 3) % statics.len()];
        let mut set = cedar_policy::PolicySet::new();
        let ids = ["s\"1", "é2", "T 3", "l\\4", "l5"];
        let r = (|| -> Result<(), String> {
            set.add(cedar_policy::Policy::parse(Some(pid(ids[0])), s1.text(&st)).map_err(|e| e.to_string())?).map_err(|e| e.to_string())?;
            set.add(cedar_policy::Policy::parse(Some(pid(ids[1])), s2.text(&st)).map_err(|e| e.to_string())?).map_err(|e| e.to_string())?;
            set.add_template(cedar_policy::Template::parse(Some(pid(ids[2])), t.text(&st)).map_err(|e| e.to_string())?).map_err(|e| e.to_string())?;
            for (k, (pu, ru)) in [(ua(), gg()), (ub(), gh())].into_iter().enumerate() {
                let mut m = HashMap::new();
                if t.principal_slot() {
                    m.insert(cedar_policy::SlotId::principal(), c_uid(&pu));
                }
                if t.resource_slot() {
                    m.insert(cedar_policy::SlotId::resource(), c_uid(&ru));
                }
                set.link(pid(ids[2]), pid(ids[3 + k]), m).map_err(|e| e.to_string())?;
            }
            Ok(())
        })();
        if let Err(e) = r {
            ctx.violation("gen:mixed-set", e, json!({"template": t.text(&st)}));
            return;
        }
        let view = |s: &cedar_policy::PolicySet| -> BTreeMap<String, String> {
            let a: &ast::PolicySet = s.as_ref();
            let mut m = BTreeMap::new();
            for q in a.policies() {
                if let Ok(x) = abs_policy(q) {
                    m.insert(format!("policy:{}", x.id), format!("{x:?} of template {}", AsRef::<str>::as_ref(q.template().id())));
                }
            }
            for t in a.templates() {
                if let Ok(x) = abs_template(t) {
                    m.insert(format!("template:{}", x.id), format!("{x:?}"));
                }
            }
            m
        };
        let before = view(&set);
        l.case(hash_of(&(i, "mixed")), "mixed-set", true);
        let routes: Vec<(&str, Result<cedar_policy::PolicySet, String>)> = vec![
            ("json", set.clone().to_json().map_err(|e| e.to_string()).and_then(|j| cedar_policy::PolicySet::from_json_value(j).map_err(|e| e.to_string()))),
            ("json-string", set.clone().to_json().map_err(|e| e.to_string()).and_then(|j| cedar_policy::PolicySet::from_json_str(j.to_string()).map_err(|e| e.to_string()))),
            ("pst", set.to_pst().map_err(|e| e.to_string()).and_then(|j| cedar_policy::PolicySet::from_pst(j).map_err(|e| e.to_string()))),
            ("protobuf", set.encode().map_err(|e| e.to_string()).and_then(|b| cedar_policy::PolicySet::decode(&b[..]).map_err(|e| e.to_string()))),
        ];
        for (name, r) in routes {
            l.transitions += 1;
            match r {
                Err(e) => ctx.violation(format!("mixed-set:{name}:failed"), format!("{name} round trip failed: {e}"), json!({"template": t.text(&st)})),
                Ok(s2) => {
                    let after = view(&s2);
                    if after != before {
                        let diff: Vec<String> = before.iter().filter(|(k, v)| after.get(*k) != Some(v)).map(|(k, v)| format!("{k}: {v} => {:?}", after.get(k))).collect();
                        ctx.violation(format!("mixed-set:{name}:changed"), format!("{name} round trip changed the policy set: {diff:?} (keys after: {:?})", after.keys().collect::<Vec<_>>()), json!({"template": t.text(&st)}));
                    }
                }
            }
        }
        ctx.merge(l);
    });
}

/// Entities through protobuf
fn entities_proto(ctx: &Ctx) {
    let mut l = Local::default();
    let mut stores = vec![store1(), store_empty()];
    // entities with every value shape of C10 as attribute and tag
    #[cfg(feature = "c10")]
    for (k, v) in crate::c10::values(Tier::Quick).into_iter().enumerate() {
        if crate::c10::has_reserved_key(&v) {
            continue;
        }
        let mut s = Store::default();
        let mut e = Ent::default();
        e.attrs.insert("x".into(), v.clone());
        if k % 2 == 0 {
            e.tags.insert("t".into(), v);
        }
        e.parents.insert(gg());
        s.ents.insert(ua(), e);
        let mut g = Ent::default();
        g.parents.insert(gh());
        s.ents.insert(gg(), g);
        stores.push(s);
    }
    for (i, s) in stores.iter().enumerate() {
        let e = c_entities(s);
        l.case(hash_of(&("ents", i)), "entities-protobuf", true);
        l.transitions += 1;
        match e.encode().map_err(|e| e.to_string()).and_then(|b| cedar_policy::Entities::decode(&b[..]).map_err(|e| e.to_string())) {
            Err(err) => ctx.violation("entities:protobuf:failed", err, json!({"store": i})),
            Ok(e2) => {
                if !e.deep_eq(&e2) {
                    ctx.violation("entities:protobuf:changed", "protobuf round trip changed the entity store", json!({"store": i}));
                }
            }
        }
    }
    ctx.merge(l);
}

fn replay(path: &str) -> i32 {
    let Some(doc) = std::fs::read_to_string(path).ok().and_then(|s| serde_json::from_str::<serde_json::Value>(&s).ok()) else {
        eprintln!("cannot read {path}");
        return 2;
    };
    let Ok(p) = serde_json::from_value::<Pol>(doc["case"]["pol"].clone()) else {
        eprintln!("replay file holds no C06 policy case");
        return 2;
    };
    let mut l = Local::default();
    let bad = check_pol(&p, &prep(), &mut l);
    println!("replaying `{}`", p.text(&Style::default()));
    for (fp, what) in &bad {
        println!("  [{fp}] {what}");
    }
    if bad.is_empty() {
        println!("no mismatch on replay");
        0
    } else {
        println!("VIOLATION property=C06 replay={path}");
        1
    }
}

pub fn run(tier: Tier, replay_file: Option<&str>) -> i32 {
    if let Some(p) = replay_file {
        return replay(p);
    }
    let ctx = Ctx::new("C06", tier);
    quiet_panics();
    let progs = crate::c05::programs(tier);
    let total = progs.len();
    ctx.set_info("programs", json!(total));
    progs.par_chunks(128).enumerate().for_each(|(ci, chunk)| {
        let pr = prep();
        let mut l = Local::default();
        for (j, p) in chunk.iter().enumerate() {
            let res = ctx.guard("C06 program", || json!({"text": p.text(&Style::default())}), || check_pol(p, &pr, &mut l));
            if let Some(bad) = res {
                for (fp, what) in bad {
                    ctx.violation(fp, what, json!({"pol": serde_json::to_value(p).unwrap(), "text": p.text(&Style::default())}));
                }
            }
            ctx.sample_at(ci * 128 + j, total, || json!({"text": p.text(&Style::default())}));
        }
        ctx.merge(l);
    });
    mixed_sets(&ctx);
    entities_proto(&ctx);
    ctx.finish(
        "the C05 program set (operator nestings, content alphabet, policy grid incl. templates) pushed through every conversion: text->CST->EST->JSON->AST, AST->EST->JSON->EST->AST, AST->PST->AST, PST->EST->PST, API to_json/from_json, to_pst/from_pst, protobuf (template, policy set with links), the harness's own JSON rendering -> from_json -> to_cedar -> parse; plus mixed sets (2 statics + template + 2 links) through JSON/PST/protobuf; case = program; non-trivial = has a condition or scope constraint",
        json!({"conversions_per_program": 12, "tier": tier.name()}),
        &["structural identity is decided by bind::abs_policy/abs_template (loc-free)", "protobuf schema/validator messages are not covered (not in the statement)"],
        true,
    )
}
